"""vf.spec - the reference hub (DESIGN.md Appendix A): a boring, synchronous pub/sub hub written
against the same virtual-socket semantics as the implementation, driven by the same environment
events and the same per-round choices. What it writes to its mirrored client sockets is what the
properties say each client must receive (modulo the normalisation of vf.proto.normalize).

No timers: lock-step drivers never move the manager's clock.
"""
from __future__ import annotations

from typing import Any, Dict, List, Optional, Sequence, Set, Tuple

from . import net as N
from . import proto as P
from .mmx import nth_permutation, PORT

import socket as _socket

WAITALL = _socket.MSG_WAITALL


class SConn:
    def __init__(self, sock: N.VSock, uid: int):
        self.sock = sock
        self.uid = uid
        self.registered = True
        self.connected = False
        self.mod_id = 0
        self.name = ""
        self.pid = 0
        self.logger = False
        self.unique = True
        self.subs: Set[int] = set()
        self.in_loggers = False
        self.msg_count = 0

    @property
    def slot(self):
        return self.sock.tag

    def key(self) -> Tuple:
        return (self.slot, self.connected, self.mod_id, self.name, self.pid, self.logger, self.unique,
                tuple(sorted(self.subs)))


class SClient:
    """the mirrored client endpoint of one slot"""

    def __init__(self, hub: "SpecHub", slot: Any, hid: Optional[int]):
        self.hub = hub
        self.slot = slot
        self.hid = hid
        self.sock = N.VSock(hub.net)
        self.optional: List[Tuple] = []

    def connect(self):
        if self.hid is not None:
            self.hub.net.accept_hids.append(self.hid)
        self.sock.connect(("127.0.0.1", PORT))
        self.sock.peer_sock.tag = self.slot

    def drain(self) -> List[P.Frame]:
        frames, rest, prob = P.parse_stream(bytes(self.sock.rx), self.hub.timecode)
        used = len(self.sock.rx) - len(rest)
        del self.sock.rx[:used]
        return frames


class SpecHub:
    def __init__(self, timecode: bool = False, fin_grace: int = 1):
        self.timecode = timecode
        self.hs = P.hstruct(timecode)
        self.net = N.VNet(fin_grace=fin_grace)
        self.lsock = N.VSock(self.net)
        self.lsock.bind(("127.0.0.1", PORT))
        self.lsock.listen()
        self.conns: List[SConn] = []  # registered connections, accept order
        self.uid = 0
        self.dyn = 0
        self.clients: Dict[Any, SClient] = {}
        self.now = self.net.mgr_clock.t
        # bookkeeping the checks read
        self.acks_due: Dict[Any, int] = {}  # slot -> number of ACKs the property demands so far
        self.unspecified: List[str] = []  # notes about U-rules taken in the last round
        self.removed_log: List[Tuple] = []  # (slot, mod_id, name, logger, unique, pid) in removal order
        self.wait_deaths: Dict[Any, str] = {}  # slot -> 'fin'|'rst': the peer goes away while the hub waits for this logger
        self._closed_pending: List[bytes] = []
        self._announcing = False
        self.refused: List[Any] = []

    # ---- environment ------------------------------------------------------------------------
    def client(self, slot, hid=None) -> SClient:
        c = SClient(self, slot, hid)
        self.clients[slot] = c
        return c

    def state_key(self) -> Tuple:
        return (tuple(c.key() for c in self.conns), self.dyn,
                tuple((s, bytes(c.sock.peer_sock.rx) if c.sock.peer_sock else b"", c.sock.closed)
                      for s, c in sorted(self.clients.items(), key=lambda kv: str(kv[0]))))

    # ---- sending ------------------------------------------------------------------------------
    def _hdr(self, msg_type, nbytes, dest_mod_id=0, dest_host_id=0) -> List:
        h = [0] * (14 if self.timecode else 12)
        h[0] = msg_type
        h[2] = self.now
        h[3] = 0.0
        h[7] = dest_mod_id
        h[6] = dest_host_id
        h[8] = nbytes
        return h

    def _send(self, c: SConn, h: Sequence, payload: bytes):
        c.msg_count += 1
        hh = list(h)
        hh[1] = c.msg_count
        hh[2] = float(hh[2])
        hh[3] = float(hh[3])
        c.sock.sendall(self.hs.pack(*hh))
        c.sock.sendall(payload)

    def _others(self, c: SConn):
        # the manager's own pseudo-module takes part in identity checks
        yield ("mm", 0, "message_manager", True)
        for m in self.conns:
            if m is not c:
                yield (m, m.mod_id, m.name, m.unique)

    # ---- the hub --------------------------------------------------------------------------------
    def round(self, order: int = 0, nonwritable: Sequence[Any] = ()):
        self.unspecified = []
        ready = [c for c in self.conns if c.sock.readable()]
        if self.lsock.readable():
            s, _addr = self.lsock.accept()
            self.uid += 1
            self.conns.append(SConn(s, self.uid))
        if order:
            ready = nth_permutation(ready, order)
        nw = set(nonwritable)
        self.W = {c.sock for c in self.conns if c.slot in nw}
        if not ready:
            return
        for c in ready:
            if not c.registered:
                continue
            try:
                hb = c.sock.recv(self.hs.size, WAITALL)
                if len(hb) != self.hs.size:
                    self.remove(c)
                    continue
                h = self.hs.unpack(hb)
                n = h[8]
                payload = b""
                if n:
                    if n < 0 or n > 1024 ** 2:
                        self.unspecified.append("hostile length")
                        self.remove(c)
                        continue
                    payload = c.sock.recv(n, WAITALL)
                    if len(payload) != n:
                        self.remove(c)
                        continue
            except ConnectionError:
                self.remove(c)
                continue
            self.dispatch(c, h, payload)

    def dispatch(self, c: SConn, h: Tuple, payload: bytes):
        t = h[0]
        if t in (P.MT_CONNECT, P.MT_CONNECT_V2):
            if self.connect(c, h, payload):
                self.ack(c)
                self.client_info(c)
        elif t == P.MT_DISCONNECT:
            self.remove(c)
        elif t in (P.MT_SUBSCRIBE, P.MT_RESUME_SUBSCRIPTION):
            mt = P.P_SUB.unpack_from(payload.ljust(4, b"\0"))[0]
            if mt == P.ALL_MESSAGE_TYPES:
                c.subs = {mt}
            elif P.ALL_MESSAGE_TYPES not in c.subs:
                c.subs.add(mt)
            self.ack(c)
        elif t in (P.MT_UNSUBSCRIBE, P.MT_PAUSE_SUBSCRIPTION):
            mt = P.P_SUB.unpack_from(payload.ljust(4, b"\0"))[0]
            if mt == P.ALL_MESSAGE_TYPES:
                c.subs = set()
            elif P.ALL_MESSAGE_TYPES not in c.subs:
                c.subs.discard(mt)
            self.ack(c)
        elif t == P.MT_CLIENT_SET_NAME:
            c.name = P.cname(payload.ljust(32, b"\0")[:32])
            self.client_info(c)
        elif t == P.MT_MODULE_READY:
            c.pid = P.P_READY.unpack_from(payload.ljust(4, b"\0"))[0]
            self.client_info(c)
        else:
            self.forward(h, payload)

    def connect(self, c: SConn, h: Tuple, payload: bytes) -> bool:
        if c.connected:
            self.unspecified.append("connect on a connected module")
            return False
        if h[0] == P.MT_CONNECT_V2:
            lg, dm, am, mid, pid, name = P.P_CONNECT_V2.unpack_from(payload.ljust(44, b"\0"))
            c.mod_id, c.unique, c.pid, c.name = mid, am == 0, pid, P.cname(name)
        else:
            lg, dm = P.P_CONNECT.unpack_from(payload.ljust(4, b"\0"))
            c.mod_id = h[5]
        c.logger = lg == 1
        if c.mod_id != 0:
            if c.mod_id < 1 or c.mod_id > P.DYN_MOD_ID_START:
                self.refuse(c)
                return False
            if c.mod_id == P.DYN_MOD_ID_START:
                self.unspecified.append("explicit id at the shared boundary")
            for m, mid, mname, munique in self._others(c):
                if mid == c.mod_id and (munique or c.unique):
                    self.refuse(c)
                    return False
                if c.name and (munique or c.unique) and mname == c.name:
                    self.refuse(c)
                    return False
        else:
            used = {m.mod_id for m in self.conns} | {0}
            nmax = P.MAX_MODULES - P.DYN_MOD_ID_START
            for _ in range(nmax):
                cand = self.dyn + P.DYN_MOD_ID_START
                self.dyn = (self.dyn + 1) % nmax
                if cand not in used:
                    c.mod_id = cand
                    break
            else:
                self.unspecified.append("dynamic ids exhausted")
                self.refuse(c)
                return False
        c.connected = True
        if c.logger:
            c.in_loggers = True
        return True

    def refuse(self, c: SConn):
        self.refused.append(c.slot)
        self.remove(c)

    def loggers(self) -> List[SConn]:
        return sorted((m for m in self.conns if m.in_loggers and m.registered), key=lambda m: m.sock.hid)

    def ack(self, c: SConn):
        self.acks_due[c.slot] = self.acks_due.get(c.slot, 0) + 1
        h = self._hdr(P.MT_ACKNOWLEDGE, 0, dest_mod_id=c.mod_id)
        try:
            self._send(c, h, b"")
        except ConnectionError:
            self.remove(c)
            self.notice(c, h)
        for lg in self.loggers():
            if not lg.registered or not lg.in_loggers:
                continue
            try:
                self._send(lg, h, b"")
            except ConnectionError:
                self.remove(lg)
                self.notice(lg, h)

    def _client_payload(self, c: SConn) -> bytes:
        return P.P_CLIENT.pack(b"127.0.0.1", c.uid, c.pid, c.mod_id, int(c.logger), int(c.unique),
                               c.sock.peeraddr[1] & 0xFFFF, c.name.encode("latin-1")[:32])

    def client_info(self, c: SConn):
        p = self._client_payload(c)
        self.forward(self._hdr(P.MT_CLIENT_INFO, len(p)), p)

    def remove(self, c: SConn):
        if not c.registered:
            return
        c.subs = set()
        c.in_loggers = False
        c.sock.close()
        c.connected_at_removal = c.connected
        c.connected = False
        self.removed_log.append((c.slot, c.mod_id, c.name, int(c.logger), int(c.unique), c.pid))
        c.registered = False
        self.conns.remove(c)
        # departures are announced one after the other: a removal that happens while a CLIENT_CLOSED is being delivered (the
        # delivery uncovered another dead subscriber) is announced after that delivery, not inside it
        self._closed_pending.append(self._client_payload(c))
        if self._announcing:
            return
        self._announcing = True
        try:
            while self._closed_pending:
                p = self._closed_pending.pop(0)
                self.forward(self._hdr(P.MT_CLIENT_CLOSED, len(p)), p)
        finally:
            self._announcing = False

    def recipients(self, mt: int) -> List[SConn]:
        a = sorted((m for m in self.conns if mt in m.subs), key=lambda m: m.sock.hid)
        b = sorted((m for m in self.conns if P.ALL_MESSAGE_TYPES in m.subs and mt not in m.subs),
                   key=lambda m: m.sock.hid)
        return a + b

    def forward(self, h: Sequence, payload: bytes, optional: Optional[Tuple] = None):
        mt, dest_host, dest = h[0], h[6], h[7]
        if dest < 0 or dest > P.MAX_MODULES or dest_host < 0 or dest_host > P.MAX_HOSTS:
            return
        for r in self.recipients(mt):
            if not r.registered or (mt not in r.subs and P.ALL_MESSAGE_TYPES not in r.subs):
                continue  # removed by a nested step
            eligible = dest == 0 or r.mod_id == dest or r.logger
            if r.sock not in self.W or r.logger:
                if r.logger and r.sock in self.W:
                    how = self.wait_deaths.pop(r.slot, None)
                    if how:
                        cs = self.clients[r.slot].sock
                        cs.close() if how == "fin" else cs.reset()
                if eligible:
                    try:
                        self._send(r, h, payload)
                        if optional is not None and r.slot in self.clients:
                            self.clients[r.slot].optional.append(optional)
                    except ConnectionError:
                        self.remove(r)
                        self.notice(r, h)
            else:
                if not eligible:
                    # U-rule: a FAILED_MESSAGE naming a subscriber the message was not addressed to.
                    # The reference follows the implementation (so that later behaviour stays
                    # comparable) but marks the frames as optional for the comparison.
                    self.unspecified.append("notice for a non-writable subscriber outside the destination filter")
                    self.notice(r, h, optional=True)
                else:
                    self.notice(r, h)

    def notice(self, r: SConn, h: Sequence, optional: bool = False):
        if h[0] == P.MT_FAILED_MESSAGE or h[0] in P.LOG_TYPES:
            return
        hh = [h[0], 0, float(h[2]), float(h[3])] + list(h[4:12])
        p = P.P_FAILED_HEAD.pack(r.mod_id, 0, 0, 0, self.now) + P.HDR.pack(*hh)
        tup = ("failed", r.mod_id, h[0], h[5], h[7]) if optional else None
        self.forward(self._hdr(P.MT_FAILED_MESSAGE, len(p)), p, optional=tup)
