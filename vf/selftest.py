"""setup / self-test: tools present, seams ownable, NET conforms to the kernel, explorers deterministic."""
from __future__ import annotations

import json
import shutil
import sys

from . import core


def run() -> int:
    ok = True
    for tool in ("gcc", "node"):
        p = shutil.which(tool)
        print(f"tool {tool}: {p}")
        ok &= p is not None
    try:
        import black  # noqa: F401

        print("black: importable")
    except Exception as e:
        print("black missing:", e)
        ok = False
    from . import net

    net.audit_seams()
    print("seams: ok")
    r = net.conformance()
    print(f"NET conformance: {r['scenarios']} scenarios, {r['ops']} ops, {len(r['mismatches'])} mismatches")
    if r["mismatches"]:
        print(json.dumps(r["mismatches"], indent=1, default=str))
        ok = False
    # lock-step smoke: one handshake, one publish, compared with the reference
    from . import lock, proto as P

    ev = [["conn", "A"], ["send", "A", P.mkframe(P.MT_CONNECT, P.p_connect(), src_mod_id=11).hex()], ["settle"],
          ["send", "A", P.mkframe(P.MT_SUBSCRIBE, P.p_sub(1001), src_mod_id=11).hex()], ["settle"],
          ["send", "A", P.mkframe(1001, b"abcd", src_mod_id=11).hex()], ["settle"]]
    outs = []
    for _ in range(2):
        problems, env = lock.run_events(ev, hids={"A": 1})
        outs.append((json.dumps(problems, default=str), json.dumps(env.received, default=str)))
        env.close()
    print("lock-step smoke:", "ok" if outs[0] == outs[1] and outs[0][0] == "[]" else f"FAILED {outs}")
    ok &= outs[0] == outs[1] and outs[0][0] == "[]"
    return 0 if ok else 2
