"""python -m vf.compile_many <spec.json>: compile a list of definition programs in THIS process
(separate from the checker: its own PYTHONHASHSEED, working directory, source and output paths).
spec: {"cwd": dir, "cases": [{"id":..., "files": {...}, "root": "root.yaml", "src": dir, "out": dir, "name": str, "kw": {...}}]}"""
import json
import os
import sys


def main():
    spec = json.load(open(sys.argv[1]))
    os.makedirs(spec["cwd"], exist_ok=True)
    os.chdir(spec["cwd"])
    from vf import defx, valx

    res = {}
    for c in spec["cases"]:
        os.makedirs(c["src"], exist_ok=True)
        os.makedirs(c["out"], exist_ok=True)
        prog = defx.Program(c["files"], c.get("root", "root.yaml"))
        root = prog.write(c["src"])
        if spec.get("relative"):
            # the root file named by a relative path with a directory part, from the directory above the sources
            os.chdir(os.path.dirname(c["src"]))
            root = os.path.relpath(root)
            c = dict(c, out=os.path.relpath(c["out"]))  # ... and the output directory by a relative path as well
        try:
            valx.compile_file(root, c["name"], c["out"], black=c.get("black", True), python=True, javascript=True, matlab=True, c_lang=True,
                              info=True, combined=True, **c.get("kw", {}))
            res[str(c["id"])] = "ok"
        except Exception as e:
            res[str(c["id"])] = f"{type(e).__name__}: {str(e)[:200]}"
        finally:
            os.chdir(spec["cwd"])
    print(json.dumps(res))


if __name__ == "__main__":
    main()
