"""python -m vf.compile_many <spec.json>: compile a list of definition programs in THIS process
(separate from the checker: its own PYTHONHASHSEED, working directory, source and output paths).
spec: {"cwd": dir, "cases": [{"id":..., "files": {...}, "root": "root.yaml", "src": dir, "out": dir, "name": str, "kw": {...}}],
       "relative": bool   - root file and output directory are named by relative paths,
       "one_by_one": true - one compilation per requested output instead of one for all six; "groups" - two compilations
                            (C, MATLAB, combined / Python, JavaScript, info),
       "shared_out": dir  - every closure is compiled into this ONE directory (all sources are written first, so every
                            definition file is older than whatever an earlier compilation left there); the outputs are
                            copied to the case's own directory afterwards,
       "refused_before": true - (with "relative") every closure is compiled right after a compilation that was REFUSED (a duplicate id
                            in a file of another directory): what a refusal leaves behind in the process is not an input,
       "clock_shift_days": n - this process believes it runs n days (and an odd number of seconds) later: the wall clock is an
                            input like the working directory, the outputs must not depend on it}"""
import json
import os
import shutil
import sys


def _shift_clock(days: int):
    """before anything of the package is imported: time.time / localtime / gmtime / strftime / ctime and datetime's today() / now()"""
    import datetime as _dt
    import time as _t

    delta = days * 86400 + 3723
    real = {k: getattr(_t, k) for k in ("time", "time_ns", "localtime", "gmtime", "strftime", "ctime", "asctime")}
    _t.time = lambda: real["time"]() + delta
    _t.time_ns = lambda: real["time_ns"]() + delta * 10 ** 9
    _t.localtime = lambda secs=None: real["localtime"](_t.time() if secs is None else secs)
    _t.gmtime = lambda secs=None: real["gmtime"](_t.time() if secs is None else secs)
    _t.strftime = lambda fmt, t=None: real["strftime"](fmt, _t.localtime() if t is None else t)
    _t.ctime = lambda secs=None: real["ctime"](_t.time() if secs is None else secs)
    _t.asctime = lambda t=None: real["asctime"](_t.localtime() if t is None else t)

    class _Date(_dt.date):
        @classmethod
        def today(cls):
            return cls.fromtimestamp(_t.time())

    class _DateTime(_dt.datetime):
        @classmethod
        def now(cls, tz=None):
            return cls.fromtimestamp(_t.time(), tz)

        @classmethod
        def today(cls):
            return cls.fromtimestamp(_t.time())

        @classmethod
        def utcnow(cls):
            return cls.utcfromtimestamp(_t.time())

    _dt.date = _Date
    _dt.datetime = _DateTime


def main():
    spec = json.load(open(sys.argv[1]))
    if spec.get("clock_shift_days"):
        _shift_clock(int(spec["clock_shift_days"]))
    os.makedirs(spec["cwd"], exist_ok=True)
    os.chdir(spec["cwd"])
    from vf import defx, valx

    res = {}
    roots = {}
    for c in spec["cases"]:
        os.makedirs(c["src"], exist_ok=True)
        os.makedirs(c["out"], exist_ok=True)
        prog = defx.Program(c["files"], c.get("root", "root.yaml"))
        roots[str(c["id"])] = prog.write(c["src"])
    shared = spec.get("shared_out")
    if shared:
        os.makedirs(shared, exist_ok=True)
    for c in spec["cases"]:
        root = roots[str(c["id"])]
        own_out = c["out"]
        out = shared or own_out
        if spec.get("relative"):
            # the root file named by a relative path with a directory part, from the directory above the sources
            os.chdir(os.path.dirname(c["src"]))
            root = os.path.relpath(root)
            out = os.path.relpath(out)  # ... and the output directory by a relative path as well
        if spec.get("relative") and spec.get("refused_before"):
            bad = defx.Program({"root.yaml": {"imports": ["parts/more.yaml"], "message_defs": {"RB_A": {"id": 4900, "fields": {"a": "int32"}}}},
                                "parts/more.yaml": {"message_defs": {"RB_B": {"id": 4900, "fields": None}}}})
            broot = os.path.relpath(bad.write(os.path.join(os.path.dirname(c["src"]), "refused")))
            try:
                valx.compile_file(broot, "refused", os.path.join(os.path.dirname(broot), "out"), python=True, **c.get("kw", {}))
                res[str(c["id"])] = "the definition set with a duplicate id was accepted"
                continue
            except Exception:
                pass
        try:
            targets = ["python", "javascript", "matlab", "c_lang", "info", "combined"]
            if spec.get("one_by_one") == "groups":
                for grp in (["c_lang", "matlab", "combined"], ["python", "javascript", "info"]):
                    valx.compile_file(root, c["name"], out, black=c.get("black", True), **{t: True for t in grp}, **c.get("kw", {}))
            elif spec.get("one_by_one"):
                for t in targets:
                    valx.compile_file(root, c["name"], out, black=c.get("black", True), **{t: True}, **c.get("kw", {}))
            else:
                valx.compile_file(root, c["name"], out, black=c.get("black", True), **{t: True for t in targets}, **c.get("kw", {}))
            res[str(c["id"])] = "ok"
        except Exception as e:
            res[str(c["id"])] = f"{type(e).__name__}: {str(e)[:200]}"
        finally:
            os.chdir(spec["cwd"])
        if shared:
            for fn in os.listdir(shared):
                if fn.startswith(c["name"]):
                    shutil.copy2(os.path.join(shared, fn), os.path.join(own_out, fn))
    print(json.dumps(res))


if __name__ == "__main__":
    main()
