"""vf - model-checking machinery for pitt-rnel/pyrtma (see /verif/DESIGN.md)."""
