"""vf.hub - breadth-first exploration of the real manager in lock step with the reference hub.

A *state* is the event history that reaches it (live sockets and threads cannot be copied, so a
state is rebuilt by replaying its history on fresh worlds). States are de-duplicated by
(reference-hub state, digest of the manager's own tables). Every transition is executed on the
implementation and compared with the reference; in every new state the probe set is published.

Used by C01, C19 (and, with other alphabets, C06, C07, C14).
"""
from __future__ import annotations

import itertools
import os
import sys
from typing import Any, Callable, Dict, List, Optional, Sequence, Tuple

from . import core, lock, mmx, proto as P

T1, T2, T3 = 1001, 1002, 1003  # T3 is never subscribed to
ALL = P.ALL_MESSAGE_TYPES


# ---- operations: small event groups of one raw client -------------------------------------------

def ev_send(slot, data: bytes):
    return ["send", slot, data.hex()]


def frame(tc, mt, payload=b"", **kw):
    return P.mkframe(mt, payload, timecode=tc, **kw)


class Alphabet:
    """Protocol operations of raw clients with fixed identities. ids: slot -> (mod_id, logger)"""

    def __init__(self, tc: bool, ids: Dict[str, Tuple[int, int]]):
        self.tc = tc
        self.ids = ids

    def connect_v1(self, s):
        mid, lg = self.ids[s]
        return [["conn", s], ev_send(s, frame(self.tc, P.MT_CONNECT, P.p_connect(lg, 0), src_mod_id=mid))]

    def connect_v2(self, s, name=b"", allow_multiple=0):
        mid, lg = self.ids[s]
        return [["conn", s],
                ev_send(s, frame(self.tc, P.MT_CONNECT_V2,
                                 P.p_connect_v2(lg, 0, allow_multiple, mid, 4000 + mid, name), src_mod_id=mid)
                        + frame(self.tc, P.MT_CONNECT, P.p_connect(lg, 0), src_mod_id=mid))]

    def ctl(self, s, mt, arg):
        mid, _ = self.ids[s]
        return [ev_send(s, frame(self.tc, mt, P.p_sub(arg), src_mod_id=mid))]

    def disconnect(self, s):
        mid, _ = self.ids[s]
        return [ev_send(s, frame(self.tc, P.MT_DISCONNECT, src_mod_id=mid)), ["settle"], ["fin", s]]

    def close(self, s):
        return [["fin", s]]

    def reset(self, s):
        return [["rst", s]]

    def data(self, s, mt, payload=b"", dest_mod_id=0, dest_host_id=0, **kw):
        mid, _ = self.ids[s]
        kw.setdefault("src_mod_id", mid)
        return [ev_send(s, frame(self.tc, mt, payload, dest_mod_id=dest_mod_id, dest_host_id=dest_host_id, **kw))]


def probe_frames(tc: bool, mid: int, live_ids: Sequence[int], sizes=(0, 4), tag: int = 0) -> List[bytes]:
    """(see also _run_probes: the largest probe is additionally written as two TCP segments)"""
    """The probe set published by one client in one state (see DESIGN 3.2)."""
    out = []
    n = 0

    def mk(mt, dest=0, host=0, size=0, **kw):
        nonlocal n
        n += 1
        payload = bytes(((tag * 31 + n * 7 + i) & 0xFF) for i in range(size))
        fields = dict(src_mod_id=mid, dest_mod_id=dest, dest_host_id=host, send_time=1.0 + n, msg_count=n,
                      src_host_id=0, remaining_bytes=0, is_dynamic=0, reserved=0)
        fields.update(kw)
        if tc:
            fields.setdefault("utc_seconds", 77 + n)
            fields.setdefault("utc_fraction", 5)
        out.append(P.mkframe(mt, payload, timecode=tc, **fields))

    dests = [0] + list(live_ids) + [57, P.MAX_MODULES, P.MAX_MODULES + 1, -1]
    for mt in (T1, T2, T3):
        for d in dests:
            mk(mt, dest=d, size=sizes[(n + 1) % len(sizes)])
    for mt in (T1, T3):
        for h in (P.MAX_HOSTS, P.MAX_HOSTS + 1, -1):
            mk(mt, host=h)
    # ids without a definition, a core-defined non-control id, an id beyond the table
    for mt in (9999, 5, P.MT_EXIT, P.MT_FORCE_DISCONNECT, 123456, -7):
        mk(mt, size=sizes[-1] if mt != P.MT_EXIT else 0)
    # header fields that must arrive unchanged
    mk(T1, size=sizes[-1], src_host_id=3, remaining_bytes=9, is_dynamic=1, reserved=0xDEADBEEF, recv_time=2.5)
    mk(T2, size=0, src_mod_id=mid, reserved=1)
    # a relayed / replayed message: the published source id is not the id the connection registered with
    mk(T1, size=sizes[-1], src_mod_id=42)
    mk(T1, size=0, src_mod_id=0)
    mk(T2, size=sizes[-1], src_mod_id=-3, src_host_id=-1)
    return out


# ---- BFS --------------------------------------------------------------------------------------

class HubConfig:
    def __init__(self, name: str, tc: bool, ids: Dict[str, Tuple[int, int]], hids: Dict[str, int],
                 init: List[List], ops: Callable[["HubConfig", Any], List[Tuple[str, List[List]]]],
                 probes: bool = True, sizes=(0, 4), pairs: str = "none", nonwritable: int = 0,
                 max_states: int = 100000, fin_grace: int = 0, props: Sequence[str] = ()):
        self.name, self.tc, self.ids, self.hids, self.init, self.ops = name, tc, ids, hids, init, ops
        self.probes, self.sizes, self.pairs, self.nonwritable = probes, sizes, pairs, nonwritable
        self.max_states, self.fin_grace, self.props = max_states, fin_grace, tuple(props)
        self.alpha = Alphabet(tc, ids)
        self.nw_ops = False  # additionally run every single-send operation with the sender / each logger reported not writable
        self.post = None  # optional hook(cfg, info_before, label, env_after) -> list of problems


_CFG: Dict[str, HubConfig] = {}


def register(cfg: HubConfig):
    _CFG[cfg.name] = cfg


def get_cfg(builder) -> HubConfig:
    """builder = (module name, function name, kwargs-as-sorted-items); cached per process"""
    key = repr(builder)
    if key not in _CFG:
        import importlib

        mod, fn, kw = builder
        cfg = getattr(importlib.import_module(mod), fn)(**dict(kw))
        cfg.builder = builder
        _CFG[key] = cfg
    return _CFG[key]


def _build(cfg: HubConfig, hist: List[List]) -> lock.Env:
    env = lock.Env(timecode=cfg.tc, fin_grace=cfg.fin_grace, hids=cfg.hids)
    for ev in hist:
        env.apply(ev)
    return env


def _live(env: lock.Env) -> List[Tuple[str, int]]:
    """(slot, mod_id) of connected, still-present clients according to the reference"""
    return [(c.slot, c.mod_id) for c in env.s.conns if c.connected and not env.w.clients[c.slot].gone]


def _run_probes(cfg: HubConfig, env: lock.Env, stats: Dict[str, int], nonwritable_sets: bool):
    live = _live(env)
    ids = [m for _, m in live]
    any_sent = False
    for i, (slot, mid) in enumerate(live):
        frames = probe_frames(cfg.tc, mid, ids, cfg.sizes, tag=i)
        env.send(slot, b"".join(frames))
        # one more frame whose header+first payload bytes and remaining payload arrive as two TCP segments
        big = P.mkframe(T1, bytes((7 * k + i) & 0xFF for k in range(max(cfg.sizes) or 8)), timecode=cfg.tc, src_mod_id=mid)
        cut = P.hstruct(cfg.tc).size + 3
        env.apply(["send2", slot, big[:cut].hex(), big[cut:].hex()])
        stats["probes"] = stats.get("probes", 0) + len(frames) + 1
        any_sent = True
    if not any_sent:
        return
    nrec_before = sum(len(v) for v in env.received.values())
    env.settle()
    stats["probe_deliveries"] = stats.get("probe_deliveries", 0) + sum(len(v) for v in env.received.values()) - nrec_before


def _nonwritable_probes(cfg: HubConfig, env: lock.Env, hist: List[List], stats: Dict[str, int], out_problems: List):
    """For every publisher and type: every non-writable subset (bounded size) of the other slots."""
    live = _live(env)
    slots = [s for s, _ in live]
    if len(slots) < 2 or cfg.nonwritable <= 0:
        return
    for pslot, pmid in live:
        others = [s for s in env.w.clients if not env.w.clients[s].gone]
        subsets = []
        for k in range(1, min(cfg.nonwritable, len(others)) + 1):
            subsets.extend(itertools.combinations(others, k))
        for mt, dest in ((T1, 0), (T2, 0), (T1, pmid), (T1, next((m for s, m in live if s != pslot), 0))):
            for sub in subsets:
                e2 = _build(cfg, hist)
                try:
                    before = len(e2.problems)
                    e2.send(pslot, frame(cfg.tc, mt, b"nw!!", src_mod_id=pmid, dest_mod_id=dest))
                    e2.round(0, list(sub))
                    e2.settle()
                    stats["nonwritable_probes"] = stats.get("nonwritable_probes", 0) + 1
                    for p in e2.problems[before:]:
                        out_problems.append((p, e2.hist[:]))
                finally:
                    e2.close()


def _own(cfg: HubConfig, problems) -> bool:
    """problems that belong to the property being checked (others are counted, not verdicts,
    and do not stop the exploration: the reference state does not depend on them)"""
    return any((not cfg.props) or p["prop"] in cfg.props for p in problems)


def expand(args) -> Dict[str, Any]:
    """Worker: expand one frontier state. Returns children (history, key), problems, stats."""
    builder, hist, part, nparts = args
    cfg = get_cfg(builder)
    stats: Dict[str, int] = {}
    problems: List[Tuple[Dict, List]] = []
    children = []
    mmx.fresh_gc()
    # 1. the state itself: probes (self-loops)
    env = _build(cfg, hist)
    try:
        if _own(cfg, env.problems) or env.dead:
            # the history itself already violates the property (reported by the parent); do not expand
            return {"children": [], "problems": [], "stats": stats}
        info = {"live": _live(env), "present": [s for s, c in env.w.clients.items() if not c.gone],
                "spec": env.s, "idents": [(c.slot, c.mod_id, c.unique, c.name, c.connected) for c in env.s.conns],
                "dyn": env.s.dyn, "nhist": len(hist)}
        ops = cfg.ops(cfg, info)
        if cfg.probes and part == 0:
            before = len(env.problems)
            _run_probes(cfg, env, stats, False)
            for p in env.problems[before:]:
                problems.append((p, env.hist[:]))
            stats["states_probed"] = 1
    finally:
        env.close()
    if cfg.probes and cfg.nonwritable and part == (1 % nparts):
        _nonwritable_probes(cfg, env, hist, stats, problems)
    # 2. single operations (work is split into `nparts` slices by transition index)
    tix = 0
    for label, evs in ops:
        tix += 1
        if tix % nparts != part:
            continue
        e2 = _build(cfg, hist)
        try:
            for ev in evs:
                e2.apply(ev)
            e2.settle()
            stats["transitions"] = stats.get("transitions", 0) + 1
            if cfg.post is not None and not e2.dead:
                for p in cfg.post(cfg, info, label, e2):
                    e2.problems.append(p)
            for p in e2.problems:
                problems.append((p, e2.hist[:]))
            if not _own(cfg, e2.problems) and not e2.dead:
                children.append((hist + [list(ev) for ev in evs] + [["settle"]], e2.key(), label))
        finally:
            e2.close()
        if cfg.nw_ops and all(x[0] == "send" for x in evs):
            sender = evs[0][1]
            others = [s for s in info["present"] if s != sender][:3]
            for nwset in [[sender]] + [[o] for o in others] + [[sender] + others[:1]]:
                e3 = _build(cfg, hist)
                try:
                    for ev in evs:
                        e3.apply(ev)
                    e3.round(0, nwset)
                    e3.settle()
                    stats["nonwritable_op_transitions"] = stats.get("nonwritable_op_transitions", 0) + 1
                    for p in e3.problems:
                        problems.append((p, e3.hist[:]))
                finally:
                    e3.close()
    # 3. pairs of operations by two different clients made visible before the same round
    if cfg.pairs != "none":
        single = [(l, e) for l, e in ops if all(x[0] in ("send", "fin", "rst") for x in e)]
        for (l1, e1), (l2, e2s) in itertools.combinations(single, 2):
            if e1[0][1] == e2s[0][1]:
                continue
            if cfg.pairs == "publish" and not (l1.startswith("pub") or l2.startswith("pub")):
                continue
            for order in (0, 1):
                tix += 1
                if tix % nparts != part:
                    continue
                e2 = _build(cfg, hist)
                try:
                    for ev in e1 + e2s:
                        e2.apply(ev)
                    if order >= mmx.factorial(e2.nready()):
                        continue  # fewer ready sockets than operations (e.g. the manager had already dropped that connection)
                    e2.round(order, [])
                    e2.settle()
                    stats["pair_transitions"] = stats.get("pair_transitions", 0) + 1
                    for p in e2.problems:
                        problems.append((p, e2.hist[:]))
                    if not _own(cfg, e2.problems) and not e2.dead:
                        children.append((e2.hist[:], e2.key(), f"{l1}||{l2}/{order}"))
                finally:
                    e2.close()
    return {"children": children, "problems": problems, "stats": stats}


def bfs(builder, chk: core.Check, max_depth: int = 99) -> Dict[str, Any]:
    cfg = get_cfg(builder)
    seen = {}
    env = _build(cfg, cfg.init)
    try:
        for p in env.problems:
            _report(cfg, chk, p, env.hist)
        k0 = env.key()
    finally:
        env.close()
    seen[k0] = 0
    frontier = [list(cfg.init)]
    depth = 0
    totals: Dict[str, int] = {}
    labels = set()
    while frontier and depth < max_depth:
        nparts = max(1, min(16, 48 // max(1, len(frontier))))
        res = core.pmap(expand, [(builder, h, part, nparts) for h in core.shuffled(frontier, f"{cfg.name}{depth}") for part in range(nparts)])
        nxt = []
        for r in res:
            for k, v in r["stats"].items():
                totals[k] = totals.get(k, 0) + v
            for p, hist in r["problems"]:
                _report(cfg, chk, p, hist)
            for hist, key, label in r["children"]:
                labels.add(label.split("/")[0] if "||" not in label else "pair")
                if key not in seen:
                    if len(seen) >= cfg.max_states:
                        chk.capped(f"{cfg.name}: state cap {cfg.max_states} reached at depth {depth}")
                        continue
                    seen[key] = depth + 1
                    nxt.append(hist)
        frontier = nxt
        depth += 1
        if os.environ.get("VF_VERBOSE"):
            print(f"  [{cfg.name}] depth={depth} states={len(seen)} frontier={len(frontier)} {totals}", file=sys.stderr, flush=True)
    if frontier:
        chk.capped(f"{cfg.name}: depth cap {max_depth} reached with {len(frontier)} unexpanded states")
    totals["states"] = len(seen)
    totals["depth"] = depth
    return totals


def _report(cfg: HubConfig, chk: core.Check, p: Dict[str, Any], hist: List[List]):
    if cfg.props and p["prop"] not in cfg.props:
        chk.count(f"other_property_{p['prop']}_{p['kind']}")
        return
    fr = p.get("frame")
    fk = fr[0] if isinstance(fr, list) and fr else str(p.get("detail", ""))[:60]
    key = f"{p['prop']}:{p['kind']}:{fk}"
    what = f"{p['kind']} at slot {p.get('slot')} in round {p.get('round')}: {p.get('frame', p.get('detail', ''))}"
    chk.violation(key, what, {"engine": "lock", "config": cfg.name, "builder": getattr(cfg, "builder", None), "tc": cfg.tc, "fin_grace": cfg.fin_grace,
                              "hids": cfg.hids, "events": hist, "problem": p}, size=len(hist))
