"""vf.net - virtual TCP sockets, select and clock for pyrtma.manager / pyrtma.client.

The semantics below were measured on this sandbox's kernel and are re-checked against real
loopback sockets by `conformance()` (run by the C03 quick check and by setup).

Model of one direction-pair ("connection") as seen from endpoint E with peer P:
  * E.rx           bytes P wrote and E has not read yet
  * E.peer         'open' | 'fin' | 'rst'  (what P did to the connection)
  * E.err          one-shot ECONNRESET, set when P resets; consumed by the next recv (after the
                   queued data) or the next send, whichever comes first
  * E.broken       sends raise EPIPE from now on
  * E.grace        number of sends that still succeed after P's FIN (the first one provokes the
                   RST that breaks the connection; 1 on loopback, larger = "RST is slow")
  * E.closed       closed locally: every call raises OSError(EBADF) (not a ConnectionError),
                   select raises ValueError
"""
from __future__ import annotations

import errno
import socket as _rs
import select as _rsel
import struct
import threading
import time as _rt
import types
from typing import Any, Callable, Dict, List, Optional, Tuple

from .core import HarnessError


class WouldBlock(BaseException):
    """A client-side call would block forever (nothing more will ever arrive)."""


class ManagerStall(BaseException):
    """The manager thread called a blocking recv on an open connection with too little data."""


class VSock:
    _n = 0

    def __init__(self, net: "VNet", hid: Optional[int] = None):
        self.net = net
        VSock._n += 1
        self.serial = VSock._n
        self.fd = net.alloc_fd()  # like the OS: the lowest free descriptor number, re-used after close
        self.segs: List[int] = []  # sizes of the writes that filled rx (a read without MSG_WAITALL stops at a segment end)
        self.hid = hid if hid is not None else net.next_hid()
        self.rx = bytearray()
        self.peer_sock: Optional["VSock"] = None
        self.peer = "open"
        self.err = False
        self.broken = False
        self.grace = net.fin_grace
        self.closed = False
        self.listening = False
        self.pending: List["VSock"] = []
        self.addr: Tuple[str, int] = ("", 0)
        self.peeraddr: Tuple[str, int] = ("", 0)
        self.role = "?"  # 'mgr' (accepted by the manager), 'cli', 'listen'
        self.tag: Any = None
        self.sent_log: List[bytes] = []  # what this endpoint wrote, in order (kept for observers)
        self.keep_sent = False
        self.send_calls = 0
        self.fail_send_at: Optional[int] = None  # harness-injected write fault at the k-th send
        self.timeout = None  # settimeout(): None = blocking
        self.shut = False  # shutdown() was called on this end
        self.err_pipe = False  # a reset in answer to our own write has arrived and no send has reported it yet
        self.send_free: Optional[int] = None  # free space of the send buffer as a non-blocking send would find it (None = plenty)

    # identity -------------------------------------------------------------------------------
    def __hash__(self):
        return self.hid

    def __repr__(self):
        return f"<VSock {self.role}#{self.hid}{' closed' if self.closed else ''}>"

    def fileno(self):
        return -1 if self.closed else self.fd

    # setup ----------------------------------------------------------------------------------
    def bind(self, addr):
        self._chk()
        self.addr = (addr[0], addr[1])
        self.net.bound[addr[1]] = self

    def listen(self, n=0):
        self._chk()
        self.listening = True
        self.role = "listen"

    def setsockopt(self, *a):
        self._chk()

    def getsockname(self):
        return self.addr

    def settimeout(self, t):
        # None: blocking; 0: non-blocking; > 0: the descriptor is non-blocking underneath and every call waits at most t for readiness
        if t is not None and t < 0:
            raise ValueError("Timeout value out of range")
        self.timeout = t

    def gettimeout(self):
        return self.timeout

    def setblocking(self, flag):
        self.timeout = None if flag else 0.0

    def getblocking(self):
        return self.timeout is None

    def connect(self, addr):
        self._chk()
        lst = self.net.bound.get(addr[1])
        if lst is None or not lst.listening or lst.closed:
            raise ConnectionRefusedError(errno.ECONNREFUSED, "Connection refused")
        peer = VSock(self.net, hid=self.net.take_accept_hid())
        peer.role = "mgr"
        self.role = "cli"
        self.peer_sock, peer.peer_sock = peer, self
        self.addr = ("127.0.0.1", 40000 + self.serial)
        self.peeraddr = lst.addr
        peer.addr = lst.addr
        peer.peeraddr = self.addr
        lst.pending.append(peer)
        self.net.on_connect(self, peer)

    def accept(self):
        self._chk()
        if not self.pending:
            if self.net.on_mgr_thread():
                raise ManagerStall("accept with nothing pending")
            raise WouldBlock("accept")
        p = self.pending.pop(0)
        return p, p.peeraddr

    # state helpers ---------------------------------------------------------------------------
    def _chk(self):
        if self.closed:
            raise OSError(errno.EBADF, "Bad file descriptor")

    def readable(self) -> bool:
        if self.listening:
            return bool(self.pending)
        return bool(self.rx) or self.peer != "open" or self.err

    def _block(self, need: int):
        self.net.block(self, need)

    # I/O ------------------------------------------------------------------------------------
    def _take(self, k: int) -> bytes:
        out = bytes(self.rx[:k])
        del self.rx[:k]
        while k and self.segs:
            if self.segs[0] <= k:
                k -= self.segs.pop(0)
            else:
                self.segs[0] -= k
                k = 0
        return out

    def _recv(self, n: int, waitall: bool = True) -> bytes:
        self._chk()
        if n == 0:
            return b""
        if self.timeout is not None:
            # a socket with a timeout is non-blocking underneath: MSG_WAITALL cannot wait for the rest, the call returns what has
            # arrived once anything has (and reports a timeout / EAGAIN when nothing does)
            if not self.rx and self.peer == "open" and not self.err:
                if self.timeout > 0 and not self.net.on_mgr_thread() and self.net.cli_pump:
                    self.net.cli_pump()
                if not self.rx and self.peer == "open" and not self.err:
                    if self.timeout == 0:
                        raise BlockingIOError(errno.EAGAIN, "Resource temporarily unavailable")
                    raise _rs.timeout("timed out")
            waitall = False
        if not waitall and self.rx:
            # without MSG_WAITALL a read returns what has arrived: at most the first pending segment
            return self._take(min(n, self.segs[0] if self.segs else len(self.rx)))
        while len(self.rx) < (n if waitall else 1) and self.peer == "open" and not self.err:
            self._block(n)
        if self.rx:
            return self._take(min(n, len(self.rx)))
        if self.err:
            self.err = False
            self.broken = True
            raise ConnectionResetError(errno.ECONNRESET, "Connection reset by peer")
        return b""

    def recv(self, n, flags=0):
        if n < 0:
            raise ValueError("negative buffersize in recv")
        return self._recv(n, bool(flags & _rs.MSG_WAITALL))

    def recv_into(self, buf, n=0, flags=0):
        mv = memoryview(buf).cast("B")
        if n < 0:
            raise ValueError("negative buffersize in recv_into")
        if n == 0:
            n = len(mv)
        elif n > len(mv):
            raise ValueError("buffer too small for requested bytes")
        self._chk()
        data = self._recv(n, bool(flags & _rs.MSG_WAITALL))
        mv[: len(data)] = data
        return len(data)

    def sendall(self, data, flags=0):
        self._chk()
        if self.net.pre_send_observer is not None:
            self.net.pre_send_observer(self)
        b = bytes(data)
        self.send_calls += 1
        if self.fail_send_at is not None and self.send_calls >= self.fail_send_at and self.peer != "open":
            # injected: the kernel has already learnt that the peer is gone
            self.grace = 0
        if self.err:
            self.err = False
            self.broken = True
            raise ConnectionResetError(errno.ECONNRESET, "Connection reset by peer")
        if self.broken or self.shut:
            self.err_pipe = False
            raise BrokenPipeError(errno.EPIPE, "Broken pipe")
        if self.peer == "fin" or (self.peer_sock is not None and self.peer_sock.closed):
            if self.grace <= 0:
                self.broken = True
                self.err_pipe = False
                raise BrokenPipeError(errno.EPIPE, "Broken pipe")
            self.grace -= 1
            if self.grace <= 0:
                self.broken = True
                self.err_pipe = True  # the reset that answers this write is pending until the next send reports it (poll: POLLERR)
            self.net.on_send(self, b, delivered=False)
            return None
        if self.peer == "rst":
            self.broken = True
            raise BrokenPipeError(errno.EPIPE, "Broken pipe")
        p = self.peer_sock
        if p is None:
            raise OSError(errno.ENOTCONN, "Transport endpoint is not connected")
        if self.send_free is not None and (flags & _rs.MSG_DONTWAIT) and len(b) > self.send_free:
            # a congested connection and a non-blocking send (send(2)): what fits is written, then EAGAIN. A blocking send
            # simply waits for the reader, which is how the unchanged manager writes, so congestion changes nothing for it.
            part = b[:self.send_free]
            p.rx += part
            if part:
                p.segs.append(len(part))
            self.send_free = 0
            self.net.on_send(self, part, delivered=True)
            raise BlockingIOError(errno.EAGAIN, "Resource temporarily unavailable")
        p.rx += b
        if b:
            p.segs.append(len(b))
        if self.keep_sent:
            self.sent_log.append(b)
        self.net.on_send(self, b, delivered=True)
        return None

    def send(self, data, flags=0):
        self.sendall(data)
        return len(bytes(data))

    def close(self):
        if self.closed:
            return
        self.closed = True
        self.net.free_fd(self.fd)
        if self.listening:
            self.net.bound.pop(self.addr[1], None)
            return
        p = self.peer_sock
        if p is not None and p.peer == "open":
            if self.rx:  # unread data at close time -> the kernel answers with RST, not FIN
                p.peer = "rst"
                p.err = True
            else:
                p.peer = "fin"

    def reset(self):
        """abortive close (SO_LINGER 0)"""
        if self.closed:
            return
        self.closed = True
        self.net.free_fd(self.fd)
        p = self.peer_sock
        if p is not None and p.peer == "open":
            p.peer = "rst"
            p.err = True

    def shutdown(self, how):
        self._chk()
        # measured on loopback: once a reset has arrived (consumed by recv/send or not, sent spontaneously or in answer to our
        # write after the peer's close) shutdown() fails with ENOTCONN - a plain OSError, not a ConnectionError
        if self.peer == "rst" or self.err or self.broken:
            raise OSError(errno.ENOTCONN, "Transport endpoint is not connected")
        # our own direction is closed: later sends fail with EPIPE, the peer reads an end of stream
        self.shut = True
        p = self.peer_sock
        if p is not None and p.peer == "open":
            p.peer = "fin"

    def __enter__(self):
        return self

    def __exit__(self, *a):
        self.close()

    def __getattr__(self, name):
        # a socket method the model does not have must never look like a defect of the code under test
        if name.startswith("_"):
            raise AttributeError(name)
        raise HarnessError(f"socket API '{name}' is not modelled by the virtual network (vf.net.VSock)")


class VClock:
    """Virtual clock. perf_counter() and time() share one value; sleep() advances it."""

    def __init__(self, t0: float = 1000.0, step: float = 0.0):
        self.t = t0
        self.step = step

    def perf_counter(self):
        self.t += self.step
        return self.t

    def time(self):
        return self.t

    def monotonic(self):
        return self.t

    def sleep(self, s):
        if s > 0:
            self.t += s

    def advance(self, s):
        self.t += s

    # anything else the library might start to use must be noticed, not silently real
    def __getattr__(self, name):
        raise HarnessError(f"virtual clock has no '{name}' - the library uses an unowned time source")


class VNet:
    """One virtual network: listeners, the manager thread's baton, choice hooks."""

    def __init__(self, fin_grace: int = 1):
        self.bound: Dict[int, VSock] = {}
        self.fin_grace = fin_grace
        self._hid = 100
        self.accept_hids: List[int] = []
        self.fds: set = set()
        self.mgr_clock = VClock()
        self.cli_clock = VClock()
        self.mgr_thread: Optional[threading.Thread] = None
        # hooks the stepper fills in
        self.mgr_select: Optional[Callable] = None
        self.cli_pump: Optional[Callable[[], bool]] = None
        self.shuffle: Callable[[list], None] = lambda l: None
        self.send_observer: Optional[Callable] = None
        self.pre_send_observer: Optional[Callable] = None
        self.connect_observer: Optional[Callable] = None
        self.cli_nonwritable = False

    def alloc_fd(self) -> int:
        fd = 3
        while fd in self.fds:
            fd += 1
        self.fds.add(fd)
        return fd

    def free_fd(self, fd: int):
        self.fds.discard(fd)

    def next_hid(self):
        self._hid += 1
        return self._hid

    def take_accept_hid(self):
        if self.accept_hids:
            return self.accept_hids.pop(0)
        return self.next_hid()

    def on_mgr_thread(self) -> bool:
        return self.mgr_thread is not None and threading.current_thread() is self.mgr_thread

    def on_send(self, sock, data, delivered):
        if self.send_observer:
            self.send_observer(sock, data, delivered)

    def on_connect(self, cli, mgr_side):
        if self.connect_observer:
            self.connect_observer(cli, mgr_side)

    def block(self, sock: VSock, need: int):
        if self.on_mgr_thread():
            raise ManagerStall(f"manager blocked in recv on {sock!r}: has {len(sock.rx)} of {need} bytes, peer open")
        progressed = self.cli_pump() if self.cli_pump else False
        if not progressed and len(sock.rx) < need and sock.peer == "open" and not sock.err:
            raise WouldBlock(f"client recv of {need} bytes would block forever ({len(sock.rx)} available)")

    # select ---------------------------------------------------------------------------------
    def select(self, r, w, x, timeout=None):
        r, w = list(r), list(w)
        for s in r + w:
            if s.closed:
                raise ValueError("file descriptor cannot be a negative integer (-1)")
        if self.on_mgr_thread():
            if self.mgr_select is None:
                raise HarnessError("manager select without a stepper")
            return self.mgr_select(r, w, timeout)
        # client side
        if r:
            if not any(s.readable() for s in r):
                # a poll (timeout 0) does not wait: nothing more arrives while it looks
                if self.cli_pump and (timeout is None or timeout > 0):
                    while not any(s.readable() for s in r):
                        if not self.cli_pump():
                            break
            ready = [s for s in r if s.readable()]
            if not ready:
                if timeout is None:
                    raise WouldBlock("client select would block forever")
                self.cli_clock.advance(max(0.0, timeout))
            return ready, [], []
        if self.cli_nonwritable:
            if timeout is None:
                raise WouldBlock("client write-select would block forever")
            return [], [], []
        return [], w, []


# ---- the fake modules rebound into the library ------------------------------------------------
_CUR: Optional[VNet] = None


def current() -> VNet:
    if _CUR is None:
        raise HarnessError("no virtual network installed")
    return _CUR


def set_current(net: Optional[VNet]):
    global _CUR
    _CUR = net


def _mk_socket_module():
    ns = types.SimpleNamespace()
    for k in dir(_rs):
        if k.isupper():
            setattr(ns, k, getattr(_rs, k))
    ns.getprotobyname = _rs.getprotobyname
    ns.error = OSError
    ns.timeout = _rs.timeout
    ns.socket = lambda *a, **k: VSock(current())
    ns.__name__ = "vf.net.socket"
    return ns


class VPoll:
    """select.poll() over virtual sockets (client side only). Event bits as measured on loopback (conformance scenarios
    "poll ..."): data or end of stream -> POLLIN; the peer's FIN -> POLLRDHUP (if asked for); a reset -> POLLIN|POLLERR|POLLHUP
    (+POLLRDHUP if asked for); POLLOUT whenever asked for on an open connection."""

    def __init__(self, net: "VNet"):
        self.net = net
        self.reg: Dict[VSock, int] = {}

    def register(self, s, mask=_rsel.POLLIN | _rsel.POLLPRI | _rsel.POLLOUT):
        self.reg[s] = mask

    def modify(self, s, mask):
        if s not in self.reg:
            raise FileNotFoundError(errno.ENOENT, "No such file or directory")
        self.reg[s] = mask

    def unregister(self, s):
        if s not in self.reg:
            raise KeyError(s)
        del self.reg[s]

    def _events(self, s: VSock, mask: int) -> int:
        if s.closed:
            return _rsel.POLLNVAL
        ev = 0
        reset = s.peer == "rst" or s.err or s.broken
        if (s.rx or s.peer != "open" or s.err) and mask & _rsel.POLLIN:
            ev |= _rsel.POLLIN
        if s.peer != "open" and mask & _rsel.POLLRDHUP:
            ev |= _rsel.POLLRDHUP
        if reset:
            ev |= _rsel.POLLHUP
            if s.err or s.err_pipe:  # the pending error is reported until a recv / send has consumed it
                ev |= _rsel.POLLERR
        if mask & _rsel.POLLOUT and not self.net.cli_nonwritable:
            ev |= _rsel.POLLOUT
        return ev

    def poll(self, timeout=None):
        if self.net.on_mgr_thread():
            raise HarnessError("select.poll() on the manager thread is not modelled")

        def ready():
            return [(s, e) for s, e in ((s, self._events(s, m)) for s, m in self.reg.items()) if e]

        out = ready()
        waits = timeout is None or timeout > 0
        if not out and waits and self.net.cli_pump:
            while not out:
                if not self.net.cli_pump():
                    break
                out = ready()
        if not out:
            if timeout is None:
                raise WouldBlock("client poll would block forever")
            self.net.cli_clock.advance(max(0.0, timeout / 1000.0))
        return out


class _SelectModule:
    __name__ = "vf.net.select"
    error = OSError
    POLLIN, POLLPRI, POLLOUT, POLLERR, POLLHUP, POLLNVAL, POLLRDHUP = (_rsel.POLLIN, _rsel.POLLPRI, _rsel.POLLOUT, _rsel.POLLERR, _rsel.POLLHUP,
                                                                      _rsel.POLLNVAL, _rsel.POLLRDHUP)

    @staticmethod
    def select(r, w, x, timeout=None):
        return current().select(r, w, x, timeout)

    @staticmethod
    def poll():
        return VPoll(current())

    def __getattr__(self, name):
        raise HarnessError(f"library uses select.{name}, which the virtual network does not model")


class _ClockProxy:
    def __init__(self, which):
        self._which = which

    def __getattr__(self, name):
        return getattr(getattr(current(), self._which), name)


class _RandomModule:
    __name__ = "vf.net.random"

    @staticmethod
    def shuffle(lst):
        current().shuffle(lst)

    def __getattr__(self, name):
        raise HarnessError(f"library uses random.{name}, which the harness does not own")


FAKE_SOCKET = _mk_socket_module()
FAKE_SELECT = _SelectModule()
FAKE_RANDOM = _RandomModule()
MGR_TIME = _ClockProxy("mgr_clock")
CLI_TIME = _ClockProxy("cli_clock")

_installed = False


def _silent_print(*a, **k):
    pass


def audit_seams():
    """Every route from the library to socket/select/time/random must go through a name we rebind."""
    import pyrtma.manager as M
    import pyrtma.client as C
    import random as _rr

    real = {_rs: "socket", _rsel: "select", _rt: "time", _rr: "random"}
    realfuncs = {}
    for mod, nm in real.items():
        for k in dir(mod):
            if k.startswith("_"):
                continue
            v = getattr(mod, k, None)
            owner = getattr(v, "__module__", None) or getattr(getattr(v, "__self__", None), "__class__", type(None)).__module__
            if owner not in ("socket", "_socket", "select", "time", "random", "_random"):
                continue
            if callable(v) and not isinstance(v, type) or k in ("socket",):
                try:
                    realfuncs[id(v)] = f"{nm}.{k}"
                except Exception:
                    pass
    expect = {M: {"socket", "select", "time", "random"}, C: {"socket", "select", "time"}}
    for lib, names in expect.items():
        for k, v in vars(lib).items():
            if isinstance(v, types.ModuleType):
                if v in real and k not in names:
                    raise HarnessError(f"{lib.__name__}.{k} is the real module {real[v]} under an unexpected name")
                continue
            if id(v) in realfuncs and not isinstance(v, type):
                nm = realfuncs[id(v)]
                if nm.split(".")[0] in ("socket", "select", "time", "random"):
                    raise HarnessError(f"{lib.__name__}.{k} is a direct reference to {nm}, bypassing the seam")
        for nm in names:
            if nm not in vars(lib):
                raise HarnessError(f"{lib.__name__} no longer has a module-level name '{nm}' to rebind")


def install():
    """Rebind the module-level names of pyrtma.manager / pyrtma.client (no edit to /repo)."""
    global _installed
    import pyrtma.manager as M
    import pyrtma.client as C

    if _installed:
        return
    audit_seams()
    M.socket = FAKE_SOCKET
    M.select = FAKE_SELECT
    M.time = MGR_TIME
    M.random = FAKE_RANDOM
    M.print = _silent_print
    C.socket = FAKE_SOCKET
    C.select = FAKE_SELECT
    C.time = CLI_TIME
    C.print = _silent_print
    _installed = True


# ---- conformance of VSock against real loopback TCP ---------------------------------------------

def _real_pair():
    l = _rs.socket()
    l.setsockopt(_rs.SOL_SOCKET, _rs.SO_REUSEADDR, 1)
    l.bind(("127.0.0.1", 0))
    l.listen(5)
    a = _rs.socket()
    a.connect(l.getsockname())
    b, _ = l.accept()
    l.close()
    for s in (a, b):
        s.setsockopt(_rs.IPPROTO_TCP, _rs.TCP_NODELAY, 1)
    return a, b


def _virt_pair():
    net = VNet()
    l = VSock(net)
    l.bind(("127.0.0.1", 7))
    l.listen()
    a = VSock(net)
    a.connect(("127.0.0.1", 7))
    b, _ = l.accept()
    return a, b


def _do(s, op, arg, real):
    try:
        if op == "send":
            s.sendall(arg)
            return "ok"
        if op == "recv":
            return len(s.recv(arg, _rs.MSG_WAITALL))
        if op == "recvnw":
            return len(s.recv(arg))
        if op == "recvinto":
            buf = bytearray(arg[0])
            return s.recv_into(buf, arg[1], _rs.MSG_WAITALL)
        if op == "sel":
            try:
                if real:
                    r, w, _ = _rsel.select([s], [s], [], 0)
                    return [bool(r), bool(w)]
                if s.closed:
                    raise ValueError("closed")
                return [s.readable(), True]
            except ValueError:
                return "ValueError"
        if op == "poll":
            p = _rsel.poll() if real else VPoll(s.net)
            p.register(s, _rsel.POLLIN | _rsel.POLLRDHUP)
            ev = p.poll(0)
            return sorted(n for n in ("POLLIN", "POLLRDHUP", "POLLERR", "POLLHUP", "POLLNVAL", "POLLOUT") if ev and ev[0][1] & getattr(_rsel, n))
        if op == "dontwait_full":
            # a non-blocking sendall into a send buffer that cannot take the whole message: a part is written, then EAGAIN
            if real:
                s.setsockopt(_rs.SOL_SOCKET, _rs.SO_SNDBUF, 4096)
                s.sendall(b"x" * 8_000_000, _rs.MSG_DONTWAIT)
            else:
                s.send_free = 100
                s.sendall(b"x" * 1000, _rs.MSG_DONTWAIT)
            return "ok"
        if op == "settimeout":
            s.settimeout(arg)
            return "ok"
        if op == "shutdown":
            s.shutdown(_rs.SHUT_RDWR)
            return "ok"
        if op == "close":
            s.close()
            return "ok"
        if op == "rst":
            if real:
                s.setsockopt(_rs.SOL_SOCKET, _rs.SO_LINGER, struct.pack("ii", 1, 0))
                s.close()
            else:
                s.reset()
            return "ok"
    except OSError as e:
        return [type(e).__name__, isinstance(e, ConnectionError)]
    except ValueError:
        return ["ValueError", False]
    raise HarnessError(f"unknown op {op}")


SCENARIOS = {
    "data+fin": [("A", "send", b"abc"), ("A", "close"), ("B", "sel"), ("B", "recv", 5), ("B", "recv", 5), ("B", "sel"), ("B", "recv", 5)],
    "data+rst": [("A", "send", b"abc"), ("A", "rst"), ("B", "sel"), ("B", "recv", 5), ("B", "recv", 5), ("B", "recv", 5), ("B", "sel"), ("B", "recv", 5)],
    "rst only": [("A", "rst"), ("B", "sel"), ("B", "recv", 5), ("B", "recv", 5), ("B", "sel")],
    "fin only": [("A", "close"), ("B", "sel"), ("B", "recv", 5), ("B", "recv", 5)],
    "full then fin": [("A", "send", b"abcde"), ("A", "close"), ("B", "recv", 5), ("B", "recv", 5)],
    "fin, send x3": [("A", "close"), ("B", "sel"), ("B", "send", b"x"), ("B", "send", b"y"), ("B", "send", b"z"), ("B", "sel"), ("B", "recv", 5), ("B", "recv", 5)],
    "fin, send, recv": [("A", "close"), ("B", "send", b"x"), ("B", "recv", 5), ("B", "recv", 5), ("B", "send", b"y")],
    "fin, send empty": [("A", "close"), ("B", "send", b"x"), ("B", "send", b""), ("B", "send", b"y")],
    "rst, send x3": [("A", "rst"), ("B", "send", b"x"), ("B", "send", b"y"), ("B", "send", b"z"), ("B", "recv", 5)],
    "rst, send empty": [("A", "rst"), ("B", "send", b""), ("B", "send", b"x"), ("B", "send", b"")],
    "rst, recv, send": [("A", "rst"), ("B", "recv", 4), ("B", "send", b"x"), ("B", "send", b"y")],
    "unread+close=rst": [("B", "send", b"hello"), ("A", "close"), ("B", "sel"), ("B", "recv", 5), ("B", "recv", 5), ("B", "send", b"x")],
    "unread+close, send": [("B", "send", b"hello"), ("A", "close"), ("B", "send", b"x"), ("B", "send", b"y"), ("B", "recv", 5)],
    "local close": [("B", "close"), ("B", "send", b"x"), ("B", "recv", 1), ("B", "sel"), ("B", "recvinto", (4, 2))],
    "recvinto args": [("A", "send", b"abcdef"), ("B", "recvinto", (4, -1)), ("B", "recvinto", (4, 8)), ("B", "recvinto", (4, 0)), ("B", "recvinto", (4, 2))],
    "recv 0": [("A", "send", b"abc"), ("B", "recv", 0), ("B", "recv", 3)],
    "recv neg": [("A", "send", b"abc"), ("B", "recv", -1), ("B", "recv", 3)],
    "data, fin, send, drain": [("A", "send", b"abc"), ("A", "close"), ("B", "send", b"x"), ("B", "recv", 3), ("B", "recv", 3), ("B", "send", b"y")],
    "partial+fin x2": [("A", "send", b"ab"), ("A", "close"), ("B", "recv", 1), ("B", "recv", 4), ("B", "recv", 4)],
    "partial+rst x2": [("A", "send", b"ab"), ("A", "rst"), ("B", "recv", 1), ("B", "recv", 4), ("B", "recv", 4), ("B", "recv", 4)],
    "no waitall": [("A", "send", b"abc"), ("B", "recvnw", 5), ("A", "send", b"de"), ("A", "close"), ("B", "recvnw", 5), ("B", "recvnw", 5)],
    "idle": [("B", "sel"), ("A", "send", b"a"), ("B", "sel"), ("B", "recv", 1), ("B", "sel")],
    "both close": [("A", "close"), ("B", "close"), ("B", "send", b"x")],
    "open, shutdown": [("B", "shutdown"), ("B", "send", b"x")],
    "poll idle / data / fin": [("B", "poll"), ("A", "send", b"abc"), ("B", "poll"), ("A", "close"), ("B", "poll"), ("B", "recv", 3), ("B", "poll"), ("B", "recv", 3), ("B", "poll")],
    "poll fin only": [("A", "close"), ("B", "poll"), ("B", "recv", 1), ("B", "poll")],
    "poll rst": [("A", "rst"), ("B", "poll"), ("B", "recv", 1), ("B", "poll")],
    "poll data then rst": [("A", "send", b"ab"), ("A", "rst"), ("B", "poll"), ("B", "recv", 2), ("B", "poll")],
    "poll after our send into a closed peer": [("A", "close"), ("B", "send", b"x"), ("B", "poll"), ("B", "send", b"y"), ("B", "poll")],
    "dontwait on a full buffer": [("B", "dontwait_full"), ("A", "recv", 1), ("A", "recv", 50)],
    "fin, shutdown": [("A", "close"), ("B", "shutdown")],
    "rst, shutdown": [("A", "rst"), ("B", "shutdown")],
    "rst, recv, shutdown": [("A", "rst"), ("B", "recv", 4), ("B", "shutdown")],
    "rst, send, shutdown": [("A", "rst"), ("B", "send", b"x"), ("B", "shutdown")],
    "fin, send, shutdown": [("A", "close"), ("B", "send", b"x"), ("B", "shutdown")],
    "fin, send x2, shutdown": [("A", "close"), ("B", "send", b"x"), ("B", "send", b"y"), ("B", "shutdown")],
    "local close, shutdown": [("B", "close"), ("B", "shutdown")],
    "timeout socket: waitall returns what has arrived": [("B", "settimeout", 0.2), ("A", "send", b"abc"), ("B", "recv", 5), ("A", "send", b"de"), ("B", "recv", 5), ("A", "close"), ("B", "recv", 5)],
    "timeout socket: nothing arrives": [("B", "settimeout", 0.02), ("B", "recv", 5), ("A", "send", b"a"), ("B", "recv", 5)],
    "non-blocking socket": [("B", "settimeout", 0.0), ("B", "recv", 5), ("A", "send", b"abc"), ("B", "recv", 5), ("A", "rst"), ("B", "recv", 5)],
    "timeout taken off again": [("B", "settimeout", 0.2), ("B", "settimeout", None), ("A", "send", b"abc"), ("A", "close"), ("B", "recv", 5), ("B", "recv", 5)],
    "data both ways then fin": [("A", "send", b"ab"), ("B", "send", b"cd"), ("A", "recv", 2), ("A", "close"), ("B", "recv", 2), ("B", "recv", 2), ("B", "send", b"e"), ("B", "send", b"f")],
}


def conformance(delay: float = 0.004) -> Dict[str, Any]:
    """Run every scenario on real loopback sockets and on VSocks; they must agree."""
    mismatches = []
    nops = 0
    for name, ops in SCENARIOS.items():
        outs = []
        for real in (True, False):
            a, b = _real_pair() if real else _virt_pair()
            S = {"A": a, "B": b}
            out = []
            for who, op, *arg in ops:
                out.append(_do(S[who], op, arg[0] if arg else None, real))
                if real:
                    _rt.sleep(delay)
            for s in (a, b):
                try:
                    s.close()
                except Exception:
                    pass
            outs.append(out)
            nops += len(ops)
        if outs[0] != outs[1]:
            mismatches.append({"scenario": name, "real": outs[0], "virtual": outs[1]})
    return {"scenarios": len(SCENARIOS), "ops": nops, "mismatches": mismatches}
