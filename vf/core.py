"""vf.core - shared plumbing for every check: evidence, violations, known findings, pools.

Nothing here knows about pyrtma; the engines (net, mmx, clx, thx, defx, valx) sit on top.
"""
from __future__ import annotations

import hashlib
import json
import multiprocessing as mp
import os
import random
import shutil
import sys
import tempfile
import time
import traceback
from typing import Any, Callable, Dict, Iterable, List, Optional

VERIF = os.path.dirname(os.path.dirname(os.path.abspath(__file__)))
REPO = os.environ.get("VF_REPO", "/repo")
EVIDENCE_DIR = os.path.join(VERIF, "evidence")
REPLAY_DIR = os.path.join(VERIF, "replays")
KNOWN_FILE = os.path.join(VERIF, "known_findings.json")
NPROC = int(os.environ.get("VF_NPROC", str(min(16, os.cpu_count() or 1))))


class HarnessError(BaseException):
    """Raised when the harness itself cannot proceed (never a property verdict)."""


def seed() -> int:
    try:
        return int(os.environ.get("VERIF_SEED", "0"))
    except ValueError:
        return 0


def tier_from_env(default: str = "quick") -> str:
    t = os.environ.get("VERIF_TIER", default)
    return t if t in ("quick", "thorough") else default


def shuffled(items: Iterable[Any], salt: str = "") -> List[Any]:
    """Visit order of a finite space depends on VERIF_SEED; the set visited never does."""
    lst = list(items)
    random.Random(f"{seed()}:{salt}").shuffle(lst)
    return lst


def assert_repo_is_live():
    """pyrtma is an editable install: the code under test must be /repo/src right now."""
    import pyrtma

    want = os.path.realpath(os.path.join(REPO, "src", "pyrtma"))
    got = os.path.realpath(os.path.dirname(pyrtma.__file__))
    if want != got:
        raise HarnessError(f"pyrtma imported from {got}, expected {want}")


def scratch_dir(prefix: str = "vf") -> str:
    base = "/dev/shm" if os.path.isdir("/dev/shm") and os.access("/dev/shm", os.W_OK) else tempfile.gettempdir()
    return tempfile.mkdtemp(prefix=f"{prefix}_", dir=base)


def rmtree(path: str):
    shutil.rmtree(path, ignore_errors=True)


def fingerprint(*parts: Any) -> str:
    return hashlib.sha1(json.dumps(parts, sort_keys=True, default=str).encode()).hexdigest()[:12]


def jsonable(o: Any) -> Any:
    if isinstance(o, (str, int, float, bool)) or o is None:
        return o
    if isinstance(o, bytes):
        return {"hex": o.hex()} if len(o) <= 64 else {"hex_prefix": o[:32].hex(), "len": len(o)}
    if isinstance(o, dict):
        return {str(k): jsonable(v) for k, v in o.items()}
    if isinstance(o, (list, tuple)):
        return [jsonable(x) for x in o]
    if isinstance(o, (set, frozenset)):
        return sorted((jsonable(x) for x in o), key=lambda x: json.dumps(x, sort_keys=True, default=str))
    return repr(o)


class Known:
    """known_findings.json: committed, never written at run time."""

    def __init__(self):
        self.entries: List[Dict[str, Any]] = []
        if os.path.exists(KNOWN_FILE):
            with open(KNOWN_FILE) as f:
                self.entries = json.load(f).get("findings", [])

    def match(self, prop: str, key: str) -> Optional[Dict[str, Any]]:
        for e in self.entries:
            if e.get("property") == prop and e.get("status") == "open" and e.get("key") == key:
                return e
        return None


class Check:
    """One run of one property's check. Collects coverage and violations, writes evidence."""

    def __init__(self, prop: str, tier: str, level: str, rule: str):
        self.prop = prop
        self.tier = tier
        self.level = level
        self.rule = rule
        self.t0 = time.time()
        self.cov: Dict[str, Any] = {}
        self.samples: List[Any] = []
        self.assumptions: List[str] = []
        self.violations: List[Dict[str, Any]] = []
        self.known_hits: Dict[str, Dict[str, Any]] = {}
        self.known = Known()
        self.counters: Dict[str, int] = {}
        self.notes: List[str] = []
        self.exhaustive = True

    # ---- coverage bookkeeping -------------------------------------------------------------
    def count(self, key: str, n: int = 1):
        self.counters[key] = self.counters.get(key, 0) + n

    def merge_counts(self, d: Dict[str, int]):
        for k, v in d.items():
            self.count(k, v)

    def sample(self, s: Any, limit: int = 6):
        if len(self.samples) < limit:
            self.samples.append(jsonable(s))

    def capped(self, why: str):
        self.exhaustive = False
        self.notes.append("CAP: " + why)

    def note(self, s: str):
        self.notes.append(s)

    # ---- violations -----------------------------------------------------------------------
    def violation(self, key: str, what: str, replay: Dict[str, Any], size: Optional[int] = None):
        """key: stable identity of the failing case class (used for known findings and
        de-duplication); replay: JSON-able object `vcheck replay` can re-execute; of several
        cases with the same key the one with the smallest `size` is kept as the replay."""
        k = self.known.match(self.prop, key)
        if k is not None:
            if key not in self.known_hits:
                self.known_hits[key] = {"what": k.get("what", what), "count": 0}
            self.known_hits[key]["count"] += 1
            return
        if size is None:
            size = len(json.dumps(jsonable(replay), default=str))
        for v in self.violations:
            if v["key"] == key:
                v["count"] += 1
                if size < v["size"]:
                    v.update(what=what, replay=replay, size=size)
                return
        self.violations.append({"key": key, "what": what, "replay": replay, "count": 1, "size": size})

    def merge_violations(self, vs: List[Dict[str, Any]]):
        for v in vs:
            self.violation(v["key"], v["what"], v["replay"], v.get("size"))
            extra = v.get("count", 1) - 1
            if extra:
                if v["key"] in self.known_hits:
                    self.known_hits[v["key"]]["count"] += extra
                for x in self.violations:
                    if x["key"] == v["key"]:
                        x["count"] += extra

    # ---- finish ---------------------------------------------------------------------------
    def finish(self, coverage: Dict[str, Any]) -> int:
        wall = time.time() - self.t0
        cov = dict(coverage)
        cov.setdefault("rule", self.rule)
        cov.setdefault("samples", self.samples or ["(no sample recorded)"])
        cov["exhaustive"] = bool(self.exhaustive and cov.get("exhaustive", True))
        cov["counters"] = dict(sorted(self.counters.items()))
        if self.notes:
            cov["notes"] = self.notes
        cov["known_findings_hit"] = {k: v["count"] for k, v in self.known_hits.items()}
        os.makedirs(EVIDENCE_DIR, exist_ok=True)
        os.makedirs(REPLAY_DIR, exist_ok=True)
        printed = []
        for v in self.violations:
            path = os.path.join(REPLAY_DIR, f"{self.prop}_{fingerprint(v['key'])}.json")
            obj = {"property": self.prop, "key": v["key"], "what": v["what"], "case": jsonable(v["replay"])}
            with open(path, "w") as f:
                json.dump(obj, f, indent=1, sort_keys=True)
            # a plain unit test that replays the case without the explorer (pytest replays/test_replay_*.py)
            tpath = os.path.join(REPLAY_DIR, f"test_replay_{self.prop}_{fingerprint(v['key'])}.py")
            with open(tpath, "w") as f:
                f.write('"""replays one recorded violation of %s: passes when the property holds for this case"""\n'
                        "import subprocess\n\n\n"
                        "def test_replay():\n"
                        "    r = subprocess.run([%r, 'replay', %r], capture_output=True, text=True)\n"
                        "    assert r.returncode == 0, r.stdout[-3000:]\n" % (self.prop, os.path.join(VERIF, "vcheck"), path))
            printed.append((v, path))
        ev = {
            "property_id": self.prop,
            "tier": self.tier,
            "seed": seed(),
            "level": self.level,
            "coverage": cov,
            "assumptions": self.assumptions,
            "wall_s": round(wall, 3),
            "violations": len(self.violations),
        }
        tmp = os.path.join(EVIDENCE_DIR, f".{self.prop}.json.tmp")
        with open(tmp, "w") as f:
            json.dump(ev, f, indent=1, sort_keys=True)
        os.replace(tmp, os.path.join(EVIDENCE_DIR, f"{self.prop}.json"))
        for key, k in self.known_hits.items():
            print(f"KNOWN-FINDING: property={self.prop} {k['what']} [{key}] (x{k['count']})")
        for v, path in printed:
            print(f"VIOLATION property={self.prop} replay={path}")
            print(f"  what: {v['what']}  (x{v['count']}, key={v['key']})")
        brief = {k: v for k, v in cov.items() if isinstance(v, (int, float, bool)) and not isinstance(v, dict)}
        print(f"[{self.prop}] tier={self.tier} seed={seed()} wall={wall:.1f}s violations={len(self.violations)} "
              f"known={len(self.known_hits)} coverage={json.dumps(brief)}")
        sys.stdout.flush()
        return 1 if self.violations else 0


# ---- process pool ---------------------------------------------------------------------------
_POOL = None


def _worker_init(initfn, initargs):
    os.environ.setdefault("PYTHONHASHSEED", "0")
    import gc

    gc.disable()
    gc.freeze()  # objects inherited from the parent (case lists ...) are never traversed again
    if initfn is not None:
        initfn(*initargs)


def pool(initfn: Optional[Callable] = None, initargs: tuple = (), procs: Optional[int] = None):
    """Process pool created with fork *before* any helper thread exists in this process."""
    global _POOL
    if _POOL is None:
        import threading

        if threading.active_count() > 1:
            raise HarnessError("pool must be created before helper threads exist")
        ctx = mp.get_context("fork")
        _POOL = ctx.Pool(procs or NPROC, initializer=_worker_init, initargs=(initfn, initargs))
    return _POOL


def close_pool():
    global _POOL
    if _POOL is not None:
        _POOL.close()
        _POOL.join()
        _POOL = None


def _call_guarded(args):
    fn, item = args
    try:
        return ("ok", fn(item))
    except HarnessError as e:
        return ("harness", f"{e}\n{traceback.format_exc()}")
    except BaseException as e:  # a bug in a check must never look like a pass - and never kill a pool worker (the pool would wait forever)
        return ("harness", f"{type(e).__name__}: {e}\n{traceback.format_exc()}")


def pmap(fn: Callable, items: List[Any], chunksize: int = 1, procs: Optional[int] = None) -> List[Any]:
    """Ordered parallel map; any worker exception is a harness error (exit 2)."""
    if NPROC <= 1 or len(items) <= 1:
        out = [_call_guarded((fn, it)) for it in items]
    else:
        out = pool(procs=procs).map(_call_guarded, [(fn, it) for it in items], chunksize)
    res = []
    for tag, val in out:
        if tag != "ok":
            raise HarnessError(val)
        res.append(val)
    return res


def chunks(lst: List[Any], n: int) -> List[List[Any]]:
    n = max(1, n)
    k = (len(lst) + n - 1) // n if lst else 0
    return [lst[i * n:(i + 1) * n] for i in range(k)]
