"""vf.mmx - the real MessageManager, stepped round by round on a virtual network.

`World` owns one manager instance whose unmodified run() loop executes on a helper thread that
only ever runs while the explorer waits on a baton. One *round* = one iteration of run().
"""
from __future__ import annotations

import gc
import itertools
import logging
import threading
import traceback
from typing import Any, Dict, List, Optional, Sequence, Tuple

from . import net as N
from . import proto as P
from .core import HarnessError

SILENT = logging.CRITICAL + 10
PORT = 7111
SERVER = f"127.0.0.1:{PORT}"


def nth_permutation(items: list, k: int) -> list:
    """k-th permutation (lexicographic over positions) of items; k=0 is the identity."""
    items = list(items)
    n = len(items)
    out = []
    f = 1
    for i in range(2, n):
        f *= i
    # f = (n-1)!
    for i in range(n - 1, 0, -1):
        q, k = divmod(k, f)
        out.append(items.pop(q))
        f //= i
    out.extend(items)
    return out


def factorial(n: int) -> int:
    f = 1
    for i in range(2, n + 1):
        f *= i
    return f


class _Baton:
    """binary hand-off built on a raw lock (much cheaper than threading.Semaphore)"""
    __slots__ = ("l",)

    def __init__(self):
        import _thread

        self.l = _thread.allocate_lock()
        self.l.acquire()

    def release(self):
        self.l.release()

    def acquire(self):
        self.l.acquire()


class Round:
    """What the harness saw during one manager round."""
    __slots__ = ("ready", "order", "nready", "write_selects", "logger_waits", "sends", "accepted")

    def __init__(self):
        self.ready: List[Any] = []
        self.order = 0
        self.nready = 0
        self.write_selects = 0
        self.logger_waits: List[Any] = []
        self.sends: List[Tuple[Any, int, bool]] = []
        self.accepted = 0


class RawClient:
    """A scripted TCP peer of the manager: writes bytes, closes, resets, reads frames."""

    def __init__(self, world: "World", slot: Any, hid: Optional[int] = None):
        self.world = world
        self.slot = slot
        self.sock = N.VSock(world.net)
        self.mgr_side: Optional[N.VSock] = None
        self.hid = hid
        self.inbox: List[P.Frame] = []
        self.stream_problem: Optional[str] = None
        self.gone = False

    def connect(self):
        if self.hid is not None:
            self.world.net.accept_hids.append(self.hid)
        try:
            self.sock.connect(("127.0.0.1", PORT))
        except ConnectionRefusedError:
            # the manager is gone (its death is what the check reports); the client simply cannot connect
            self.refused = True
            if self.hid is not None and self.world.net.accept_hids:
                self.world.net.accept_hids.pop()
            return self
        self.mgr_side = self.sock.peer_sock
        self.mgr_side.tag = self.slot
        return self

    def send(self, data: bytes):
        # writing to a connection the manager has closed (or after the manager died) is an ordinary client-side
        # error, never a harness failure; the checks observe the consequences on the manager side
        try:
            self.sock.sendall(data)
        except OSError:
            self.send_errors = getattr(self, "send_errors", 0) + 1

    def fin(self):
        self.gone = True
        self.sock.close()

    def rst(self):
        self.gone = True
        self.sock.reset()

    def drain(self) -> List[P.Frame]:
        """Parse everything the manager has written to this client so far (whole frames only)."""
        if not self.sock.rx:
            return []
        frames, rest, prob = P.parse_stream(bytes(self.sock.rx), self.world.timecode)
        if prob:
            self.stream_problem = prob
        used = len(self.sock.rx) - len(rest)
        del self.sock.rx[:used]
        self.inbox.extend(frames)
        return frames

    def leftover(self) -> int:
        return len(self.sock.rx)


_RICH_MUTED = False


_RICH_ORIG = None


def _mute_rich():
    """console output of the library's RichHandler is of no interest to most checks"""
    global _RICH_MUTED, _RICH_ORIG
    if not _RICH_MUTED:
        try:
            from rich.logging import RichHandler

            if _RICH_ORIG is None:
                _RICH_ORIG = RichHandler.emit
            RichHandler.emit = lambda self, record: None
        except Exception:
            pass
        _RICH_MUTED = True


def _unmute_rich():
    """the real console path (formatting and markup included), for worlds that ask for it: the text goes to a buffer"""
    global _RICH_MUTED
    if _RICH_MUTED and _RICH_ORIG is not None:
        from rich.logging import RichHandler

        RichHandler.emit = _RICH_ORIG
    _RICH_MUTED = False


class World:
    def __init__(self, timecode: bool = False, log_level: int = SILENT, send_msg_timing: bool = True,
                 fin_grace: int = 1, mgr_kwargs: Optional[dict] = None, console: bool = False):
        import pyrtma.manager as M

        self.console = console

        N.install()
        self.timecode = timecode
        self.net = N.VNet(fin_grace=fin_grace)
        N.set_current(self.net)
        self.go = _Baton()
        self.parked = _Baton()
        self.stopping = False
        self.finished = False
        self.exit: Optional[Tuple] = None  # ('returned',) | ('died', exc, tb) | ('stall', msg)
        self.order_choice = 0
        self.nonwritable: set = set()  # manager-side VSocks reported not writable
        self.round: Round = Round()
        self.rounds: int = 0
        self.net.mgr_select = self._mgr_select
        self.net.shuffle = self._shuffle
        self.net.send_observer = self._on_send
        self.net.pre_send_observer = self._pre_send
        self.kill_plan: Optional[Tuple[int, list, str]] = None  # (k, [RawClient], 'fin'|'rst'): asynchronous death
        # (k, fn): fn() is called right before the manager's k-th send call of the coming round - a call made by ANOTHER thread of the
        # process (close() is meant to be called from one) lands between two sends of the run loop
        self.call_plan: Optional[Tuple[int, Any]] = None
        self.mgr_sends = 0
        self.wait_deaths: Dict[Any, str] = {}  # slot -> 'fin'|'rst': the peer goes away WHILE the manager waits for this logger to become writable
        self.clients: Dict[Any, RawClient] = {}
        kw = dict(ip_address="127.0.0.1", port=PORT, timecode=timecode, log_level=log_level,
                  send_msg_timing=send_msg_timing)
        kw.update(mgr_kwargs or {})
        if console:
            _unmute_rich()
        elif log_level < SILENT:
            _mute_rich()
        if console:
            import contextlib
            import io

            # (the constructor already writes a record to the console it has just configured)
            with contextlib.redirect_stdout(io.StringIO()), contextlib.redirect_stderr(io.StringIO()):
                self.mgr = M.MessageManager(**kw)
            self._buffer_console()
        else:
            self.mgr = M.MessageManager(**kw)
        if console:
            pass
        else:
            self._silence_console()
        self.thread = threading.Thread(target=self._main, name="vf-mgr", daemon=True)
        self.net.mgr_thread = self.thread
        self.thread.start()
        self.parked.acquire()  # manager is now parked in its first read-select
        self._check_exit()

    # ---- manager thread ---------------------------------------------------------------------
    def _buffer_console(self):
        """keep the manager's console handler as it is configured by default, but let it write into a buffer"""
        import io

        try:
            from rich.console import Console
            from rich.logging import RichHandler

            self.console_text = io.StringIO()
            for h in list(self.mgr.logger.logger.handlers):
                if isinstance(h, RichHandler):
                    h.console = Console(file=self.console_text, width=240, force_terminal=False)
        except ImportError:
            pass

    def _silence_console(self):
        lg = self.mgr.logger
        try:
            lg.enable_console = False
        except Exception:
            pass

    def _main(self):
        try:
            self.mgr.run()
            self.exit = ("returned",)
        except N.ManagerStall as e:
            self.exit = ("stall", str(e))
        except HarnessError as e:
            self.exit = ("harness", str(e))
        except BaseException as e:  # the C03 oracle: nothing may escape run()
            self.exit = ("died", f"{type(e).__name__}: {e}", traceback.format_exc())
        finally:
            self.finished = True
            self.parked.release()

    def _mgr_select(self, r, w, timeout):
        if r:
            # read-select: the park point between rounds
            self.parked.release()
            self.go.acquire()
            if self.stopping:
                raise KeyboardInterrupt
            self.round = Round()
            self.rounds += 1
            self.mgr_sends = 0
            ready = [s for s in r if s.readable()]
            self.round.ready = list(ready)
            return ready, [], []
        if timeout is None:
            # blocking wait for a logger: the logger drains eventually
            self.round.logger_waits.extend(w)
            for s in w:
                how = self.wait_deaths.pop(getattr(s, "tag", None), None)
                if how:
                    c = self.clients[s.tag]
                    c.fin() if how == "fin" else c.rst()
            return [], list(w), []
        self.round.write_selects += 1
        return [], [s for s in w if not s.listening and s not in self.nonwritable], []

    def _shuffle(self, lst):
        self.round.nready = len(lst)
        k = self.order_choice
        if k:
            nf = factorial(len(lst))
            if k >= nf:
                raise HarnessError(f"service-order choice {k} out of range for {len(lst)} ready sockets")
            lst[:] = nth_permutation(lst, k)
        self.round.order = k

    def _pre_send(self, sock):
        """a peer may die at any instant: the harness can schedule a death right before the
        manager's k-th send call of the current round"""
        if sock.role != "mgr":
            return
        self.mgr_sends += 1
        if self.call_plan is not None and self.mgr_sends >= self.call_plan[0]:
            fn = self.call_plan[1]
            self.call_plan = None
            fn()
        if self.kill_plan is not None and self.mgr_sends >= self.kill_plan[0]:
            _, victims, how = self.kill_plan
            self.kill_plan = None
            for v in victims:
                v.fin() if how == "fin" else v.rst()

    def _on_send(self, sock, data, delivered):
        if sock.role == "mgr":
            self.round.sends.append((sock, len(data), delivered))

    # ---- explorer side ----------------------------------------------------------------------
    def _check_exit(self):
        if self.finished and self.exit and self.exit[0] == "harness":
            raise HarnessError(self.exit[1])

    @property
    def alive(self) -> bool:
        return not self.finished

    def step(self, order: int = 0, nonwritable: Sequence[Any] = ()) -> Round:
        """Run one manager round. `nonwritable` lists slots (or RawClients) whose connection the
        write-select reports as not ready."""
        if self.finished:
            return self.round
        self.order_choice = order
        nw = set()
        for x in nonwritable:
            c = self.clients.get(x) if not isinstance(x, RawClient) else x
            if c is None or c.mgr_side is None:
                continue
            nw.add(c.mgr_side)
        self.nonwritable = nw
        self.go.release()
        self.parked.acquire()
        self._check_exit()
        return self.round

    def readable_now(self) -> bool:
        """Would the manager's next read-select return anything?"""
        try:
            return any(s.readable() for s in self.mgr.modules.keys() if not s.closed)
        except Exception:
            return True

    def settle(self, limit: int = 64) -> int:
        """Default-schedule rounds until nothing is readable."""
        n = 0
        while not self.finished and self.readable_now():
            self.step()
            n += 1
            if n > limit:
                raise HarnessError("manager does not become quiescent")
        return n

    def tick(self, dt: float):
        self.net.mgr_clock.advance(dt)

    def client(self, slot: Any, hid: Optional[int] = None) -> RawClient:
        c = RawClient(self, slot, hid)
        self.clients[slot] = c
        return c

    def stop(self):
        """End the run through the loop's own exit path and release everything."""
        if not self.finished:
            self.stopping = True
            self.go.release()
            self.parked.acquire()
        self.thread.join(5)
        if self.thread.is_alive():
            raise HarnessError("manager thread did not stop")
        try:
            lg = self.mgr.logger._logger
            for h in list(lg.handlers):
                lg.removeHandler(h)
            for f in list(lg.filters):
                lg.removeFilter(f)
            logging.Logger.manager.loggerDict.pop(lg.name, None)
        except Exception:
            pass
        self.net.mgr_select = None
        N.set_current(None)

    # ---- a digest of the manager's own tables (for canonical state keys) ----------------------
    def digest(self) -> Tuple:
        try:
            m = self.mgr
            mods = []
            for s, mod in m.modules.items():
                if s is m.listen_socket:
                    continue
                mods.append((getattr(s, "tag", None), mod.mod_id, mod.name, mod.connected, mod.is_logger,
                             mod.unique, mod.pid, tuple(sorted(mod.subs))))
            subs = tuple(sorted((t, tuple(sorted(getattr(x.conn, "tag", None) if getattr(x.conn, "tag", None) is not None else -1 for x in ms)))
                                for t, ms in m.subscriptions.items() if ms))
            lg = tuple(sorted(str(getattr(x.conn, "tag", None)) for x in m.logger_modules))
            return (tuple(mods), subs, lg, m.next_dynamic_mod_id_offset)
        except Exception as e:
            return ("digest-unavailable", type(e).__name__)


def fresh_gc():
    """GC is an unowned scheduler: collect between executions, never inside one."""
    gc.collect()
