"""vf.defx - definition programs for the YAML message-definition compiler, and the observers that
load each generated output in its own language (Python import, gcc probe, node import, a
MATLAB-subset interpreter) plus the parser model; all reduced to one comparable *signature*.
"""
from __future__ import annotations

import contextlib
import ctypes
import io
import json
import os
import re
import subprocess
import sys
from typing import Any, Dict, List, Optional, Sequence, Tuple

from . import core, valx

NATIVE = {  # native type name -> (kind, width)
    "char": ("char", 1), "unsigned char": ("uint", 1), "byte": ("uint", 1),
    "int": ("int", 4), "signed int": ("int", 4), "unsigned int": ("uint", 4), "unsigned": ("uint", 4),
    "short": ("int", 2), "signed short": ("int", 2), "unsigned short": ("uint", 2),
    "long": ("int", 4), "signed long": ("int", 4), "unsigned long": ("uint", 4),
    "long long": ("int", 8), "signed long long": ("int", 8), "unsigned long long": ("uint", 8),
    "float": ("float", 4), "double": ("float", 8),
    "uint8": ("uint", 1), "uint16": ("uint", 2), "uint32": ("uint", 4), "uint64": ("uint", 8),
    "int8": ("int", 1), "int16": ("int", 2), "int32": ("int", 4), "int64": ("int", 8),
}
NATIVE_NAMES = list(NATIVE)  # the 26 documented native type names


# ---- programs ------------------------------------------------------------------------------------

SECTIONS = ("imports", "constants", "string_constants", "aliases", "host_ids", "module_ids", "struct_defs", "message_defs")


def render_file(sections: Dict[str, Any], header_comment: str = "") -> str:
    """sections: dict section -> ordered dict / list as the YAML grammar of pyrtma expects"""
    out = []
    if header_comment:
        out.append(f"# {header_comment}")
    for sec in ("metadata", "compiler_options") + SECTIONS:
        if sec not in sections or sections[sec] is None:
            continue
        v = sections[sec]
        out.append(f"{sec}:")
        if sec == "imports":
            for p in v:
                out.append(f"  - {p}")
        elif sec in ("struct_defs", "message_defs"):
            for name, d in v.items():
                out.append(f"  {name}:")
                if "id" in d:
                    idv = d["id"]
                    if isinstance(idv, list):
                        out.append("    id:")
                        for e in idv:
                            out.append(f"      - {e}")
                    else:
                        out.append(f"    id: {idv}")
                if "fields" in d:
                    f = d["fields"]
                    if f is None:
                        out.append("    fields: null")
                    elif isinstance(f, str):
                        out.append(f"    fields: {f}")
                    else:
                        out.append("    fields:")
                        for fn, ft in f.items():
                            out.append(f"      {fn}: {ft}")
        else:
            for k, val in v.items():
                if isinstance(val, str) and sec == "string_constants":
                    out.append(f'  {k}: "{val}"')
                else:
                    out.append(f"  {k}: {val}")
        out.append("")
    return "\n".join(out) + "\n"


class Program:
    """files: relpath -> sections dict; root: relpath of the root file"""

    def __init__(self, files: Dict[str, Dict[str, Any]], root: str = "root.yaml"):
        self.files = files
        self.root = root

    def write(self, d: str) -> str:
        for rel, sections in self.files.items():
            p = os.path.join(d, rel)
            os.makedirs(os.path.dirname(p), exist_ok=True)
            with open(p, "w", encoding="utf-8") as f:
                f.write(render_file(sections) if isinstance(sections, dict) else sections)
        return os.path.join(d, self.root)

    def to_json(self):
        return {"root": self.root, "files": {k: (v if isinstance(v, str) else render_file(v)) for k, v in self.files.items()}}


def parse_model(root_path: str, **kw):
    """Parser object after parse() (console chatter discarded); raises ParserError subclasses"""
    from pyrtma.parser import Parser

    with contextlib.redirect_stdout(io.StringIO()), contextlib.redirect_stderr(io.StringIO()):
        p = Parser(**kw)
        p.parse(root_path)
    for h in list(p.logger.handlers):
        p.logger.removeHandler(h)
    return p


# ---- signature from the parser model -----------------------------------------------------------------

def _resolve(tobj):
    """follow aliases to a native type or a struct/message definition"""
    from pyrtma import parser as P

    n = 0
    while isinstance(tobj, P.TypeAlias) and n < 20:
        tobj = tobj.type_obj
        n += 1
    return tobj


def sig_parser(p) -> Dict[str, Any]:
    from pyrtma import parser as P

    defs = {}
    for coll, is_msg in ((p.struct_defs, False), (p.message_defs, True)):
        for name, d in coll.items():
            fields = []
            for f in d.fields:
                t = _resolve(f.type_obj)
                if isinstance(t, P.NativeType):
                    key = next((k for k, v in P.supported_types.items() if v is t), t.name)
                    kind, width = NATIVE.get(key, ("?", t.size))
                else:
                    kind, width = "struct:" + t.name, t.size
                fields.append([f.name, kind, width, f.length or 1, f.offset])
            defs[name] = {"fields": fields, "size": d.size, "msg": is_msg, "hash": int(d.hash[:8], 16),
                          "id": d.type_id if is_msg else None, "src": str(d.src)}
    return {"defs": defs,
            "MT": {k: v.value for k, v in p.message_ids.items()},
            "MID": {k: v.value for k, v in p.module_ids.items()},
            "HID": {k: v.value for k, v in p.host_ids.items()},
            "constants": {k: v.value for k, v in p.constants.items()},
            "strings": {k: v.value.strip('"') for k, v in p.string_constants.items()}}


# ---- Python observer ---------------------------------------------------------------------------------------

_CT_KIND = {"c": ("char", 1), "b": ("int", 1), "B": ("uint", 1), "h": ("int", 2), "H": ("uint", 2), "i": ("int", 4),
            "I": ("uint", 4), "l": ("int", 8), "L": ("uint", 8), "q": ("int", 8), "Q": ("uint", 8), "f": ("float", 4),
            "d": ("float", 8)}


def _ct_desc(ct) -> Tuple[str, int, int]:
    n = 1
    if issubclass(ct, ctypes.Array):
        n = ct._length_
        ct = ct._type_
    if issubclass(ct, ctypes.Structure):
        return "struct:" + getattr(ct, "type_name", ct.__name__), ctypes.sizeof(ct), n
    kind, width = _CT_KIND[ct._type_]
    return kind, ctypes.sizeof(ct), n


_import_n = 0


def sig_python(pyfile: str) -> Dict[str, Any]:
    """import the generated module (in this process) and describe what it defines"""
    global _import_n
    from pyrtma.message_base import MessageBase
    from pyrtma.message_data import MessageData

    _import_n += 1
    modname = f"vf_gen_{os.getpid()}_{_import_n}"
    try:
        mod = valx.import_generated(pyfile, modname)
    finally:
        sys.modules.pop(modname, None)
    defs = {}
    MT, MID, consts, strings = {}, {}, {}, {}
    for k, v in vars(mod).items():
        if k.startswith("_"):
            continue
        if isinstance(v, type) and issubclass(v, MessageBase) and v.__module__ == modname:
            is_msg = issubclass(v, MessageData)
            fields = []
            for fname, ct, *_ in v._fields_:
                kind, width, n = _ct_desc(ct)
                fields.append([fname[1:] if fname.startswith("_") else fname, kind, width, n, getattr(v, fname).offset])
            name = v.type_name
            defs[name] = {"fields": fields, "size": ctypes.sizeof(v), "recorded_size": v.type_size, "msg": is_msg,
                          "hash": v.type_hash, "id": v.type_id if is_msg else None, "cls": k}
        elif k.startswith("MT_") and isinstance(v, int):
            MT[k[3:]] = v
        elif k.startswith("MID_") and isinstance(v, int):
            MID[k[4:]] = v
        elif k.isupper() or (k[:1].isupper() and isinstance(v, (int, float, str))):
            if isinstance(v, bool):
                continue
            if isinstance(v, (int, float)):
                consts[k] = v
            elif isinstance(v, str) and k != "COMPILED_PYRTMA_VERSION":
                strings[k] = v
    # message registry: every message id must resolve to a class of the recorded size
    import pyrtma

    registry = {}
    for name, d in defs.items():
        if d["msg"]:
            try:
                c = pyrtma.get_msg_cls(d["id"])
                registry[name] = [c.type_name, ctypes.sizeof(c)]
            except Exception as e:
                registry[name] = [type(e).__name__, -1]
    return {"defs": defs, "MT": MT, "MID": MID, "names": consts, "strings": strings, "registry": registry}


# ---- C observer ----------------------------------------------------------------------------------------------

_STRUCT_RE = re.compile(r"typedef\s+struct\s*\{(?P<body>[^}]*)\}\s*(?P<name>\w+)\s*;", re.S)
_FIELD_RE = re.compile(r"^\s*(?P<type>[\w ]+?)\s+(?P<name>\w+)\s*(\[(?P<len>[^\]]*)\])?\s*;\s*$")
_DEFINE_RE = re.compile(r"^#define[ \t]+(?P<name>\w+)[ \t]+(?P<val>[^\n]+?)[ \t]*$", re.M)


def header_structs(text: str) -> List[Tuple[str, List[Tuple[str, str, Optional[str]]]]]:
    out = []
    for m in _STRUCT_RE.finditer(text):
        fields = []
        for line in m.group("body").splitlines():
            line = line.split("//")[0]
            if not line.strip():
                continue
            fm = _FIELD_RE.match(line)
            if not fm:
                fields.append(("?" + line.strip(), "?", None))
                continue
            fields.append((fm.group("name"), fm.group("type"), fm.group("len")))
        out.append((m.group("name"), fields))
    return out


def header_defines(text: str) -> Dict[str, str]:
    return {m.group("name"): m.group("val") for m in _DEFINE_RE.finditer(text)}


_GENERIC = ('_Generic((X), char: "char:1", signed char: "int:1", unsigned char: "uint:1", short: "int:2", unsigned short: "uint:2", '
            'int: "int:4", unsigned int: "uint:4", long: "int:8", unsigned long: "uint:8", long long: "int:8", '
            'unsigned long long: "uint:8", float: "float:4", double: "float:8", default: "struct")')


def c_probe_source(header_name: str, structs, pre_includes: Sequence[str] = ()) -> str:
    src = ["#include <stdio.h>", "#include <stddef.h>", "#include <stdint.h>"]
    for inc in pre_includes:
        src.append(f'#include "{inc}"')
    src.append(f'#include "{header_name}"')
    src.append(f"#define KIND(X) {_GENERIC}")
    src.append("int main(void){")
    src.append('printf("{\\n");')
    first = True
    for sname, fields in structs:
        src.append(f'printf("%s\\"{sname}\\": {{\\"size\\": %zu, \\"align\\": %zu, \\"fields\\": [", "{"" if first else ","}", sizeof({sname}), _Alignof({sname}));')
        first = False
        for i, (fname, ftype, flen) in enumerate(fields):
            if fname.startswith("?"):
                continue
            acc = f"(({sname}*)0)->{fname}"
            el = f"{acc}[0]" if flen is not None else acc
            src.append(f'printf("%s[\\"{fname}\\", \\"%s\\", %zu, %zu, %zu]", "{"" if i == 0 else ","}", KIND({el}), sizeof({el}), '
                       f"sizeof({acc})/sizeof({el}), offsetof({sname}, {fname}));")
        src.append('printf("]}\\n");')
    src.append('printf("}\\n"); return 0; }')
    return "\n".join(src) + "\n"


def gcc(args: Sequence[str], cwd: str) -> Tuple[int, str]:
    r = subprocess.run(["gcc"] + list(args), cwd=cwd, capture_output=True, text=True)
    return r.returncode, (r.stderr or "")[-2000:]


def sig_c(hfile: str, workdir: str, core_header: Optional[str] = None, struct_type_names: Optional[Dict[str, str]] = None) -> Dict[str, Any]:
    text = open(hfile).read()
    structs = header_structs(text)
    pre = [core_header] if core_header else []
    probe = os.path.join(workdir, "probe_" + os.path.basename(hfile) + ".c")
    exe = probe[:-2]
    with open(probe, "w") as f:
        f.write(c_probe_source(os.path.abspath(hfile), structs, [os.path.abspath(p) for p in pre]))
    rc, err = gcc(["-std=c11", "-w", "-o", exe, probe], workdir)
    if rc != 0:
        return {"error": "gcc: " + err, "defs": {}, "defines": header_defines(text)}
    r = subprocess.run([exe], capture_output=True, text=True)
    try:
        raw = json.loads(r.stdout)
    except Exception:
        return {"error": "probe output: " + r.stdout[:300], "defs": {}, "defines": header_defines(text)}
    ftypes = {s: {fn: ft for fn, ft, _ in fl} for s, fl in structs}
    defs = {}
    for sname, d in raw.items():
        fields = []
        for fname, kind, width, n, off in d["fields"]:
            if kind == "struct":
                tn = ftypes[sname][fname].strip()
                kind = "struct:" + (tn[4:] if tn.startswith("MDF_") else tn)
            else:
                kind, w = kind.split(":")
            fields.append([fname, kind, width, n, off])
        name = sname[4:] if sname.startswith("MDF_") else sname
        defs[name] = {"fields": fields, "size": d["size"], "align": d["align"], "msg": sname.startswith("MDF_"), "cname": sname}
    return {"defs": defs, "defines": header_defines(text)}


# ---- JavaScript observer ----------------------------------------------------------------------------------------

JS_PROBE = r"""
import { pathToFileURL } from 'url';
const files = process.argv.slice(2);
function desc(v, depth) {
  if (depth > 12) return {k: 'deep'};
  if (typeof v === 'string') return {k: 'str'};
  if (typeof v === 'number') return {k: 'num'};
  if (Array.isArray(v)) {
    let distinct = true;
    if (v.length > 1 && typeof v[0] === 'object' && v[0] !== null) {
      const seen = new Set(v);
      distinct = seen.size === v.length;
    }
    return {k: 'arr', n: v.length, el: v.length ? desc(v[0], depth + 1) : null, distinct};
  }
  if (v && typeof v === 'object') return {k: 'obj', fields: Object.keys(v).map(n => [n, desc(v[n], depth + 1)])};
  if (typeof v === 'function') return {k: 'fn'};
  return {k: typeof v};
}
const out = {};
for (const f of files) {
  const res = {error: null, MT: {}, MID: {}, HID: {}, constants: {}, HASH: {}, MDF: {}, SDF: {}};
  try {
    const mod = await import(pathToFileURL(f).href);
    const R = mod.RTMA;
    for (const sec of ['MT', 'MID', 'HID', 'constants', 'HASH']) res[sec] = Object.assign({}, R[sec] || {});
    for (const sec of ['MDF', 'SDF']) {
      for (const name of Object.keys(R[sec] || {})) {
        const entry = {error: null, shape: null, fresh: null};
        try {
          const fac = R[sec][name];
          if (typeof fac !== 'function') { entry.error = 'not a factory: ' + typeof fac; }
          else {
            const a = fac(); const b = fac();
            entry.shape = desc(a, 0);
            entry.fresh = (a !== b);
            // nested objects must not be shared between two calls either
            const ka = Object.keys(a).filter(k => a[k] && typeof a[k] === 'object');
            for (const k of ka) if (a[k] === b[k]) entry.fresh = false;
          }
        } catch (e) { entry.error = String(e); }
        res[sec][name] = entry;
      }
    }
  } catch (e) { res.error = String(e); }
  out[f] = res;
}
console.log(JSON.stringify(out));
"""


def sig_js(jsfiles: Sequence[str], workdir: str) -> Dict[str, Any]:
    """one node process imports every generated module (copied to .mjs)"""
    probe = os.path.join(workdir, "probe.mjs")
    with open(probe, "w") as f:
        f.write(JS_PROBE)
    mjs = []
    for p in jsfiles:
        q = p[:-3] + ".mjs"
        with open(p) as src, open(q, "w") as dst:
            dst.write(src.read())
        mjs.append(q)
    r = subprocess.run(["node", probe] + mjs, capture_output=True, text=True, cwd=workdir)
    if r.returncode != 0:
        raise core.HarnessError(f"node probe failed: {r.stderr[-800:]}")
    raw = json.loads(r.stdout)
    return {p: raw[q] for p, q in zip(jsfiles, mjs)}


# ---- MATLAB subset interpreter --------------------------------------------------------------------------------------

class MatlabError(Exception):
    pass


_M_ASSIGN = re.compile(r"^\s*(?P<lhs>RTMA(\.\w+)*)\s*=\s*(?P<rhs>.*?);\s*$")
_M_TYPES = ("int8", "uint8", "int16", "uint16", "int32", "uint32", "int64", "uint64", "single", "double")
M_KIND = {"int8": ("int", 1), "uint8": ("uint", 1), "int16": ("int", 2), "uint16": ("uint", 2), "int32": ("int", 4),
          "uint32": ("uint", 4), "int64": ("int", 8), "uint64": ("uint", 8), "single": ("float", 4), "double": ("float", 8)}


def _m_get(root, path: List[str], line: str):
    cur = root
    for p in path:
        if not isinstance(cur, dict) or p not in cur:
            raise MatlabError(f"reference to undefined field {'.'.join(['RTMA'] + path)} in: {line.strip()}")
        cur = cur[p]
    return cur


def _m_eval(root, rhs: str, line: str):
    rhs = rhs.strip()
    if rhs in ("struct()", "[]"):
        return {} if rhs == "struct()" else {"__empty__": True}
    m = re.match(r"^(\w+)\(0\)$", rhs)
    if m and m.group(1) in _M_TYPES:
        return {"__t__": m.group(1)}
    m = re.match(r"^repmat\((.*),\s*1\s*,\s*(\d+)\)$", rhs)
    if m:
        return {"__rep__": _m_eval(root, m.group(1), line), "__n__": int(m.group(2))}
    if rhs.startswith("RTMA"):
        import copy

        return copy.deepcopy(_m_get(root, rhs.split(".")[1:], line))
    if len(rhs) >= 2 and rhs[0] in "'\"" and rhs[-1] == rhs[0]:
        # MATLAB quoting: inside '...' an apostrophe is written twice, inside "..." a double quote is written twice;
        # a lone delimiter ends the literal and what follows is a syntax error
        q, body, out, i = rhs[0], rhs[1:-1], [], 0
        while i < len(body):
            if body[i] == q:
                if i + 1 < len(body) and body[i + 1] == q:
                    out.append(q)
                    i += 2
                    continue
                raise MatlabError(f"string literal ends at an unescaped {q} : {line.strip()}")
            out.append(body[i])
            i += 1
        return "".join(out)
    try:
        return int(rhs, 0)
    except ValueError:
        pass
    try:
        return float(rhs)
    except ValueError:
        raise MatlabError(f"statement form outside the emitted subset: {line.strip()}")


def run_matlab(mfile: str) -> Dict[str, Any]:
    """execute the emitted script top to bottom; fail on any read of a path not yet assigned"""
    root: Dict[str, Any] = {}
    err = None
    in_loop = False
    try:
        for line in open(mfile).read().splitlines():
            s = line.strip()
            if not s or s.startswith("%") or s.startswith("function") or s == "end":
                if s == "end":
                    in_loop = False
                continue
            if s.startswith("RTMA = struct()"):
                continue
            if s.startswith("for ") or s.startswith("mtns") or in_loop:
                in_loop = in_loop or s.startswith("for ")
                continue
            m = _M_ASSIGN.match(line)
            if not m:
                raise MatlabError(f"statement form outside the emitted subset: {s}")
            path = m.group("lhs").split(".")[1:]
            val = _m_eval(root, m.group("rhs"), line)
            cur = root
            for p in path[:-1]:
                nxt = cur.get(p)
                if not isinstance(nxt, dict) or nxt.get("__empty__"):
                    nxt = {}
                    cur[p] = nxt
                cur = nxt
            cur[path[-1]] = val
        # the closing loop reads RTMA.MDF.(name) for every name of RTMA.MT
        for name in root.get("MT", {}):
            if name not in root.get("MDF", {}):
                raise MatlabError(f"loop over RTMA.MT reads undefined RTMA.MDF.{name}")
    except MatlabError as e:
        err = str(e)
    return {"error": err, "RTMA": root}


def m_fields(d) -> List[List[Any]]:
    """field list [name, kind, width, n] of an interpreted MATLAB struct value"""
    out = []
    for k, v in d.items():
        n = 1
        if isinstance(v, dict) and "__rep__" in v:
            n = v["__n__"]
            v = v["__rep__"]
        if isinstance(v, dict) and "__t__" in v:
            kind, width = M_KIND[v["__t__"]]
            out.append([k, kind, width, n])
        elif isinstance(v, dict):
            out.append([k, "struct", m_fields(v), n])
        else:
            out.append([k, "value", v, n])
    return out


# ---- compile a program with the public entry point ------------------------------------------------------------------------

def compile_program(prog: Program, workdir: str, name: str = "out", black: bool = False, outputs=("python", "c_lang", "javascript", "matlab"),
                    **kw) -> Dict[str, str]:
    """returns paths of the generated files; raises whatever compile() raises"""
    src = os.path.join(workdir, "src")
    out = os.path.join(workdir, "gen")
    os.makedirs(src, exist_ok=True)
    os.makedirs(out, exist_ok=True)
    root = prog.write(src)
    flags = {o: True for o in outputs}
    valx.compile_file(root, name, out, black=black, **flags, **kw)
    ext = {"python": ".py", "c_lang": ".h", "javascript": ".js", "matlab": ".m", "info": ".txt", "combined": "_combined.yaml"}
    return {"root": root, **{o: os.path.join(out, name + ext[o]) for o in outputs}}


_CORE_H: Dict[str, str] = {}


def core_header(workdir: str) -> str:
    """the C header compiled from the package's own core_defs.yaml (the C back end omits core items)"""
    if workdir in _CORE_H:
        return _CORE_H[workdir]
    import pyrtma

    core_yaml = os.path.join(os.path.dirname(pyrtma.__file__), "core_defs", "core_defs.yaml")
    d = os.path.join(workdir, "corehdr")
    os.makedirs(d, exist_ok=True)
    # compile a copy that lives outside a directory called core_defs (the C back end skips those)
    import shutil

    cp = os.path.join(d, "defs")
    if os.path.exists(cp):
        shutil.rmtree(cp)
    shutil.copytree(os.path.dirname(core_yaml), cp)
    valx.compile_file(os.path.join(cp, "core_defs.yaml"), "rtma_core", d, c_lang=True, import_coredefs=False)
    _CORE_H[workdir] = os.path.join(d, "rtma_core.h")
    return _CORE_H[workdir]
