"""vf.thx - a controlled scheduler for the threads of pyrtma.data_logger.data_collection.

`threading.Event` / `threading.Thread` inside the library module are replaced by cooperative
versions; the real OS threads run strictly one at a time under a baton. Scheduling points:
  G1  every Event operation (set / clear / is_set / wait), thread start / exit / join, and the entry
      and exit of the DataSet / formatter methods that touch the shared buffers and files;
  G2  additionally every source line executed in the data-logger files (sys.settrace on frames of
      those files only, so no switch ever happens inside logging / tempfile / file objects).
Timed waits are modelled as blocking; when every live thread is blocked and some wait is timed,
one timeout fires. No enabled thread and no timed wait = deadlock; a horizon bounds every run.
An execution is determined by its choice list (index into the canonical enabled list at each
point: the running thread first if still enabled, then ascending thread ids).
"""
from __future__ import annotations

import _thread
import sys
import threading as _rt
from typing import Any, Callable, Dict, List, Optional, Sequence, Tuple

from .core import HarnessError


class Abort(BaseException):
    pass


class _Baton:
    __slots__ = ("l",)

    def __init__(self):
        self.l = _thread.allocate_lock()
        self.l.acquire()

    def release(self):
        try:
            self.l.release()
        except RuntimeError:
            pass

    def acquire(self):
        self.l.acquire()


class HThread:
    def __init__(self, sched: "Sched", target: Callable, name: str):
        self.sched = sched
        self.target = target
        self.name = name
        self.tid = len(sched.threads)
        self.baton = _Baton()
        self.done = False
        self.started = False
        self.blocked_on: Optional[Callable[[], bool]] = None
        self.timed = False
        self.timeout_fired = False
        self.exc: Optional[BaseException] = None
        self.th = _rt.Thread(target=self._run, name=f"thx-{name}", daemon=True)
        sched.threads.append(self)

    # library-facing API ----------------------------------------------------------------------
    def start(self):
        self.started = True
        self.th.start()
        self.sched.point(self.sched.current(), "thread-start")

    def is_alive(self):
        return self.started and not self.done

    def join(self, timeout=None):
        me = self.sched.current()
        if self.done:
            self.sched.point(me, "join")
            return
        me.blocked_on = lambda: self.done
        me.timed = timeout is not None
        self.sched.point(me, "join")
        me.blocked_on = None
        me.timed = False

    # internals -------------------------------------------------------------------------------------
    def _trace(self, frame, event, arg):
        if event == "call":
            if frame.f_code.co_filename in self.sched.traced and frame.f_code.co_name != "__del__":
                return self._line
        return None

    def _line(self, frame, event, arg):
        if event == "line":
            self.sched.point(self, "line")
        return self._line

    def _run(self):
        s = self.sched
        self.baton.acquire()
        if s.aborting:
            self.done = True
            s.thread_finished()
            return
        if s.line_level:
            sys.settrace(self._trace)
        try:
            self.target()
        except Abort:
            pass
        except BaseException as e:  # an exception on a library thread is an observation, not a harness error
            self.exc = e
            import traceback

            self.exc_tb = traceback.format_exc()
        finally:
            sys.settrace(None)
            self.done = True
            s.on_exit(self)


class HEvent:
    def __init__(self):
        self.flag = False
        self.sched = SCHED

    def is_set(self):
        s = self.sched
        s.point(s.current(), "is_set")
        return self.flag

    def set(self):
        s = self.sched
        s.point(s.current(), "set")
        self.flag = True

    def clear(self):
        s = self.sched
        s.point(s.current(), "clear")
        self.flag = False

    def wait(self, timeout=None):
        s = self.sched
        me = s.current()
        s.point(me, "wait")
        if self.flag:
            return True
        me.blocked_on = lambda: self.flag
        me.timed = timeout is not None
        me.timeout_fired = False
        s.point(me, "wait-blocked")
        me.blocked_on = None
        me.timed = False
        return self.flag


class HLock:
    """cooperative threading.Lock: acquire / release are scheduling points"""

    def __init__(self):
        self.owner: Optional[HThread] = None
        self.sched = SCHED
        SCHED.locks.append(self)

    def acquire(self, blocking=True, timeout=-1):
        s = self.sched
        me = s.current()
        s.point(me, "lock-acquire")
        while self.owner is not None:
            if not blocking:
                return False
            me.blocked_on = lambda: self.owner is None
            me.timed = False
            s.point(me, "lock-blocked")
            me.blocked_on = None
        self.owner = me
        return True

    def release(self):
        s = self.sched
        me = s.current()
        self.owner = None
        s.point(me, "lock-release")

    def locked(self):
        return self.owner is not None

    def __enter__(self):
        self.acquire()
        return self

    def __exit__(self, *a):
        self.release()


SCHED: Optional["Sched"] = None


class Sched:
    def __init__(self, prefix: Sequence[int], traced: Sequence[str], line_level: bool, state_fn: Optional[Callable[[], Any]] = None,
                 horizon: int = 6000):
        global SCHED
        SCHED = self
        self.prefix = list(prefix)
        self.traced = set(traced)
        self.line_level = line_level
        self.state_fn = state_fn
        self.horizon = horizon
        self.threads: List[HThread] = []
        self.locks: List[Any] = []
        self.choices: List[int] = []
        self.points: List[Tuple[int, bool, Any, str]] = []  # (n enabled, running thread still enabled, state hash, label)
        self.aborting = False
        self.deadlock = False
        self.livelock = False
        self.horizon_hit = False
        self.diverged: Optional[str] = None
        self.timeouts = 0
        self.finished = _Baton()
        self._last_timeout_state = None
        self._same_timeouts = 0

    # ---- helpers ---------------------------------------------------------------------------------
    def current(self) -> HThread:
        th = _rt.current_thread()
        for t in self.threads:
            if t.th is th:
                return t
        raise HarnessError("library code running on a thread the scheduler does not own")

    def enabled(self) -> List[HThread]:
        return [t for t in self.threads if t.started and not t.done and (t.blocked_on is None or t.blocked_on() or t.timeout_fired)]

    def _fire_timeout(self) -> bool:
        tw = [t for t in self.threads if t.started and not t.done and t.blocked_on is not None and t.timed]
        if not tw:
            return False
        self.timeouts += 1
        st = self.state_fn() if self.state_fn else None
        if st is not None and st == self._last_timeout_state:
            self._same_timeouts += 1
            if self._same_timeouts > 6:
                self.livelock = True
                return False
        else:
            self._same_timeouts = 0
            self._last_timeout_state = st
        for t in tw:
            t.timeout_fired = True
        return True

    def _abort_all(self, me: Optional[HThread]):
        self.aborting = True
        for t in self.threads:
            if t is not me:
                t.baton.release()

    def _choose(self, me: Optional[HThread], label: str) -> Optional[HThread]:
        if len(self.choices) > self.horizon:
            self.horizon_hit = True
            return None
        en = self.enabled()
        if not en:
            if not self._fire_timeout():
                if not self.livelock:
                    self.deadlock = True
                return None
            en = self.enabled()
            if not en:
                self.deadlock = True
                return None
        me_en = me is not None and me in en
        if me_en:
            en = [me] + [t for t in en if t is not me]
        i = len(self.choices)
        c = self.prefix[i] if i < len(self.prefix) else 0
        if c >= len(en):
            self.diverged = f"choice {c} at point {i} but only {len(en)} enabled ({label})"
            return None
        st = self.state_fn() if self.state_fn else None
        self.points.append((len(en), me_en, st, label))
        self.choices.append(c)
        for t in en:
            if t.timeout_fired and t is en[c]:
                t.timeout_fired = False
                t.blocked_on = None
        return en[c]

    # ---- scheduling point ---------------------------------------------------------------------------
    def point(self, me: HThread, label: str):
        if self.aborting:
            raise Abort()
        nxt = self._choose(me, label)
        if nxt is None:
            self._abort_all(me)
            raise Abort()
        if nxt is not me:
            nxt.baton.release()
            me.baton.acquire()
            if self.aborting:
                raise Abort()

    def on_exit(self, me: HThread):
        """called by a thread that has finished: hand the baton on without waiting"""
        if not self.aborting:
            if any(t.started and not t.done for t in self.threads):
                nxt = self._choose(None, "thread-exit")
                if nxt is None:
                    self._abort_all(me)
                else:
                    nxt.baton.release()
        self.thread_finished()

    def thread_finished(self):
        if all((not t.started) or t.done for t in self.threads):
            self.finished.release()

    # ---- run ---------------------------------------------------------------------------------------
    def run(self, main: Callable, name: str = "R") -> HThread:
        r = HThread(self, main, name)
        r.started = True
        r.th.start()
        r.baton.release()
        self.finished.acquire()
        for t in self.threads:
            if t.started:
                t.th.join(5)
                if t.th.is_alive():
                    raise HarnessError(f"thread {t.name} did not terminate")
        return r


def fake_threading(sched_getter=None):
    import types

    ns = types.SimpleNamespace()
    ns.Event = HEvent
    ns.Lock = HLock
    ns.RLock = HLock
    ns.Thread = lambda target=None, **kw: HThread(SCHED, target, f"W{len(SCHED.threads)}")
    ns.current_thread = _rt.current_thread
    return ns
