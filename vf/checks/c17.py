"""C17 - the data logger loses, duplicates and reorders nothing.

Engine THX: the real DataCollection / DataSet / formatter code with its two threads (recorder and
background writer) under the controlled scheduler of vf.thx.

Enumerated: driver scripts for the recording thread - start, then every sequence of <= 3 (quick)
/ <= 4 (thorough) operations over {update(m) before the deadlines, update(m) just past the flush
deadline, update(m) just past the subdivision deadline, update(None), pause, resume}, then stop -
x data-set configurations {one set on ALL; two sets, one selecting a single type; subdivision
on/off} x formatter in {raw, json, quicklogger}.
Schedules: G1 - ALL interleavings at the granularity of the synchronisation operations and of the
DataSet / formatter method boundaries (depth-first with state-hash pruning); G2 - all
source-line-level interleavings with a bounded number of preemptions on the scripts that can have
a write pending at stop or at a second trigger.

Oracle: reference = the messages handed over while recording and not paused, filtered per data
set. After stop(): the raw file(s) (sub-divisions concatenated in index order) are the frames
concatenated; the JSON file decodes line by line to the messages; the quicklogger file(s) read
back with the package's QLReader give the same headers and payloads in order; no deadlock, no
livelock, no exception on either thread.
"""
from __future__ import annotations

import gc
import itertools
import json
import logging
import os
import sys
import tempfile
from typing import Any, Dict, List, Optional, Sequence, Tuple

from .. import core, thx

OPS = ("early", "flush", "subdiv", "none", "pause", "resume", "restart")
FORMATTERS = ("raw", "json", "quicklogger")
CONFIGS = ("all", "two", "all+subdiv", "two+subdiv")
_PATCHED = False


def _patch_points():
    """G1 scheduling points at the entry / exit of the methods that touch shared buffers and files"""
    global _PATCHED
    if _PATCHED:
        return
    import pyrtma.data_logger.data_set as dsm
    import pyrtma.data_logger.data_formatter as dfm
    from pyrtma.data_logger.formatters.quicklogger import QLFormatter

    def wrap(cls, name):
        orig = cls.__dict__.get(name)
        if orig is None:
            return

        def w(self, *a, **k):
            s = thx.SCHED
            if s is None or s.aborting is None:
                return orig(self, *a, **k)
            try:
                me = s.current()
            except core.HarnessError:
                return orig(self, *a, **k)
            s.point(me, f">{cls.__name__}.{name}")
            r = orig(self, *a, **k)
            s.point(me, f"<{cls.__name__}.{name}")
            return r

        w.__name__ = name
        w.__wrapped__ = orig
        setattr(cls, name, w)

    for n in ("stage_for_write", "write", "stop", "subdivide", "close"):
        wrap(dsm.DataSet, n)
    for n in ("write", "finalize"):
        wrap(dfm.DataFormatter, n)
        wrap(QLFormatter, n)
    _PATCHED = True


class Clock:
    t = 1000.0

    def time(self):
        return Clock.t

    def perf_counter(self):
        return Clock.t

    def sleep(self, s):
        Clock.t += max(0.0, s)

    def __getattr__(self, name):
        raise core.HarnessError(f"data_collection uses time.{name}, which the harness does not own")


_STATICS: Dict[Tuple[str, str, str], Any] = {}


def _restore_statics():
    """Executions share one process: mutable class attributes and module globals of the data-logger modules are put back to
    what they were at import, so that nothing leaks from one EXECUTION into the next (what leaks from one recording into
    the next inside an execution stays visible - that is the library's behaviour)."""
    import copy

    # every data-logger module loaded so far (the formatters live in a namespace package: sys.modules, not pkgutil)
    mods = [m for n, m in sorted(sys.modules.items()) if n.startswith("pyrtma.data_logger") and m is not None]
    for mod in mods:
        for name, val in list(vars(mod).items()):
            if name.startswith("__"):
                continue
            if isinstance(val, (list, dict, set)) and getattr(val, "__module__", None) is None:
                key = (mod.__name__, "", name)
                if key not in _STATICS:
                    _STATICS[key] = copy.deepcopy(val)
                elif val != _STATICS[key]:
                    setattr(mod, name, copy.deepcopy(_STATICS[key]))
            if isinstance(val, type) and val.__module__ == mod.__name__:
                for an, av in list(vars(val).items()):
                    if an.startswith("__") or not isinstance(av, (list, dict, set)):
                        continue
                    key = (mod.__name__, val.__name__, an)
                    if key not in _STATICS:
                        try:
                            _STATICS[key] = copy.deepcopy(av)
                        except Exception:
                            pass
                    elif av != _STATICS[key]:
                        setattr(val, an, copy.deepcopy(_STATICS[key]))


def mk_msg(i: int, kind: int):
    import pyrtma.core_defs as cd
    from pyrtma.message import Message
    from pyrtma.header import MessageHeader

    if kind == 0:
        d = cd.MDF_MODULE_READY()
        d.pid = 1000 + i
    elif kind == 1:
        d = cd.MDF_CLIENT_SET_NAME()
        d.name = f"msg{i}"
    else:
        d = cd.MDF_EXIT()
    h = MessageHeader()
    h.msg_type = d.type_id
    h.msg_count = i
    h.send_time = float(i)
    h.src_mod_id = 10 + kind
    h.num_data_bytes = d.type_size
    h.version = d.type_hash
    return Message(h, d)


def execute(case, prefix: Sequence[int], line_level: bool) -> Dict[str, Any]:
    """one execution of a driver script under a choice prefix"""
    import pyrtma.core_defs as cd
    import pyrtma.data_logger.data_collection as dc
    import pyrtma.data_logger.data_set as dsm
    import pyrtma.data_logger.data_formatter as dfm
    from pyrtma.data_logger.data_set import DataSet
    from pyrtma.data_logger.metadata import LoggingMetadata
    from pyrtma.data_logger.formatters.raw import RawFormatter
    from pyrtma.data_logger.formatters.json import JsonFormatter
    from pyrtma.data_logger.formatters.quicklogger import QLFormatter
    import pyrtma.data_logger.formatters.quicklogger as qlm

    ops, config, fmt = case
    _patch_points()
    _restore_statics()
    fcls = {"raw": RawFormatter, "json": JsonFormatter, "quicklogger": QLFormatter}[fmt]
    gc.collect()
    base = tempfile.mkdtemp(prefix="c17_", dir="/dev/shm" if os.path.isdir("/dev/shm") else None)
    old_tmp = tempfile.tempdir
    tempfile.tempdir = base
    res: Dict[str, Any] = {}
    handed: List[Any] = []
    recordings: List[Tuple[str, List[Any]]] = [("run", handed)]
    Clock.t = 1000.0
    state_src: Dict[str, Any] = {"c": None, "idx": 0}

    def state():
        c = state_src["c"]
        if c is None:
            return None
        frames = []
        cur = sys._current_frames()
        for t in sched.threads:
            f = cur.get(t.th.ident)
            pos = []
            while f is not None:
                if f.f_code.co_filename in traced:
                    pos.append((f.f_code.co_name, f.f_lineno))
                f = f.f_back
            frames.append((t.name, t.done, t.blocked_on is not None, t.timed, t.timeout_fired, tuple(pos)))
        dss = []
        for ds in c.datasets:
            try:
                fsz = ds.fd.tell() if ds.fd is not None and not ds.fd.closed else -1
            except Exception:
                fsz = -2
            fo = ds.formatter
            dss.append((tuple(m.header.msg_count for m in ds.rbuf), tuple(m.header.msg_count for m in ds.wbuf), ds.subdivide_flag, ds.sub_index,
                        ds.next_subdivide, ds.collection_stopped, fsz, getattr(fo, "num_writes", 0), len(getattr(fo, "offsets", ()))))
        return (tuple(frames), state_src["idx"], tuple(l.owner.name if l.owner else None for l in sched.locks), c.write_to_disk.flag, c.write_finished.flag, c._recording, c._paused, c._close, c.next_write,
                Clock.t, tuple(dss))

    traced = [dc.__file__, dsm.__file__, dfm.__file__, qlm.__file__]
    sched = thx.Sched(prefix, traced, line_level, state_fn=state)
    dc.threading = thx.fake_threading()
    dc.time = Clock()
    dc.print = lambda *a, **k: None
    lg = logging.getLogger("data_logger")
    lg.propagate = False
    if not lg.handlers:
        lg.addHandler(logging.NullHandler())
    md = LoggingMetadata()

    def recorder():
        c = dc.DataCollection("col", base, "run", md)
        state_src["c"] = c
        res["c"] = c
        sub = 30 if "subdiv" in config else 0
        # dA takes everything; in the two-set configurations its list names a concrete type next to the wildcard
        sets = [DataSet("col", "dA", "", "fileA", fcls, sub, [cd.ALL_MESSAGE_TYPES, cd.MT_CLIENT_SET_NAME] if config.startswith("two") else [cd.ALL_MESSAGE_TYPES], md)]
        if config.startswith("two"):
            # the 32-slot msg_types array of an ADD_DATA_SET request as a client fills it: used slots need not be adjacent
            sets.append(DataSet("col", "dB", "", "fileB", fcls, 0, [cd.MT_CLIENT_SET_NAME, 0, cd.MT_MODULE_READY] + [0] * 29, md))
            res["configured"] = {"dB": {cd.MT_CLIENT_SET_NAME, cd.MT_MODULE_READY}}
        for ds in sets:
            c.add_data_set(ds)
        if config == "two":
            # the configuration is edited before the recording (as ADD_DATA_SET with an existing name / REMOVE_DATA_SET do): dA is
            # replaced by a data set of the same name, dB is removed and added again; the objects that count are the last ones
            sets[0] = DataSet("col", "dA", "", "fileA", fcls, sub, [cd.ALL_MESSAGE_TYPES, cd.MT_CLIENT_SET_NAME], md)
            c.add_data_set(sets[0])
            c.rm_data_set("dB")
            sets[1] = DataSet("col", "dB", "", "fileB", fcls, 0, [cd.MT_CLIENT_SET_NAME, 0, cd.MT_MODULE_READY] + [0] * 29, md)
            c.add_data_set(sets[1])
        res["sets"] = sets
        c.start()
        i = 0
        for k, op in enumerate(ops):
            state_src["idx"] = k + 1
            if op in ("early", "flush", "subdiv", "none"):
                Clock.t += {"early": 1.0, "flush": 16.0, "subdiv": 31.0, "none": 16.0}[op]
                if op == "none":
                    m = None
                else:
                    i += 1
                    m = mk_msg(i, i % 3)
                if m is not None and c._recording and not c._paused:
                    recordings[-1][1].append(m)
                c.update(m)
            elif op == "pause":
                c.pause()
            elif op == "resume":
                c.resume()
            elif op == "restart":
                # a second recording on the same collection object (new directory): nothing may leak from the first
                c.stop()
                c.dir_fmt = f"run{len(recordings) + 1}"
                recordings.append((c.dir_fmt, []))
                c.start()
        state_src["idx"] = len(ops) + 1
        c.stop()
        state_src["idx"] = len(ops) + 2
        c.close()

    problems: List[Dict[str, Any]] = []
    try:
        r = sched.run(recorder)
        if sched.diverged:
            raise core.HarnessError("replay diverged: " + sched.diverged)
        for t in sched.threads:
            if t.exc is not None:
                problems.append({"kind": "thread-exception", "thread": t.name, "exc": f"{type(t.exc).__name__}: {str(t.exc)[:160]}"})
        if sched.deadlock:
            problems.append({"kind": "deadlock"})
        if sched.livelock:
            problems.append({"kind": "livelock"})
        if sched.horizon_hit:
            problems.append({"kind": "step-horizon-exceeded"})
        if not problems:
            for dirname, msgs in recordings:
                problems += verify(res, msgs, fmt, os.path.join(base, dirname))
    finally:
        c = res.get("c")
        if c is not None:
            c._dead = True
            for ds in getattr(c, "datasets", []):
                try:
                    ds.fd and ds.fd.close()
                except Exception:
                    pass
                try:
                    getattr(ds.formatter, "data_tmp", None) and ds.formatter.data_tmp.close()
                except Exception:
                    pass
        res.clear()
        state_src["c"] = None
        thx.SCHED = None
        tempfile.tempdir = old_tmp
        core.rmtree(base)
    return {"problems": problems, "points": sched.points, "choices": sched.choices, "timeouts": sched.timeouts}


_BULK: List[Any] = []


def batch_case(item) -> Dict[str, Any]:
    """the formatter half on its own: one formatter object is handed a SEQUENCE OF BATCHES (the writer thread's flushes, the last one
    through finalize) - every sequence of small batch sizes including empty ones, and single batches of every size up to 64 and
    around every power of two up to 16384 and around 100, 500, 1000, 5000, 10000. The file holds every message of every batch once, in order."""
    import contextlib
    import io
    import pyrtma
    from pyrtma.data_logger.formatters.raw import RawFormatter
    from pyrtma.data_logger.formatters.json import JsonFormatter
    from pyrtma.data_logger.formatters.quicklogger import QLFormatter
    from pyrtma.utils.quicklogger_reader import QLReader

    fmt, sizes = item
    fcls = {"raw": RawFormatter, "json": JsonFormatter, "quicklogger": QLFormatter}[fmt]
    need = sum(sizes)
    while len(_BULK) < need:
        _BULK.append(mk_msg(len(_BULK) + 1, (len(_BULK) + 1) % 3))
    d = core.scratch_dir("c17b")
    old_tmp = tempfile.tempdir
    tempfile.tempdir = d
    problems: List[Dict[str, Any]] = []
    try:
        path = os.path.join(d, "batch" + fcls.ext)
        want = _BULK[:need]
        with open(path, fcls.mode) as fd:
            f = fcls(fd)
            at = 0
            for k, n in enumerate(sizes):
                part = want[at:at + n]
                at += n
                (f.finalize if k == len(sizes) - 1 else f.write)(list(part))
            with contextlib.suppress(Exception):
                getattr(f, "data_tmp", None) and f.data_tmp.close()
        try:
            if fmt == "raw":
                got = _raw_ids(open(path, "rb").read())
                ok = open(path, "rb").read() == b"".join(bytes(m.header) + bytes(m.data) for m in want)
            elif fmt == "json":
                lines = open(path).read().splitlines()
                ok = lines == [m.to_json(minify=True) for m in want]
                got = []
                for ln in lines:
                    try:
                        got.append(json.loads(ln)["header"]["msg_count"])
                    except Exception:
                        got.append("?")
            else:
                rd = QLReader()
                with contextlib.redirect_stdout(io.StringIO()):
                    rd.load(path, os.path.join(os.path.dirname(pyrtma.__file__), "core_defs.py"), skip_unknown=False)
                ok = [(bytes(m.header), bytes(m.data)) for m in rd.messages] == [(bytes(m.header), bytes(m.data)) for m in want] and rd.file_header.num_messages == need
                got = [m.header.msg_count for m in rd.messages]
            if not ok:
                wrong = next((i for i, (a, b) in enumerate(zip(got, [m.header.msg_count for m in want])) if a != b), min(len(got), need))
                problems.append({"kind": "batch-content", "formatter": fmt, "batches": list(sizes), "messages_read": len(got), "first_difference_at": wrong})
        except Exception as e:
            problems.append({"kind": "batch-unreadable", "formatter": fmt, "batches": list(sizes), "exc": f"{type(e).__name__}: {str(e)[:140]}"})
    finally:
        tempfile.tempdir = old_tmp
        core.rmtree(d)
    return {"problems": problems}


def batch_items(tier: str):
    out = []
    big = sorted(set(range(0, 65)) | {(1 << k) + e for k in range(6, 15 if tier == "thorough" else 14) for e in (-1, 0, 1)}) + [n + e for n in (100, 500, 1000, 5000, 10000) for e in (-1, 0, 1)]
    for fmt in FORMATTERS:
        for seq in itertools.product((0, 1, 2, 3), repeat=3):
            out.append((fmt, seq))
        for n in big:
            out.append((fmt, (n, 0)))
            out.append((fmt, (1, n)))
    return out


def reader_sessions(_=None) -> Dict[str, Any]:
    """the read-back half of the statement for USER-defined types: quicklogger files (two segments of one recording and a file of
    a second recording) are written by the package's own formatter and then loaded one after the other - by one QLReader and by
    fresh ones - in a process whose own registry holds the core definitions only. Every load yields every message."""
    import contextlib
    import io
    import pyrtma
    import pyrtma.message as pm
    import pyrtma.context as pc
    import pyrtma.core_defs as cd
    from pyrtma.message import Message
    from pyrtma.header import MessageHeader
    from pyrtma.data_logger.formatters.quicklogger import QLFormatter
    from pyrtma.utils.quicklogger_reader import QLReader
    from .. import valx

    import copy

    problems: List[Dict[str, Any]] = []
    d = core.scratch_dir("c17r")
    defs0 = ctx0 = None
    old_tmp = tempfile.tempdir
    tempfile.tempdir = d
    n = 0
    try:
        mod = valx.load()
        defs0, ctx0 = pm._get_msg_defs(), copy.deepcopy(pc.get_context())
        valx.compile_defs(valx.yaml_text(), "rig_defs", d, python=True)  # the definitions file the reader is pointed at
        defs_path = os.path.join(d, "rig_defs.py")
        classes = [mod.MDF_VAL2, mod.MDF_VHD, mod.MDF_VAL3]
        files = []
        count = 0
        for fi, nmsgs in enumerate((3, 4, 2)):
            path = os.path.join(d, f"seg_{fi:04d}.bin")
            msgs = []
            with open(path, "wb") as fd:
                fmt = QLFormatter(fd)
                for k in range(nmsgs):
                    count += 1
                    data = classes[(fi + k) % len(classes)]()
                    h = MessageHeader()
                    h.msg_type, h.msg_count, h.send_time, h.src_mod_id = data.type_id, count, float(count), 12
                    h.num_data_bytes, h.version = data.type_size, data.type_hash
                    msgs.append(Message(h, data))
                fmt.write(msgs[:-1])
                fmt.finalize(msgs[-1:])
                with contextlib.suppress(Exception):
                    fmt.data_tmp.close()
            files.append((path, [(bytes(m.header), bytes(m.data)) for m in msgs]))
        # the reading process knows the core definitions only (what an offline analysis script starts with)
        core_ids = {v.type_id for v in vars(cd).values() if isinstance(v, type) and hasattr(v, "type_id")}
        pm._set_msg_defs({k: v for k, v in defs0.items() if k in core_ids})
        import copy

        ctx_core = copy.deepcopy(ctx0)
        for table, prefix in ((ctx_core.MDF, "MDF_"), (ctx_core.MT, "MT_"), (ctx_core.MID, "MID_"), (ctx_core.SDF, ""), (ctx_core.constants, ""), (ctx_core.typedefs, "")):
            for k in [k for k in table if not hasattr(cd, prefix + k)]:
                del table[k]
        pc._set_context(ctx_core)
        sys.modules.pop(os.path.splitext(os.path.basename(defs_path))[0], None)
        for session in ("one reader", "fresh readers", "one reader, files in reverse"):
            rd = QLReader()
            order = files if "reverse" not in session else files[::-1]
            for path, want in order + order[:1]:
                if session == "fresh readers":
                    rd = QLReader()
                n += 1
                try:
                    with contextlib.redirect_stdout(io.StringIO()):
                        rd.load(path, defs_path)
                    got = [(bytes(m.header), bytes(m.data)) for m in rd.messages]
                    if got != want or rd.skipped:
                        problems.append({"kind": "reader-session", "session": session, "file": os.path.basename(path), "read": len(got), "written": len(want), "skipped": rd.skipped})
                except Exception as e:
                    problems.append({"kind": "reader-session", "session": session, "file": os.path.basename(path), "exc": f"{type(e).__name__}: {str(e)[:140]}"})
    finally:
        if defs0 is not None:
            pm._set_msg_defs(defs0)
            pc._set_context(ctx0)
        tempfile.tempdir = old_tmp
        core.rmtree(d)
    return {"problems": problems, "loads": n}


def verify(res, handed, fmt, base) -> List[Dict[str, Any]]:
    import pyrtma.core_defs as cd

    problems = []
    for ds in res["sets"]:
        conf = res.get("configured", {}).get(ds.name)  # what the data set was asked to record (None = everything)
        want = [m for m in handed if conf is None or m.type_id in conf]
        d = base
        stem = "fileA" if ds.name == "dA" else "fileB"
        ext = ds.formatter_cls.ext
        files = sorted(f for f in os.listdir(d) if f.startswith(stem) and f.endswith(ext))
        # base file first, then _0001, _0002 ...
        files.sort(key=lambda f: (0 if f == stem + ext else int(f[len(stem) + 1:-len(ext)])))
        got_ids: List[int] = []
        try:
            if fmt == "raw":
                blob = b"".join(open(os.path.join(d, f), "rb").read() for f in files)
                exp = b"".join(bytes(m.header) + bytes(m.data) for m in want)
                if blob != exp:
                    got_ids = _raw_ids(blob)
                    problems.append({"kind": "file-content", "set": ds.name, "files": files, "want_ids": [m.header.msg_count for m in want], "got_ids": got_ids})
            elif fmt == "json":
                lines = []
                for f in files:
                    lines += open(os.path.join(d, f)).read().splitlines()
                exp = [m.to_json(minify=True) for m in want]
                if lines != exp:
                    for ln in lines:
                        try:
                            got_ids.append(json.loads(ln)["header"]["msg_count"])
                        except Exception:
                            got_ids.append("?")
                    problems.append({"kind": "file-content", "set": ds.name, "files": files, "want_ids": [m.header.msg_count for m in want], "got_ids": got_ids})
            else:
                from pyrtma.utils.quicklogger_reader import QLReader
                import pyrtma

                got = []
                for f in files:
                    rd = QLReader()
                    import contextlib
                    import io

                    with contextlib.redirect_stdout(io.StringIO()):
                        rd.load(os.path.join(d, f), os.path.join(os.path.dirname(pyrtma.__file__), "core_defs.py"), skip_unknown=False)
                    got += [(bytes(m.header), bytes(m.data)) for m in rd.messages]
                    if rd.file_header.num_messages != len(rd.messages):
                        problems.append({"kind": "ql-header-count", "file": f})
                exp = [(bytes(m.header), bytes(m.data)) for m in want]
                if got != exp:
                    import struct

                    got_ids = [struct.unpack_from("<i", h, 4)[0] for h, _ in got]
                    problems.append({"kind": "file-content", "set": ds.name, "files": files, "want_ids": [m.header.msg_count for m in want], "got_ids": got_ids})
        except Exception as e:
            problems.append({"kind": "file-unreadable", "set": ds.name, "exc": f"{type(e).__name__}: {str(e)[:160]}", "files": files})
    return problems


def _raw_ids(blob: bytes) -> List[Any]:
    import struct

    out = []
    i = 0
    while i + 48 <= len(blob):
        mt, cnt = struct.unpack_from("<ii", blob, i)
        nb = struct.unpack_from("<i", blob, i + 32)[0]
        out.append(cnt)
        i += 48 + max(0, nb)
    return out


# ---- exploration ----------------------------------------------------------------------------------------

def explore_g1(case, cap: int) -> Dict[str, Any]:
    """all interleavings at G1 granularity: depth-first, an alternative is expanded once per (state, alternative)"""
    expanded = set()
    stack: List[List[int]] = [[]]
    nexec = 0
    problems = []
    states = set()
    outcomes = set()
    switches = 0
    capped = False
    while stack:
        prefix = stack.pop()
        r = execute(case, prefix, False)
        nexec += 1
        if r["problems"]:
            for p in r["problems"]:
                problems.append((p, list(r["choices"])))
            outcomes.add("bad:" + r["problems"][0]["kind"])
        else:
            outcomes.add("ok")
        pts = r["points"]
        switches += sum(1 for c in r["choices"] if c)
        for i in range(len(prefix), len(pts)):
            nen, me_en, st, label = pts[i]
            states.add(st)
            for alt in range(1, nen):
                key = (st, alt)
                if key in expanded:
                    continue
                expanded.add(key)
                stack.append(list(r["choices"][:i]) + [alt])
        if nexec >= cap:
            capped = bool(stack)
            break
        if len(problems) > 20:
            break
    return {"execs": nexec, "states": len(states), "problems": problems, "capped": capped, "outcomes": sorted(outcomes), "switches": switches}


def explore_g2(case, bound: int, cap: int) -> Dict[str, Any]:
    """line-level interleavings with at most `bound` preemptions"""
    stack: List[Tuple[List[int], int]] = [([], 0)]
    nexec = 0
    problems = []
    capped = False
    npoints = 0
    while stack:
        prefix, used = stack.pop()
        r = execute(case, prefix, True)
        nexec += 1
        npoints = max(npoints, len(r["points"]))
        for p in r["problems"]:
            problems.append((p, list(r["choices"])))
        pre = used
        pts = r["points"]
        for i in range(len(prefix), len(pts)):
            nen, me_en, st, label = pts[i]
            for alt in range(1, nen):
                cost = pre + (1 if me_en else 0)
                if cost <= bound:
                    stack.append((list(r["choices"][:i]) + [alt], cost))
        if nexec >= cap:
            capped = bool(stack)
            break
        if len(problems) > 20:
            break
    return {"execs": nexec, "problems": problems, "capped": capped, "points": npoints}


def work(item) -> Dict[str, Any]:
    mode, case, a, b = item
    if mode == "g1":
        r = explore_g1(case, a)
    else:
        r = explore_g2(case, a, b)
    r["case"] = case
    r["mode"] = mode
    return r


def scripts(n: int) -> List[Tuple[str, ...]]:
    out = [()]
    for k in range(1, n + 1):
        for ops in itertools.product(OPS, repeat=k):
            # resume without pause / pause twice add nothing new
            if "resume" in ops and "pause" not in ops[:ops.index("resume")]:
                continue
            if ops.count("restart") > 1 or (ops and ops[-1] == "restart" and len(ops) > 1 and ops[-2] == "restart"):
                continue
            out.append(ops)
    return out


HOT2 = [("flush", "flush"), ("flush", "early"), ("flush", "restart"), ("restart", "flush"), ("subdiv", "early"), ("flush", "none"), ("early", "restart"),
        ("subdiv", "subdiv"), ("flush", "pause")]
HOT3 = [("flush", "restart", "flush"), ("early", "restart", "subdiv"), ("flush", "flush", "early"), ("subdiv", "restart", "subdiv"), ("flush", "pause", "resume"),
        ("early", "flush", "early"), ("pause", "flush", "resume"), ("restart", "flush", "flush"), ("flush", "early", "restart"),
        # messages that are still waiting for their first flush when the recording is paused and resumed
        ("early", "pause", "resume"), ("early", "pause", "early")]


def plan(tier: str):
    items = []
    combos = [(c, f) for c in CONFIGS for f in FORMATTERS]
    k = 0
    if tier == "quick":
        for ops in scripts(1):
            for config, fmt in combos:
                items.append(("g1", (ops, config, fmt), 3000, 0))
        for ops in scripts(2):
            if len(ops) < 2:
                continue
            k += 1
            chosen = combos[k % 4::4] if ops in HOT2 else [combos[k % len(combos)]]
            for config, fmt in chosen:
                items.append(("g1", (ops, config, fmt), 3000, 0))
        for ops in HOT3:
            k += 1
            for config, fmt in combos[k % 6::6]:
                items.append(("g1", (ops, config, fmt), 3000, 0))
        # a second recording in which one data set is still idle (its types have not come yet) when the first flush fires
        for ops in (("early", "restart", "flush"), ("early", "restart", "subdiv"), ("early", "early", "restart", "flush"), ("flush", "early", "restart", "none"),
                    ("early", "restart", "early", "flush")):
            for config, fmt in combos:
                if config.startswith("two") and ("g1", (ops, config, fmt), 3000, 0) not in items:
                    items.append(("g1", (ops, config, fmt), 3000, 0))
        # a flush that carries nothing for a data set between two that do (a pause in the traffic; types the set does not take)
        for ops in (("flush", "none", "early"), ("flush", "none", "flush"), ("flush", "flush", "flush")):
            for config, fmt in combos:
                if config in ("all", "two") and ("g1", (ops, config, fmt), 3000, 0) not in items:
                    items.append(("g1", (ops, config, fmt), 3000, 0))
    else:
        for ops in scripts(4):
            triggers = sum(1 for o in ops if o in ("flush", "subdiv", "none", "restart"))
            if len(ops) <= 2:
                chosen = combos
            elif not triggers and not ("pause" in ops and ops[0] == "early"):
                continue
            else:
                k += 1
                chosen = combos[k % 3::3] if len(ops) == 3 else [combos[k % len(combos)]]
            for config, fmt in chosen:
                items.append(("g1", (ops, config, fmt), 40000, 0))
    # line level, bounded preemptions: scripts with a write pending at stop or at a second trigger
    hot = [("flush",), ("flush", "flush"), ("flush", "early"), ("subdiv", "early"), ("flush", "none")]
    for ops in hot:
        for config, fmt in (("all", "raw"), ("two+subdiv", "quicklogger"), ("all+subdiv", "json")):
            if tier == "quick":
                if (config, fmt) == ("all", "raw") or ops in (("flush", "flush"),):
                    items.append(("g2", (ops, config, fmt), 1, 2000))
            else:
                items.append(("g2", (ops, config, fmt), 2, 20000))
    if tier == "thorough":
        items.append(("g2", (("flush", "flush"), "all", "raw"), 3, 150000))
        items.append(("g2", (("flush", "restart", "flush"), "all", "raw"), 2, 60000))
        for ops in scripts(2):
            items.append(("g2", (ops, "two", "raw"), 1, 20000))
    return items


def run(tier: str) -> int:
    chk = core.Check("C17", tier, "model_checking",
                     "driver scripts (operation sequences x data-set configuration x formatter) executed on the real DataCollection with its "
                     "writer thread under a controlled scheduler: G1 = every interleaving at synchronisation / method-boundary granularity "
                     "(DFS with state-hash pruning: states = distinct (thread positions, shared state) hashes, transitions = executed "
                     "schedules); G2 = line-level interleavings with bounded preemptions. Files read back and compared with the hand-over "
                     "sequence.")
    # determinism self-test: one recorded schedule replayed twice must give identical observations
    probe_case = (("flush", "early"), "two", "raw")
    first = execute(probe_case, [], False)
    i = next(k for k, p in enumerate(first["points"]) if p[0] > 1 and k > 3)
    a = execute(probe_case, list(first["choices"][:i]) + [1], False)
    b = execute(probe_case, a["choices"], False)
    if a["choices"] != b["choices"] or [p[3] for p in a["points"]] != [p[3] for p in b["points"]] or a["problems"] != b["problems"]:
        raise core.HarnessError("controlled scheduler is not deterministic: replay of a recorded schedule diverged")
    items = plan(tier)
    # long explorations first (better packing on the pool); the set of items does not depend on the seed
    items = sorted(core.shuffled(items, "c17"), key=lambda it: (it[0] != "g2", -len(it[1][0]), it[1][2] != "quicklogger"))
    res = core.pmap(work, items)
    core.close_pool()
    execs = states = 0
    outcomes = set()
    nswitch = 0
    for r in res:
        execs += r["execs"]
        states += r.get("states", 0)
        nswitch += r.get("switches", 0)
        for o in r.get("outcomes", []):
            outcomes.add(o)
        if r["capped"]:
            chk.capped(f"{r['mode']} exploration of {r['case']} stopped at its execution cap ({r['execs']})")
        for p, choices in r["problems"]:
            ops, config, fmt = r["case"]
            chk.violation(f"C17:{p['kind']}:{r['mode']}", f"{p} in script {list(ops)} config={config} formatter={fmt} schedule={_compact(choices)}",
                          {"module": "vf.checks.c17", "case": [list(ops), config, fmt], "choices": choices, "line_level": r["mode"] == "g2"},
                          size=len(ops) * 1000 + sum(1 for c in choices if c) * 10 + len(choices) // 50)
    bitems = batch_items(tier)
    for (fmt, sizes), r in zip(bitems, core.pmap(batch_case, bitems)):
        execs += 1
        for p in r["problems"]:
            chk.violation(f"C17:{p['kind']}:{fmt}", f"{p}", {"module": "vf.checks.c17", "batch": [fmt, list(sizes)]}, size=sum(sizes) + len(sizes))
    chk.count("formatter_batch_sequences", len(bitems))
    core.close_pool()
    rs = reader_sessions()
    execs += rs["loads"]
    chk.count("reader_loads", rs["loads"])
    for p in rs["problems"]:
        chk.violation(f"C17:{p['kind']}:{p['session']}", f"{p}", {"module": "vf.checks.c17", "reader_sessions": True}, size=1)
    chk.count("driver_cases", len(items))
    chk.count("context_switches_explored", nswitch)
    chk.sample({"script": ["start", "flush", "early", "stop"], "config": "two", "formatter": "raw", "schedule_prefix": [0, 0, 0, 1, 0, 1]})
    chk.sample({"script": list(items[-1][1][0]), "config": items[-1][1][1], "formatter": items[-1][1][2], "mode": items[-1][0]})
    chk.assumptions += ["CPython GIL: a source line is the finest interleaving unit (G2); timed waits fire only when every thread is blocked (stutter argument in DESIGN 3.4)",
                        "files live on /dev/shm; the package's own QLReader reads the quicklogger files back"]
    return chk.finish({"states": states, "transitions": execs, "traces_validated_against_impl": execs, "distinct_outcomes": sorted(outcomes)})


def _compact(ch):
    return [i for i, c in enumerate(ch) if c]


def replay(case) -> int:
    if case.get("reader_sessions"):
        r = reader_sessions()
        for p in r["problems"]:
            print("  PROBLEM:", p)
        print("reproduced" if r["problems"] else "NOT reproduced")
        return 1 if r["problems"] else 0
    if case.get("batch"):
        r = batch_case((case["batch"][0], tuple(case["batch"][1])))
        for p in r["problems"]:
            print("  PROBLEM:", p)
        print("reproduced" if r["problems"] else "NOT reproduced")
        return 1 if r["problems"] else 0
    ops, config, fmt = case["case"]
    c = (tuple(ops), config, fmt)
    r1 = execute(c, case["choices"], case.get("line_level", False))
    r2 = execute(c, case["choices"], case.get("line_level", False))
    if str(r1["problems"]) != str(r2["problems"]):
        print("HARNESS-ERROR: non-deterministic replay")
        return 2
    print(f"  script: start, {', '.join(ops)}, stop, close; config={config}; formatter={fmt}")
    sw = [(i, r1["points"][i][3]) for i, ch in enumerate(r1["choices"]) if ch]
    print("  context switches at points:", sw)
    for p in r1["problems"]:
        print("  PROBLEM:", p)
    print("reproduced" if r1["problems"] else "NOT reproduced")
    return 1 if r1["problems"] else 0
