"""C06 - module identity: unique ids, sound dynamic ids, options honoured.

Part A (vf.hub BFS, lock step with the reference hub): connection slots with the full connect
alphabet (CONNECT / CONNECT_V2 / CONNECT_V2+CONNECT x requested id x allow_multiple x name),
DISCONNECT and close; explored to a fixpoint (dynamic connects per history bounded). After every
connect the verdict (acknowledged with which id / refused and closed) is compared with an
independent reading of the statement, the invariant "no two connected modules share an id unless
both allow multiple" is evaluated on the manager's table, and CLIENT_INFO frames are compared with
the reference.
Part B: dynamic-id wrap: for every subset of the first three dynamic clients kept alive, > 100
further dynamic connect/disconnect cycles drive the cursor through its wrap.
Part C (real Client on the virtual network): Client.connect and client_context for every
combination of logger / daemon / allow_multiple x id {0, static} x name {"", given}: the frames
on the wire and the manager's CLIENT_INFO must carry the options exactly as named by the caller.
"""
from __future__ import annotations

import itertools
from typing import Any, Dict, List, Optional, Tuple

from .. import core, hub, lock, mmx, proto as P
from ..hub import HubConfig, ev_send

SLOTS = ["X", "Y", "Z"]
DYN0, DYNMAX = P.DYN_MOD_ID_START, P.MAX_MODULES


def requests(tier: str, slot: str) -> List[Tuple[str, int, int, bytes]]:
    """(protocol, requested id, allow_multiple, name)"""
    ids = [0, 10, 100, 101, -1] if tier == "quick" else [0, 1, 10, 99, 100, 101, 200, -1]
    names = [b"", b"x"] if tier == "quick" else [b"", b"x", b"y"]
    out = []
    if tier == "three":
        # three slots, small alphabet: shared ids x allow_multiple x shared names (order-dependent identity checks)
        return [("v2", 10, am, nm) for am in (0, 1) for nm in (b"", b"x")] + [("v2", 11, 1, b"x"), ("v2", 0, 0, b"x"), ("v2", 0, 1, b"x"), ("v1", 10, 0, b"")]
    if slot == "Z" and tier == "quick":
        return [("v2", 10, 1, b"x"), ("v2", 0, 0, b""), ("v1", 10, 0, b"")]
    for i in ids:
        out.append(("v1", i, 0, b""))
        for am in (0, 1):
            for nm in names:
                out.append(("v2", i, am, nm))
    out.append(("v21", 10, 0, b"x"))
    out.append(("v21", 0, 1, b""))
    out.append(("v2", 11, 0, b"message_manager"))
    return out


def _req_events(tc, slot, req) -> List[List]:
    proto, mid, am, name = req
    if proto == "v1":
        return [["conn", slot], ev_send(slot, P.mkframe(P.MT_CONNECT, P.p_connect(0, 0), timecode=tc, src_mod_id=mid))]
    data = P.mkframe(P.MT_CONNECT_V2, P.p_connect_v2(0, 0, am, mid, 700 + SLOTS.index(slot), name), timecode=tc, src_mod_id=max(mid, 0))
    if proto == "v21":
        data += P.mkframe(P.MT_CONNECT, P.p_connect(0, 0), timecode=tc, src_mod_id=max(mid, 0))
    return [["conn", slot], ev_send(slot, data)]


def _label(slot, req):
    return f"connect({slot},{req[0]},id={req[1]},am={req[2]},name={req[3].decode()})"


def _ops(cfg: HubConfig, info) -> List[Tuple[str, List[List]]]:
    live = {s for s, _ in info["live"]}
    present = set(info["present"])
    out = []
    for s in cfg.slots:
        if s not in present:
            for req in requests(cfg.tier, s):
                if req[1] == 0 and info["dyn"] >= cfg.max_dyn:
                    continue
                out.append((_label(s, req), _req_events(cfg.tc, s, req)))
        elif s in live:
            out.append((f"disconnect({s})", cfg.alpha.disconnect(s)))
            out.append((f"close({s})", cfg.alpha.close(s)))
        else:
            out.append((f"giveup({s})", cfg.alpha.close(s)))
    return out


def verdict(req, idents) -> str:
    """independent reading of the statement: 'accept' | 'refuse' | 'unspecified'"""
    proto, mid, am, name = req
    if mid == 0:
        return "accept"
    if mid < 0 or mid > DYN0:
        return "refuse"
    unique = (am == 0) if proto != "v1" else True
    nm = name.decode() if proto != "v1" else ""
    out = "accept"
    if mid == DYN0:
        out = "unspecified"
    others = [(0, True, "message_manager", True)] + [(i, u, n, c) for (_s, i, u, n, c) in idents]
    for oid, ouniq, oname, oconn in others:
        if oid == mid and oid != 0 and (ouniq or unique):
            return "refuse"
        if nm and oname == nm:
            if ouniq:
                return "refuse"  # explicit id + name of a unique module
            if unique:
                out = "unspecified"  # a unique newcomer taking the name of a non-unique module
    return out


def _post(cfg: HubConfig, info, label: str, env: lock.Env) -> List[Dict[str, Any]]:
    probs = []
    # invariant on the manager's own table
    dg = env.w.digest()
    if dg and dg[0] != "digest-unavailable":
        mods = [m for m in dg[0] if m[3]]  # connected
        for a, b in itertools.combinations(mods, 2):
            if a[1] == b[1] and (a[5] or b[5]):
                probs.append({"prop": "C06", "kind": "duplicate-id", "round": env.rounds, "mods": [list(a[:6]), list(b[:6])]})
    if not label.startswith("connect("):
        return probs
    slot = label[8:9]
    req = cfg.req_by_label[label]
    want = verdict(req, [t for t in info["idents"] if t[0] != slot])
    acks = [k for k in env.received[slot] if k[0] == "ack"]
    ic = env.w.clients[slot]
    closed_by_mgr = ic.sock.peer != "open"
    if want == "accept":
        if len(acks) != 1 or closed_by_mgr:
            probs.append({"prop": "C06", "kind": "wrongly-refused", "round": env.rounds, "slot": slot, "req": _j(req), "acks": [list(a) for a in acks]})
        elif req[1] != 0 and acks[0][1] != req[1]:
            probs.append({"prop": "C06", "kind": "ack-wrong-id", "round": env.rounds, "slot": slot, "req": _j(req), "ack": list(acks[0])})
        elif req[1] == 0:
            got = acks[0][1]
            held = [i for (s, i, u, n, c) in info["idents"] if s != slot and c]
            if not (DYN0 <= got < DYNMAX) or got in held:
                probs.append({"prop": "C06", "kind": "bad-dynamic-id", "round": env.rounds, "slot": slot, "id": got, "held": held})
    elif want == "refuse":
        if acks or not closed_by_mgr:
            probs.append({"prop": "C06", "kind": "wrongly-accepted", "round": env.rounds, "slot": slot, "req": _j(req),
                          "acks": [list(a) for a in acks], "closed": closed_by_mgr})
        # the incumbents are undisturbed: still registered, connection still open
        for (s, i, u, n, c) in info["idents"]:
            if s != slot and c and s in env.w.clients and env.w.clients[s].sock.peer != "open":
                probs.append({"prop": "C06", "kind": "incumbent-disturbed", "round": env.rounds, "slot": s})
    return probs


def _j(req):
    return [req[0], req[1], req[2], req[3].decode()]


def build(tier="quick", tc=False, flip=False, slots="XY", max_dyn=3) -> HubConfig:
    sl = list(slots) + ["M"]
    hv = list(range(1, len(sl) + 1))
    if flip:
        hv.reverse()
    ids = {s: (0, 0) for s in sl}
    ids["M"] = (90, 0)
    a = hub.Alphabet(tc, ids)
    init = a.connect_v1("M") + [["settle"]]
    for t in (P.MT_CLIENT_INFO, P.MT_CLIENT_CLOSED):
        init += a.ctl("M", P.MT_SUBSCRIBE, t)
    init += [["settle"]]
    cfg = HubConfig(name=f"identity-{tier}-tc{int(tc)}-flip{int(flip)}-{slots}-{max_dyn}", tc=tc, ids=ids, hids=dict(zip(sl, hv)),
                    init=init, ops=_ops, probes=False, pairs="none", nonwritable=0, props=("C06", "C03"))
    cfg.slots = list(slots)
    cfg.tier = tier
    cfg.max_dyn = max_dyn
    cfg.req_by_label = {_label(s, r): r for s in slots for r in requests(tier, s)}
    cfg.post = _post
    return cfg


def builder(**kw):
    return ("vf.checks.c06", "build", tuple(sorted(kw.items())))


# ---- part B: dynamic id wrap -------------------------------------------------------------------

def wrap_case(args) -> Dict[str, Any]:
    tc, keep, cycles = args
    mmx.fresh_gc()
    env = lock.Env(timecode=tc, fin_grace=0, hids={"M": 1})
    probs = []
    try:
        for ev in [["conn", "M"], ev_send("M", P.mkframe(P.MT_CONNECT, P.p_connect(), timecode=tc, src_mod_id=90)), ["settle"]]:
            env.apply(ev)
        held = {}
        n = 0

        def dyn_connect(slot):
            env.apply(["conn", slot])
            env.apply(ev_send(slot, P.mkframe(P.MT_CONNECT_V2, P.p_connect_v2(0, 0, 0, 0, 1, b""), timecode=tc)))
            env.settle()
            acks = [k for k in env.received[slot] if k[0] == "ack"]
            if len(acks) != 1:
                probs.append({"prop": "C06", "kind": "dynamic-connect-not-acked", "slot": slot, "n": n})
                return None
            got = acks[0][1]
            if not (DYN0 <= got < DYNMAX) or got in held.values():
                probs.append({"prop": "C06", "kind": "bad-dynamic-id", "id": got, "held": sorted(held.values()), "n": n})
            return got

        for i in range(max(3, max(keep, default=0) + 1)):
            s = f"K{i}"
            got = dyn_connect(s)
            if i in keep:
                held[s] = got
            else:
                env.apply(ev_send(s, P.mkframe(P.MT_DISCONNECT, timecode=tc)))
                env.settle()
                env.apply(["fin", s])
        seen = []
        for n in range(cycles):
            got = dyn_connect("C")
            seen.append(got)
            env.apply(ev_send("C", P.mkframe(P.MT_DISCONNECT, timecode=tc)))
            env.settle()
            env.apply(["fin", "C"])
            if env.dead or probs:
                break
        probs += [dict(p) for p in env.problems if p["prop"] in ("C06", "C03", "C19")]
    finally:
        env.close()
    return {"problems": probs, "distinct_ids": len(set(seen)), "rounds": env.rounds, "wrapped": len(seen) > len(set(seen))}


def crowd_case(args) -> Dict[str, Any]:
    """many connections that hold NO dynamic id (modules with ids of their own, sockets that never say CONNECT): a request for a
    dynamic id is served from the dynamic range, which is as good as empty"""
    tc, n_static, n_silent = args
    mmx.fresh_gc()
    env = lock.Env(timecode=tc, fin_grace=0, hids={"M": 1})
    probs = []
    try:
        for ev in [["conn", "M"], ev_send("M", P.mkframe(P.MT_CONNECT, P.p_connect(), timecode=tc, src_mod_id=90)), ["settle"]]:
            env.apply(ev)
        ids = [i for i in range(1, 100) if i != 90][:n_static]
        for k, mid in enumerate(ids):
            s = f"T{mid}"
            env.apply(["conn", s])
            env.apply(ev_send(s, P.mkframe(P.MT_CONNECT_V2, P.p_connect_v2(0, 0, 0, mid, 1, f"s{mid}".encode()), timecode=tc, src_mod_id=mid)))
            if k % 20 == 19:
                env.settle()
        for k in range(n_silent):
            env.apply(["conn", f"Q{k}"])
        env.settle()
        held = set()
        for k in range(3):
            s = f"D{k}"
            env.apply(["conn", s])
            env.apply(ev_send(s, P.mkframe(P.MT_CONNECT_V2, P.p_connect_v2(0, 0, 0, 0, 1, b""), timecode=tc)))
            env.settle()
            acks = [a for a in env.received[s] if a[0] == "ack"]
            if len(acks) != 1 or not (DYN0 <= acks[0][1] < DYNMAX) or acks[0][1] in held:
                probs.append({"prop": "C06", "kind": "dynamic-request-not-served", "static_modules": n_static, "silent_connections": n_silent, "request": k,
                              "acks": [list(a) for a in acks], "held": sorted(held)})
                break
            held.add(acks[0][1])
        probs += [dict(p) for p in env.problems if p["prop"] in ("C06", "C03", "C19")]
    finally:
        env.close()
    return {"problems": probs, "distinct_ids": 0, "rounds": env.rounds, "wrapped": True}


def late_identify_case(args) -> Dict[str, Any]:
    """connections are ACCEPTED in one order and identify themselves in another (a proxy opens its sockets first and sends the
    handshakes later): X's TCP connection is accepted first, Y is accepted and connects, only then X sends its own request for the
    same id / the same name. The verdict on X depends on who is connected now, not on where X sits in the manager's table."""
    tc, yreq, xreq, between = args
    mmx.fresh_gc()
    env = lock.Env(timecode=tc, fin_grace=0, hids={"M": 1, "X": 2, "Y": 3, "Z": 4})
    probs = []
    try:
        for ev in [["conn", "M"], ev_send("M", P.mkframe(P.MT_CONNECT, P.p_connect(), timecode=tc, src_mod_id=90)), ["settle"],
                   ev_send("M", P.mkframe(P.MT_SUBSCRIBE, P.p_sub(P.MT_CLIENT_INFO), timecode=tc, src_mod_id=90)), ["settle"]]:
            env.apply(ev)
        env.apply(["conn", "X"])
        env.settle()
        if between:
            env.apply(["conn", "Z"])
            env.settle()
        for ev in _req_events(tc, "Y", yreq) + [["settle"]]:
            env.apply(ev)
        if between:
            for ev in _req_events(tc, "Z", ("v2", 44, 0, b"zed"))[1:] + [["settle"]]:
                env.apply(ev)
        for ev in _req_events(tc, "X", xreq)[1:] + [["settle"]]:
            env.apply(ev)
        # the invariant on the manager's own table
        try:
            mods = [m for m in env.w.mgr.modules.values() if m.connected and m is not env.w.mgr.mm_module]
            for a_, b_ in itertools.combinations(mods, 2):
                if a_.mod_id == b_.mod_id and (a_.unique or b_.unique):
                    probs.append({"prop": "C06", "kind": "two-modules-share-an-id", "id": a_.mod_id, "unique": [a_.unique, b_.unique]})
        except Exception:
            pass
        probs += [dict(p) for p in env.problems if p["prop"] in ("C06", "C03", "C19")]
    finally:
        env.close()
    return {"problems": probs, "distinct_ids": 0, "rounds": env.rounds, "wrapped": True}


def order_case(args) -> Dict[str, Any]:
    """long-lived dynamic modules whose order in the manager's table is a given permutation of their id order (each one left and
    came back to its old id after a full turn of the cursor); then another full turn of connect/disconnect cycles: no newcomer is
    ever given an id a live module holds"""
    tc, perm, cycles = args
    mmx.fresh_gc()
    env = lock.Env(timecode=tc, fin_grace=0, hids={"M": 1})
    probs = []
    seen = []
    try:
        for ev in [["conn", "M"], ev_send("M", P.mkframe(P.MT_CONNECT, P.p_connect(), timecode=tc, src_mod_id=90)), ["settle"]]:
            env.apply(ev)
        held: Dict[str, int] = {}
        serial = [0]

        def dyn_connect():
            serial[0] += 1
            slot = f"S{serial[0]}"
            env.apply(["conn", slot])
            env.apply(ev_send(slot, P.mkframe(P.MT_CONNECT_V2, P.p_connect_v2(0, 0, 0, 0, 1, b""), timecode=tc)))
            env.settle()
            acks = [k for k in env.received[slot] if k[0] == "ack"]
            if len(acks) != 1:
                probs.append({"prop": "C06", "kind": "dynamic-connect-not-acked", "slot": slot, "n": serial[0]})
                return slot, None
            got = acks[0][1]
            if not (DYN0 <= got < DYNMAX) or got in held.values():
                probs.append({"prop": "C06", "kind": "bad-dynamic-id", "id": got, "held": sorted(held.values()), "table_order": list(held.values()), "n": serial[0]})
            return slot, got

        def leave(slot):
            env.apply(ev_send(slot, P.mkframe(P.MT_DISCONNECT, timecode=tc)))
            env.settle()
            env.apply(["fin", slot])

        for _ in perm:
            slot, got = dyn_connect()
            held[slot] = got
        ids = sorted(held.values())
        for i in perm:
            target = ids[i]
            old = [s for s, v in held.items() if v == target][0]
            leave(old)
            del held[old]
            for _ in range(cycles):
                slot, got = dyn_connect()
                if got == target:
                    held[slot] = got
                    break
                leave(slot)
                if env.dead or probs:
                    break
            else:
                probs.append({"prop": "C06", "kind": "id-never-offered-again", "id": target})
            if env.dead or probs:
                break
        for _ in range(cycles if not probs else 0):
            slot, got = dyn_connect()
            seen.append(got)
            leave(slot)
            if env.dead or probs:
                break
        probs += [dict(p) for p in env.problems if p["prop"] in ("C06", "C03", "C19")]
    finally:
        env.close()
    return {"problems": probs, "distinct_ids": len(set(seen)), "rounds": env.rounds, "wrapped": len(seen) > len(set(seen))}


# ---- part C: public entry points -------------------------------------------------------------------

def entry_case(args) -> Dict[str, Any]:
    entry, mid, name, lg, dm, am, tc = args
    from .. import clx
    import pyrtma.client as C
    import pyrtma.core_defs as cd

    if name == "" and mid != 0:
        listed = [k[4:] for k, v in vars(cd).items() if k.startswith("MID_") and v == mid]
        name_expected = listed[0] if listed else ""
    else:
        name_expected = name

    mmx.fresh_gc()
    w = clx.ClientWorld(timecode=tc)
    probs = []
    try:
        m = w.client("M", 1).connect()
        w.settle()
        m.send(P.mkframe(P.MT_CONNECT, P.p_connect(), timecode=tc, src_mod_id=90)
               + P.mkframe(P.MT_SUBSCRIBE, P.p_sub(P.MT_CLIENT_INFO), timecode=tc, src_mod_id=90))
        w.settle()
        m.drain()
        n0 = len(m.inbox)
        ctx = None
        if entry == "connect":
            c = w.new_client(module_id=mid, timecode=tc, name=name)
            c.connect(mmx.SERVER, logger_status=lg, daemon_status=dm, allow_multiple=am)
        elif entry == "connect-positional":
            c = w.new_client(mid, 0, tc, name)
            c.connect(mmx.SERVER, lg, dm, am)
        elif entry == "connect-again":
            # the same object is already connected to this manager with the default options, then connect() is called with others
            c = w.new_client(module_id=mid, timecode=tc, name=name)
            c.connect(mmx.SERVER)
            w.settle()
            m.drain()
            n0 = len(m.inbox)
            c.connect(mmx.SERVER, logger_status=lg, daemon_status=dm, allow_multiple=am)
        else:
            if dm:
                return {"problems": [], "skipped": True}
            ctx = C.client_context(module_id=mid, server_name=mmx.SERVER, timecode=tc, logger_status=lg, allow_multiple=am, name=name)
            c = ctx.__enter__()
            clx.quiet(c)
            w.real_clients.append(c)
        w.settle()
        if entry == "connect-again":
            # judged at the manager only (whether the library re-announces itself or keeps the connection is its own business)
            mods = [mm for mm in w.mgr.modules.values() if mm.connected and mm is not w.mgr.mm_module and mm.mod_id == c.module_id]
            if len(mods) != 1:
                probs.append({"prop": "C06", "kind": "not-connected-after-second-connect", "entry": entry, "modules": len(mods)})
            else:
                got = (mods[0].name, int(mods[0].is_logger), int(mods[0].unique), int(mods[0].is_daemon))
                want = (name_expected, int(lg), int(not am), int(dm))
                if got != want:
                    probs.append({"prop": "C06", "kind": "options-at-manager", "entry": entry, "want": list(want), "got": list(got)})
            return {"problems": probs, "skipped": False}
        frames = w.sent_frames(c)
        v2 = [f for f in frames if f.msg_type == P.MT_CONNECT_V2]
        v1 = [f for f in frames if f.msg_type == P.MT_CONNECT]
        if len(v2) != 1 or len(v1) != 1:
            probs.append({"prop": "C06", "kind": "handshake-frames", "got": [f.msg_type for f in frames]})
        else:
            f_lg, f_dm, f_am, f_mid, f_pid, f_name = P.P_CONNECT_V2.unpack(v2[0].payload)
            want = (int(lg), int(dm), int(am), mid, name_expected)
            got = (f_lg, f_dm, f_am, f_mid, P.cname(f_name))
            if got != want:
                probs.append({"prop": "C06", "kind": "options-on-wire", "entry": entry, "want": list(want), "got": list(got)})
            g_lg, g_dm = P.P_CONNECT.unpack(v1[0].payload)
            if (g_lg, g_dm) != (int(lg), int(dm)):
                probs.append({"prop": "C06", "kind": "options-on-wire-v1", "entry": entry, "want": [int(lg), int(dm)], "got": [g_lg, g_dm]})
        m.drain()
        infos = [P.normalize(f) for f in m.inbox[n0:]]
        infos = [k for k in infos if k[0] == "info"]
        if not infos:
            probs.append({"prop": "C06", "kind": "no-client-info", "entry": entry})
        else:
            k = infos[0]
            exp_id = mid if mid else c.module_id
            if (k[1], k[2], k[3], k[4]) != (exp_id, name_expected, int(lg), int(not am)):
                probs.append({"prop": "C06", "kind": "options-at-manager", "entry": entry,
                              "want": [exp_id, name_expected, int(lg), int(not am)], "got": list(k[1:5])})
            if mid == 0 and not (DYN0 <= c.module_id < DYNMAX):
                probs.append({"prop": "C06", "kind": "client-did-not-learn-dynamic-id", "got": c.module_id})
        # daemon flag is only visible in the manager's own table
        try:
            mods = [mm for mm in w.mgr.modules.values() if mm.mod_id == c.module_id and mm.connected and mm is not w.mgr.mm_module]
            if len(mods) == 1 and bool(mods[0].is_daemon) != bool(dm):
                probs.append({"prop": "C06", "kind": "daemon-at-manager", "entry": entry, "want": bool(dm), "got": bool(mods[0].is_daemon)})
        except Exception:
            pass
        if ctx is not None:
            try:
                ctx.__exit__(None, None, None)
            except Exception:
                pass
            w.settle()
    finally:
        w.stop()
    return {"problems": probs, "skipped": False}


def reconnect_case(args) -> Dict[str, Any]:
    """dynamic-id clients lose their connection (no disconnect()) and the SAME objects connect again: each must again ask
    for id 0 on the wire, be given a dynamic id no live module holds and learn it from the acknowledgement"""
    tc, nclients, how = args
    from .. import clx
    import pyrtma.client as C

    mmx.fresh_gc()
    w = clx.ClientWorld(timecode=tc)
    probs = []
    try:
        cs = []
        for i in range(nclients):
            c = w.new_client(module_id=0, timecode=tc, name=f"d{i}")
            c.connect(mmx.SERVER)
            cs.append(c)
        w.settle()
        first = [c.module_id for c in cs]
        # the manager side of every connection goes away (restart / network loss); the clients notice on their next read
        for c in cs:
            # the network drops the connection: both ends see a reset / an end of stream (neither socket object is closed by us)
            cs_, ms = c._sock, c._sock.peer_sock
            for end in (cs_, ms):
                end.peer = "rst" if how == "rst" else "fin"
                end.err = how == "rst"
        for c in cs:
            try:
                c.read_message(timeout=0)
            except C.ConnectionLost:
                pass
            except Exception as e:
                probs.append({"prop": "C06", "kind": "loss-not-reported", "exc": type(e).__name__})
        # the manager forgets them as well (it reads EOF from the closed sockets)
        w.settle()
        held = set()
        for i, c in enumerate(cs):
            try:
                c.connect(mmx.SERVER)
            except Exception as e:
                probs.append({"prop": "C06", "kind": "reconnect-failed", "client": i, "exc": f"{type(e).__name__}: {str(e)[:100]}"})
                continue
            w.settle()
            fr = [f for f in w.sent_frames(c) if f.msg_type == P.MT_CONNECT_V2]
            if not fr or P.P_CONNECT_V2.unpack(fr[0].payload)[3] != 0:
                probs.append({"prop": "C06", "kind": "reconnect-asks-for-stale-id", "client": i, "requested": P.P_CONNECT_V2.unpack(fr[0].payload)[3] if fr else None})
            if not (DYN0 <= c.module_id < DYNMAX) or c.module_id in held:
                probs.append({"prop": "C06", "kind": "bad-dynamic-id", "client": i, "id": c.module_id, "held": sorted(held)})
            held.add(c.module_id)
        try:
            live = sorted(m.mod_id for m in w.mgr.modules.values() if m.connected and m is not w.mgr.mm_module)
            if live != sorted(held) and not probs:
                probs.append({"prop": "C06", "kind": "manager-table-differs", "manager": live, "clients": sorted(held)})
        except Exception:
            pass
    finally:
        w.stop()
    return {"problems": probs, "skipped": False}


INCUMBENTS = {  # kind -> (logger, allow_multiple, requested id, name)
    "module": (0, 0, 10, b"inc"), "logger": (1, 0, 10, b"inc"), "shared-logger": (1, 1, 10, b"inc"), "shared-module": (0, 1, 10, b"inc"), "dynamic": (0, 0, 0, b"inc"),
}


def newcomer_requests() -> List[Tuple[str, int, int, int, str]]:
    """(protocol, logger flag, allow_multiple, requested id, name): same id / same name / out of range, with and without the logger flag"""
    out = []
    for lg in (0, 1):
        out.append(("v1", lg, 0, 10, ""))
        for am in (0, 1):
            for nm in ("inc", "new"):
                out.append(("v2", lg, am, 10, nm))
        out.append(("v2", lg, 0, 11, "inc"))   # the incumbent's name under another id
        out.append(("v2", lg, 0, 150, "new"))  # outside the user range
        out.append(("v2", lg, 0, 0, "inc"))    # dynamic id, the incumbent's name
    return out


def incumbent_case(args) -> Dict[str, Any]:
    """a connected module (plain / logger / one of a shared id / dynamic) and a newcomer whose request is refused or accepted: in
    lock step with the reference; afterwards the incumbent is still described, served, acknowledged and - if it is a logger - copied
    on other modules' acknowledgements exactly as the reference says ("without disturbing the incumbent")"""
    tc, ikind, req, how = args
    lg, am, mid, name = INCUMBENTS[ikind]
    proto, nlg, nam, nmid, nname = req
    mmx.fresh_gc()
    env = lock.Env(timecode=tc, fin_grace=0, hids={"M": 1, "I": 2, "T": 3, "P": 4, "N": 5})
    probs: List[Dict[str, Any]] = []
    fr = lambda mt, payload=b"", **kw: P.mkframe(mt, payload, timecode=tc, **kw)
    try:
        ev = [["conn", "M"], ev_send("M", fr(P.MT_CONNECT, P.p_connect(), src_mod_id=90)), ["settle"]]
        for t in (P.MT_CLIENT_INFO, P.MT_CLIENT_CLOSED, P.MT_FAILED_MESSAGE):
            ev.append(ev_send("M", fr(P.MT_SUBSCRIBE, P.p_sub(t), src_mod_id=90)))
        ev += [["settle"], ["conn", "I"], ev_send("I", fr(P.MT_CONNECT_V2, P.p_connect_v2(lg, 0, am, mid, 701, name), src_mod_id=mid)), ["settle"]]
        for e in ev:
            env.apply(e)
        acks = [k for k in env.received["I"] if k[0] == "ack"]
        imid = acks[0][1] if acks else mid
        for e in [ev_send("I", fr(P.MT_SUBSCRIBE, P.p_sub(1001), src_mod_id=imid)), ["settle"],
                  ["conn", "T"], ev_send("T", fr(P.MT_CONNECT, P.p_connect(), src_mod_id=12)), ["settle"],
                  ["conn", "P"], ev_send("P", fr(P.MT_CONNECT, P.p_connect(), src_mod_id=21)), ["settle"]]:
            env.apply(e)
        # the newcomer
        env.apply(["conn", "N"])
        if proto == "v1":
            env.apply(ev_send("N", fr(P.MT_CONNECT, P.p_connect(nlg, 0), src_mod_id=nmid)))
        else:
            env.apply(ev_send("N", fr(P.MT_CONNECT_V2, P.p_connect_v2(nlg, 0, nam, nmid, 702, nname.encode()), src_mod_id=max(nmid, 0))))
        env.settle()
        if how == "leaves":
            env.apply(ev_send("N", fr(P.MT_DISCONNECT, src_mod_id=max(nmid, 0))))
            env.settle()
        env.apply(["fin", "N"])
        env.settle()
        # afterwards: a third module's request (copied to loggers), a publication, the incumbent's own request
        for e in [ev_send("T", fr(P.MT_SUBSCRIBE, P.p_sub(1003), src_mod_id=12)), ["settle"],
                  ev_send("P", fr(1001, b"still", src_mod_id=21) + fr(1001, b"to-id", src_mod_id=21, dest_mod_id=imid)), ["settle"],
                  ev_send("I", fr(P.MT_SUBSCRIBE, P.p_sub(1002), src_mod_id=imid)), ["settle"],
                  ev_send("P", fr(1002, b"new-sub", src_mod_id=21)), ["settle"]]:
            env.apply(e)
        for p in env.problems:
            if p.get("slot") in ("I", "M") or p["prop"] in ("C06", "C03"):
                q = dict(p)
                q["prop"] = "C06" if p["prop"] != "C03" else "C03"
                q["kind"] = "incumbent-disturbed:" + p["kind"] if p.get("slot") == "I" else p["kind"]
                probs.append(q)
    finally:
        env.close()
    return {"problems": probs, "skipped": False, "rounds": env.rounds}


def run_chunk(items):
    out = []
    for kind, args in items:
        if kind == "incumbent":
            out.append(incumbent_case(args))
            continue
        if kind == "wrap":
            out.append(wrap_case(args))
            continue
        if kind == "order":
            out.append(order_case(args))
            continue
        if kind == "crowd":
            out.append(crowd_case(args))
            continue
        if kind == "late":
            out.append(late_identify_case(args))
            continue
        if kind == "reconnect":
            out.append(reconnect_case(args))
            continue
        try:
            out.append(entry_case(args))
        except core.HarnessError:
            raise
        except Exception as e:
            # the real Client raises (MessageManagerNotFound, ConnectionLost, ...) when the manager has died under it
            import pyrtma.exceptions as X

            if isinstance(e, X.ClientError) or "manager" in str(e).lower():
                out.append({"problems": [{"prop": "C06", "kind": "entry-point-failed", "entry": args[0], "exc": f"{type(e).__name__}: {str(e)[:160]}"}], "skipped": False})
            else:
                raise
    return out


def run(tier: str) -> int:
    chk = core.Check("C06", tier, "model_checking",
                     "A: BFS to fixpoint over connect/disconnect histories of 2-3 connection slots with the full connect "
                     "alphabet (protocol x requested id x allow_multiple x name), every verdict compared with an independent "
                     "reading of the statement, duplicate-id invariant on every state, CLIENT_INFO compared with the reference "
                     "hub. B: dynamic-id wrap for every subset of kept-alive dynamic clients. C: real Client.connect / "
                     "client_context for every option combination: wire frames and CLIENT_INFO carry the options as named.")
    totals: Dict[str, int] = {}
    per_cfg = {}
    cfgs = [builder(tier=tier, slots="XY", max_dyn=3), builder(tier=tier, slots="XYZ" if tier == "thorough" else "XZ", tc=True, flip=True, max_dyn=2)]
    cfgs.append(builder(tier="three", slots="XYZ", max_dyn=2))
    if tier == "thorough":
        cfgs.append(builder(tier="quick", slots="XYZ", max_dyn=3))
    for b in cfgs:
        t = hub.bfs(b, chk)
        per_cfg[hub.get_cfg(b).name] = t
        for k, v in t.items():
            totals[k] = totals.get(k, 0) + v
    # B + C
    items = []
    for tc in ((False,) if tier == "quick" else (False, True)):
        for r in range(4):
            for keep in itertools.combinations(range(3), r):
                items.append(("wrap", (tc, keep, 105 if tier == "quick" else 230)))
        # longer runs of ids in use when the cursor comes round again
        for keep in ((0, 1, 2, 3, 4), (0, 2, 3, 4, 5, 6, 7), tuple(range(12))):
            items.append(("wrap", (tc, keep, 105 if tier == "quick" else 230)))
        yreqs = [("v2", 5, 0, b"n"), ("v2", 5, 1, b"n"), ("v2", 0, 0, b"n"), ("v1", 5, 0, b""), ("v21", 5, 1, b"")]
        xreqs = [("v2", 5, 0, b""), ("v2", 5, 1, b""), ("v2", 6, 0, b"n"), ("v2", 6, 1, b"n"), ("v1", 5, 0, b""), ("v2", 0, 0, b"n"), ("v21", 5, 1, b"n")]
        for yr in yreqs:
            for xr in xreqs:
                for between in (False, True):
                    items.append(("late", (tc, yr, xr, between)))
        for ns, nq in ((98, 0), (98, 5), (60, 60), (0, 130), (98, 130)):
            items.append(("crowd", (tc, ns, nq)))
        # the holders sit in the manager's table in every order relative to their ids
        for m in ((2, 3) if tier == "quick" else (2, 3, 4)):
            for perm in itertools.permutations(range(m)):
                items.append(("order", (tc, perm, 105)))
    for tc in ((False,) if tier == "quick" else (False, True)):
        for ncl in (1, 3):
            for how in ("rst", "fin"):
                items.append(("reconnect", (tc, ncl, how)))
    for tc in ((False,) if tier == "quick" else (False, True)):
        for ikind in INCUMBENTS:
            for req in newcomer_requests():
                for how in ("refused-or-stays", "leaves"):
                    items.append(("incumbent", (tc, ikind, req, how)))
    n_entry = 0
    for entry in ("connect", "connect-positional", "client_context", "connect-again"):
        for mid in (0, 33, 5):  # 5 is listed in the core module-id table (QUICK_LOGGER): an empty name is filled in from it, a given name is kept
            for name in ("", "n"):
                for lg, dm, am in itertools.product((False, True), repeat=3):
                    for tc in ((False,) if tier == "quick" else (False, True)):
                        items.append(("entry", (entry, mid, name, lg, dm, am, tc)))
                        n_entry += 1
    res = core.pmap(run_chunk, core.chunks(items, 4))
    core.close_pool()
    flat = [r for ch in res for r in ch]
    wraps = entries = 0
    for (kind, args), r in zip(items, flat):
        if r.get("skipped"):
            continue
        if kind == "incumbent":
            totals["incumbent_cases"] = totals.get("incumbent_cases", 0) + 1
            totals["transitions"] = totals.get("transitions", 0) + r.get("rounds", 0)
        elif kind in ("wrap", "order", "crowd", "late"):
            wraps += 1
            totals["transitions"] = totals.get("transitions", 0) + r["rounds"]
            if not r["wrapped"]:
                chk.note(f"wrap case {args} did not wrap (distinct ids {r['distinct_ids']})")
        else:
            entries += 1
        for p in r["problems"]:
            chk.violation(f"{p['prop']}:{p['kind']}:{p.get('entry', '')}", f"{kind} {args}: {p}",
                          {"module": "vf.checks.c06", "kind": kind, "args": list(args)}, size=len(str(args)))
    chk.merge_counts(totals)
    chk.count("wrap_cases", wraps)
    chk.count("entry_point_cases", entries)
    chk.sample({"connect_alphabet_X": [_j(r) for r in requests(tier, "X")][:10]})
    chk.sample({"entry_case": list(items[-1][1])})
    trans = totals.get("transitions", 0)
    chk.assumptions += ["virtual TCP model", "reference hub", "<= 3 connection slots; <= 3 dynamic connects per BFS history (wrap covered by part B)"]
    return chk.finish({"states": totals.get("states", 0) + wraps + entries, "transitions": trans + entries,
                       "traces_validated_against_impl": trans + entries, "per_config": per_cfg})


def replay(case) -> int:
    kind, args = case["kind"], case["args"]
    if kind == "incumbent":
        r = incumbent_case((args[0], args[1], tuple(args[2]), args[3]))
    elif kind == "reconnect":
        r = reconnect_case(tuple(args))
    elif kind == "crowd":
        r = crowd_case(tuple(args))
    elif kind == "late":
        fix = lambda q: (q[0], q[1], q[2], q[3].encode("latin-1") if isinstance(q[3], str) else bytes(q[3]))
        r = late_identify_case((args[0], fix(args[1]), fix(args[2]), args[3]))
    elif kind in ("wrap", "order"):
        args = (args[0], tuple(args[1]), args[2])
        r = wrap_case(args) if kind == "wrap" else order_case(args)
    else:
        r = entry_case(tuple(args))
    print(f"  {kind} {args}")
    for p in r["problems"]:
        print("  PROBLEM:", p)
    print("reproduced" if r["problems"] else "NOT reproduced")
    return 1 if r["problems"] else 0
