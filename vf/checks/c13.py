"""C13 - the version hash identifies the definition text, everywhere the same.

Engine DEFX + CLX. Enumerated: base messages with 0-3 fields over a 4-type alphabet; EVERY single
edit of each (message rename, id change, field rename, field retype, insertion at each position,
deletion of each field, every transposition, signal <-> message); EVERY relocation (root file,
imported file, sub-directory, other file name, other import order, comments / blank lines /
unrelated definitions around it, with / without the core import); separate processes with
different PYTHONHASHSEED and working directory; all four language outputs; the version field the
real Client puts on the wire for every generated class.

Oracle (metamorphic): equal (name, id, ordered (field, type text) list) => equal hash everywhere;
any single edit - thorough: any two edits of a base with <= 2 fields - that changes the (name, id, fields)
text => a different hash (all variants of one base pairwise distinct); Python
type_hash == C HASH_* == JS RTMA.HASH.* == MATLAB RTMA.hash.*; Client.send_message stamps
header.version == type_hash.
"""
from __future__ import annotations

import itertools
import warnings
import json
import os
import subprocess
import sys
from typing import Any, Dict, List, Optional, Tuple

from .. import core, defx

TYPES = ["int32", "double", "char[4]", "HS", "float[NCH]"]
SPELLINGS = ["int", "signed int", "long", "signed long", "unsigned", "unsigned int", "long long", "signed long long", "short", "signed short"]
CONSTS = {"NCH": 4, "NB": 3}
STRUCTS = {"HS": {"fields": {"u": "int16", "v": "int16"}}}
Fields = Tuple[Tuple[str, str], ...]


def bases() -> List[Fields]:
    out: List[Fields] = []
    for n in range(0, 4):
        for combo in itertools.product(TYPES, repeat=n):
            out.append(tuple((f"f{i}", t) for i, t in enumerate(combo)))
    return out


def edits(name: str, mid: int, fields: Fields) -> List[Tuple[str, str, int, Fields]]:
    """(label, name, id, fields) of every single edit"""
    out = []
    out.append(("rename", name + "X", mid, fields))
    out.append(("rename-case", name.lower() if name != name.lower() else name.upper(), mid, fields))
    out.append(("id", name, mid + 1, fields))
    # names are text: letters outside ASCII are letters like any other (two such renames are two different texts)
    out.append(("rename-nonascii-1", name + "É", mid, fields))
    out.append(("rename-nonascii-2", name + "Ü", mid, fields))
    n = len(fields)
    for i in range(n):
        fn, ft = fields[i]
        out.append((f"field-rename@{i}", name, mid, fields[:i] + ((fn + "x", ft),) + fields[i + 1:]))
        out.append((f"field-rename-nonascii-1@{i}", name, mid, fields[:i] + ((fn + "φ", ft),) + fields[i + 1:]))
        out.append((f"field-rename-nonascii-2@{i}", name, mid, fields[:i] + ((fn + "ψ", ft),) + fields[i + 1:]))
        # ... including the other spellings of one machine type (each spelling is a type text of its own)
        for t in TYPES + ["int32[2]", "uint32"] + SPELLINGS:
            if t != ft:
                out.append((f"retype@{i}:{t}", name, mid, fields[:i] + ((fn, t),) + fields[i + 1:]))
        out.append((f"delete@{i}", name, mid, fields[:i] + fields[i + 1:]))
    for i in range(n + 1):
        for t in TYPES:
            out.append((f"insert@{i}:{t}", name, mid, fields[:i] + (("g", t),) + fields[i:]))
        # a field the author calls what the compiler calls its own padding is a field like any other
        out.append((f"insert-padding-named@{i}", name, mid, fields[:i] + ((f"padding_{i}_", "int32"),) + fields[i:]))
    for i in range(n):
        out.append((f"field-rename-padding-named@{i}", name, mid, fields[:i] + ((f"padding_{i}_", fields[i][1]),) + fields[i + 1:]))
    for i, j in itertools.combinations(range(n), 2):
        if fields[i] != fields[j]:
            lst = list(fields)
            lst[i], lst[j] = lst[j], lst[i]
            out.append((f"swap@{i},{j}", name, mid, tuple(lst)))
    return out


def msg_section(name: str, mid: int, fields: Fields) -> Dict[str, Any]:
    return {name: {"id": mid, "fields": dict(fields) if fields else None}}


def hash_of(files: Dict[str, Any], name: str, d: str, root="root.yaml", **kw) -> str:
    for x in os.listdir(d):
        p = os.path.join(d, x)
        import shutil

        shutil.rmtree(p) if os.path.isdir(p) else os.remove(p)
    prog = defx.Program(files, root)
    rp = prog.write(d)
    p = defx.parse_model(rp, **kw)
    return p.message_defs[name].hash


COMMENT_TEXT = """# leading comment


# another comment: with a colon
message_defs:

  # comment inside the section
  UNRELATED_BEFORE:
    id: 3990
    fields:
      zz: double   # trailing comment

{body}

  UNRELATED_AFTER:
    id: 3991
    fields: null
# eof comment
"""


def _fields_first(name: str, mid: int, fields: Fields) -> str:
    """the same definition with `fields:` written before `id:` (YAML mappings are unordered for the author)"""
    out = ["message_defs:", f"  {name}:"]
    if fields:
        out.append("    fields:")
        out += [f"      {fn}: {ft}" for fn, ft in fields]
    else:
        out.append("    fields: null")
    out.append(f"    id: {mid}")
    return "\n".join(out) + "\n"


def relocations(name: str, mid: int, fields: Fields) -> List[Tuple[str, Dict[str, Any], str, Dict[str, Any]]]:
    sd = {"constants": CONSTS, "struct_defs": STRUCTS}
    md = msg_section(name, mid, fields)
    body = defx.render_file({"message_defs": md}).split("message_defs:\n", 1)[1].rstrip("\n")
    body = body.replace("\n", "\n\n")
    out = [
        ("root", {"root.yaml": {**sd, "message_defs": md}}, "root.yaml", {}),
        ("imported", {"root.yaml": {"imports": ["defs.yaml"]}, "defs.yaml": {**sd, "message_defs": md}}, "root.yaml", {}),
        ("subdir", {"root.yaml": {"imports": ["deep/er/defs.yaml"], "constants": {"K": 1}}, "deep/er/defs.yaml": {**sd, "message_defs": md}}, "root.yaml", {}),
        ("other-name", {"main_file.yaml": {"imports": ["zzz.yaml", "structs.yaml"], "message_defs": md}, "zzz.yaml": {"constants": {"Q": 2}}, "structs.yaml": sd}, "main_file.yaml", {}),
        ("import-order", {"root.yaml": {"imports": ["structs.yaml", "u.yaml", "defs.yaml"]}, "structs.yaml": sd, "u.yaml": {"message_defs": {"U1": {"id": 3980, "fields": None}}},
                          "defs.yaml": {"imports": ["structs.yaml"], "message_defs": md}}, "root.yaml", {}),
        ("comments", {"root.yaml": {"imports": ["structs.yaml", "c.yaml"]}, "structs.yaml": sd, "c.yaml": COMMENT_TEXT.format(body=body)}, "root.yaml", {}),
        ("fields-before-id", {"root.yaml": {"imports": ["structs.yaml", "k.yaml"]}, "structs.yaml": sd, "k.yaml": _fields_first(name, mid, fields)}, "root.yaml", {}),
        ("with-core", {"root.yaml": {**sd, "message_defs": md}}, "root.yaml", {"import_coredefs": True}),
        # the constants that field types mention live next to the message or in an imported file (only the TEXT of a type is hashed)
        ("constants-elsewhere", {"root.yaml": {"imports": ["k.yaml"], "struct_defs": STRUCTS, "message_defs": md}, "k.yaml": {"constants": CONSTS}}, "root.yaml", {}),
        ("message-elsewhere", {"root.yaml": {"imports": ["sub/m.yaml"], "constants": {"Q": 1}}, "sub/m.yaml": {"imports": ["../k.yaml"], "struct_defs": STRUCTS, "message_defs": md},
                               "k.yaml": {"constants": CONSTS}}, "root.yaml", {}),
        ("constants-other-values", {"root.yaml": {"constants": {"NCH": 9, "NB": 2}, "struct_defs": STRUCTS, "message_defs": md}}, "root.yaml", {}),
        # the struct used as a field type changes size and alignment: the message's own text (field names + type TEXTS) does not
        ("struct-edited-wider", {"root.yaml": {"constants": CONSTS, "struct_defs": {"HS": {"fields": {"u": "double", "v": "int16"}}}, "message_defs": md}}, "root.yaml", {}),
        ("struct-edited-narrower", {"root.yaml": {"constants": CONSTS, "struct_defs": {"HS": {"fields": {"u": "char"}}}, "message_defs": md}}, "root.yaml", {}),
        ("struct-is-alias", {"root.yaml": {"constants": CONSTS, "aliases": {"HS": "int64"}, "message_defs": md}}, "root.yaml", {}),
        ("no-autopad-validate", {"root.yaml": {**sd, "message_defs": md}}, "root.yaml", {"validate_alignment": False}),
    ]
    return out


def check_base(args) -> Dict[str, Any]:
    bi, fields, depth = args
    problems = []
    stats = {"parses": 0, "edits": 0, "relocations": 0, "double_edits": 0}
    name, mid = f"BASE{bi}", 3000 + bi
    d = core.scratch_dir("c13")
    try:
        kw = dict(import_coredefs=False)
        sd = {"constants": CONSTS, "struct_defs": STRUCTS}
        h0 = hash_of({"root.yaml": {**sd, "message_defs": msg_section(name, mid, fields)}}, name, d, **kw)
        stats["parses"] += 1
        # the map (name, id, ordered fields) <-> hash must be a bijection over everything reachable by 1 (and 2) edits
        by_spec = {(name, mid, fields): (h0, "base")}
        by_hash = {h0[:8]: ((name, mid, fields), "base")}
        level = [((name, mid, fields), "")]
        for dep in range(depth):
            nxt = []
            for (sn, si, sf), path in level:
                for label, n2, i2, f2 in edits(sn, si, sf):
                    lab = (path + " ; " if path else "") + label
                    spec = (n2, i2, f2)
                    if len({fn for fn, _ in f2}) != len(f2):
                        continue  # two fields of one name: not a definition
                    if spec in by_spec:
                        continue  # the same definition text reached another way: hashed once (determinism is checked elsewhere)
                    h = hash_of({"root.yaml": {**sd, "message_defs": msg_section(n2, i2, f2)}}, n2, d, **kw)
                    stats["parses"] += 1
                    stats["edits" if dep == 0 else "double_edits"] += 1
                    if h[:8] in by_hash:
                        problems.append({"kind": "edit-keeps-hash", "base": [name, mid, list(fields)], "edit": lab, "same_as": by_hash[h[:8]][1],
                                         "hash": h[:8], "depth": dep + 1})
                    by_spec[spec] = (h, lab)
                    by_hash.setdefault(h[:8], (spec, lab))
                    nxt.append((spec, lab))
            level = nxt
        for label, files, root, kw2 in relocations(name, mid, fields):
            k3 = dict(kw)
            k3.update(kw2)
            try:
                h = hash_of(files, name, d, root=root, **k3)
            except Exception as e:
                problems.append({"kind": "relocation-rejected", "where": label, "exc": f"{type(e).__name__}: {str(e)[:150]}", "base": [name, mid, list(fields)]})
                continue
            stats["parses"] += 1
            stats["relocations"] += 1
            if h != h0:
                problems.append({"kind": "relocation-changes-hash", "where": label, "base": [name, mid, list(fields)], "h0": h0[:8], "h": h[:8]})
    finally:
        core.rmtree(d)
    return {"problems": problems, "stats": stats, "hash": [name, h0[:8]]}


def reuse_cases(_=None) -> Dict[str, Any]:
    """field-list reuse: the hash must follow the (expanded) field list"""
    problems = []
    d = core.scratch_dir("c13r")
    try:
        kw = dict(import_coredefs=False)
        src1 = {"SRC": {"fields": {"a": "int32", "b": "double"}}}
        src2 = {"SRC": {"fields": {"a": "int32", "b": "double", "c": "int32", "p": "char[4]"}}}
        h_reuse1 = hash_of({"root.yaml": {"struct_defs": src1, "message_defs": {"RM": {"id": 3500, "fields": "SRC"}}}}, "RM", d, **kw)
        h_reuse2 = hash_of({"root.yaml": {"struct_defs": src2, "message_defs": {"RM": {"id": 3500, "fields": "SRC"}}}}, "RM", d, **kw)
        if h_reuse1 == h_reuse2:
            problems.append({"kind": "reuse-source-edit-keeps-hash", "message": "RM: {id: 3500, fields: SRC}", "edit": "field c: int32 appended to SRC", "hash": h_reuse1[:8]})
        # the reusing definition's OWN name and id are part of its text: renaming it or changing its id changes the hash, and it never
        # shares the hash of the definition it borrows from (struct or message)
        for src_kind in ("struct", "message"):
            srcsec = {"struct_defs": src1} if src_kind == "struct" else {"message_defs": {"SRC": {"id": 3499, "fields": {"a": "int32", "b": "double"}}}}

            def prog(name, mid):
                f = {k: dict(v) for k, v in srcsec.items()}
                f.setdefault("message_defs", {})
                f["message_defs"][name] = {"id": mid, "fields": "SRC"}
                return {"root.yaml": f}

            hb = hash_of(prog("RM", 3500), "RM", d, **kw)
            variants = {"rename": hash_of(prog("RMX", 3500), "RMX", d, **kw), "id": hash_of(prog("RM", 3501), "RM", d, **kw)}
            for label, h in variants.items():
                if h == hb:
                    problems.append({"kind": "edit-keeps-hash", "base": ["RM (fields: SRC, SRC a " + src_kind + ")", 3500, []], "edit": label, "same_as": "base", "hash": hb[:8], "depth": 1})
            if src_kind == "message":
                p = defx.parse_model(defx.Program(prog("RM", 3500)).write(d), **kw)
                if p.message_defs["RM"].hash == p.message_defs["SRC"].hash:
                    problems.append({"kind": "edit-keeps-hash", "base": ["RM (fields: SRC)", 3500, []], "edit": "another name and id than SRC", "same_as": "SRC", "hash": hb[:8], "depth": 1})
    finally:
        core.rmtree(d)
    return {"problems": problems, "stats": {"parses": 2}}


_SUB = r"""
import sys, json, os
sys.path.insert(0, %r)
os.chdir(%r)
from vf import defx
from vf.checks import c13
import contextlib, io
files = json.load(open(%r))
prog = defx.Program(files, 'root.yaml')
d = %r
rp = prog.write(d)
p = defx.parse_model(rp, import_coredefs=False)
print(json.dumps({k: v.hash for k, v in p.message_defs.items()}))
"""


def cross_process(bs: List[Fields], d: str) -> Tuple[List[Dict[str, Any]], int]:
    problems = []
    msgs = {}
    for bi, f in enumerate(bs):
        msgs.update(msg_section(f"BASE{bi}", 3000 + bi, f))
    files = {"root.yaml": defx.render_file({"constants": CONSTS, "struct_defs": STRUCTS, "message_defs": msgs})}
    spec = os.path.join(d, "files.json")
    with open(spec, "w") as fh:
        json.dump(files, fh)
    outs = []
    for seed, sub in (("1", "p1"), ("4242", "p2/deeper")):
        wd = os.path.join(d, sub)
        os.makedirs(wd, exist_ok=True)
        env = dict(os.environ, PYTHONHASHSEED=seed)
        r = subprocess.run([sys.executable, "-c", _SUB % (core.VERIF, wd, spec, os.path.join(wd, "src"))], capture_output=True, text=True, env=env)
        if r.returncode != 0:
            raise core.HarnessError("cross-process run failed: " + r.stderr[-500:])
        outs.append(json.loads(r.stdout.strip().splitlines()[-1]))
    if outs[0] != outs[1]:
        diff = [k for k in outs[0] if outs[0][k] != outs[1].get(k)]
        problems.append({"kind": "hash-differs-between-processes", "messages": diff[:5]})
    return problems, len(outs[0])


def _hex(v):
    try:
        return int(str(v), 16)
    except ValueError:
        return None


def cross_language(bs: List[Fields], d: str) -> Tuple[List[Dict[str, Any]], Dict[str, int]]:
    """one packed program through all four back ends (+ the parser)"""
    problems = []
    msgs = {}
    for bi, f in enumerate(bs):
        msgs.update(msg_section(f"BASE{bi}", 3000 + bi, f))
    # names of 47 / 48 / 49 / 60 characters (fixed-width formatting in the emitters)
    for L in (47, 48, 49, 60):
        nm = ("LONG_NAME_" + "X" * 80)[:L]
        msgs[nm] = {"id": 3800 + L, "fields": {"a": "int32"} if L % 2 else None}
    # names that contain the prefixes the emitters themselves use (hash_, MT_, MDF_, HASH_ ...), next to their shortened forms
    for k, nm in enumerate(("hash_config", "geohash_fix", "geofix", "config", "HASH_UPPER", "MT_THING", "THING", "MDF_OTHER", "OTHER", "mt_lower", "lower",
                            "mid_point", "point", "defines_x", "x_hash_")):
        msgs[nm] = {"id": 3700 + k, "fields": {"a": "int32"} if k % 2 else None}
    # messages that embed other messages (directly, as an array, through a chain): the hash is that of the embedding definition's
    # own text in every output
    if len(bs) > 6:
        msgs["EMBED1"] = {"id": 3900, "fields": {"inner": "BASE1", "n": "int32"}}
        msgs["EMBED2"] = {"id": 3901, "fields": {"e": "EMBED1", "arr": "BASE6[2]", "h": "HS"}}
        msgs["EMBED3"] = {"id": 3902, "fields": {"deep": "EMBED2"}}
    # (the root file also lists two core files itself, as older projects do: a second mention of a file already read changes nothing)
    import pyrtma as _pk

    cdir = os.path.join(os.path.dirname(os.path.abspath(_pk.__file__)), "core_defs")
    prog = defx.Program({"root.yaml": {"imports": [os.path.join(cdir, "data_logger.yaml"), os.path.join(cdir, "core_defs.yaml")],
                                       "constants": CONSTS, "struct_defs": STRUCTS, "message_defs": msgs}})
    try:
        paths = defx.compile_program(prog, d, name="hashes")
    except Exception as e:
        return [{"kind": "packed-program-rejected", "exc": f"{type(e).__name__}: {str(e)[:200]}"}], {"hash_comparisons": 0, "messages": len(msgs), "pyfile": None}
    p = defx.parse_model(paths["root"])
    want = {n: int(m.hash[:8], 16) for n, m in p.message_defs.items()}
    got = {}
    # the Python output of the core definitions that ships inside the package (Client, manager and web manager build their own
    # messages from it) carries the hashes of the core definition file as it is now
    import pyrtma.core_defs as shipped

    nshipped = 0
    for name, m in p.message_defs.items():
        if name not in msgs:
            cls = getattr(shipped, "MDF_" + name, None)
            nshipped += 1
            if cls is None or cls.type_hash != want[name]:
                problems.append({"kind": "shipped-core-output-differs", "message": name, "parser": hex(want[name]),
                                 "shipped": hex(cls.type_hash) if cls is not None else None})
    loaders = {
        "python": lambda: {n: dd["hash"] for n, dd in defx.sig_python(paths["python"])["defs"].items() if dd["msg"]},
        "c": lambda: {k[5:]: _hex(v) for k, v in defx.sig_c(paths["c_lang"], d, defx.core_header(d))["defines"].items() if k.startswith("HASH_")},
        "js": lambda: {k: int(v, 16) for k, v in (defx.sig_js([paths["javascript"]], d)[paths["javascript"]].get("HASH") or {}).items()},
        "matlab": lambda: {k: int(v, 16) for k, v in (defx.run_matlab(paths["matlab"])["RTMA"].get("hash") or {}).items() if isinstance(v, str)},
    }
    for lang, load in loaders.items():
        try:
            got[lang] = load()
        except core.HarnessError:
            raise
        except BaseException as e:
            problems.append({"kind": "output-unreadable", "lang": lang, "exc": f"{type(e).__name__}: {str(e)[:160]}"})
            got[lang] = None
    n = 0
    for lang, table in got.items():
        if table is None:
            continue
        for name, h in want.items():
            if name not in msgs and lang == "c":
                continue  # the C back end omits core items by design (core = everything this program did not define itself)
            key = name.lstrip("_0123456789") if lang == "matlab" else name
            n += 1
            if table.get(key) != h:
                problems.append({"kind": "hash-differs-between-outputs", "lang": lang, "message": name, "parser": hex(h),
                                     "got": hex(table[key]) if table.get(key) is not None else None})
    return problems, {"hash_comparisons": n, "messages": len(want), "pyfile": paths["python"]}


def rebuild_hashes(d: str) -> Tuple[List[Dict[str, Any]], int]:
    """a closure is built, then ONLY an imported file is edited (field rename / retype / id change; the root file keeps its text
    and its time stamp) and the closure is built again into the same directory: the hash in every output is the new one"""
    from .. import valx

    problems = []
    n = 0
    edits_ = {"field-rename": {"a": "int32", "c": "double"}, "field-retype": {"a": "int32", "b": "float"}, "field-added": {"a": "int32", "b": "double", "z": "int32"},
              "fields-swapped": {"b": "double", "a": "int32"}}
    for label, fields2 in edits_.items():
        wd = os.path.join(d, "rb_" + label)
        v1 = defx.Program({"root.yaml": {"imports": ["sub/defs.yaml"], "message_defs": {"ROOTMSG": {"id": 3901, "fields": {"q": "int32"}}}},
                           "sub/defs.yaml": {"struct_defs": STRUCTS, "message_defs": {"MOVED": {"id": 3900, "fields": {"a": "int32", "b": "double"}}}}})
        paths = defx.compile_program(v1, wd, name="gen")
        h1 = defx.parse_model(paths["root"], import_coredefs=False).message_defs["MOVED"].hash
        with open(os.path.join(wd, "src", "sub", "defs.yaml"), "w") as fh:
            fh.write(defx.render_file({"struct_defs": STRUCTS, "message_defs": {"MOVED": {"id": 3900, "fields": fields2}}}))
        try:
            valx.compile_file(paths["root"], "gen", os.path.join(wd, "gen"), python=True, c_lang=True, javascript=True, matlab=True)
        except Exception as e:
            problems.append({"kind": "rebuild-rejected", "edit": label, "exc": f"{type(e).__name__}: {str(e)[:160]}"})
            continue
        h2 = defx.parse_model(paths["root"], import_coredefs=False).message_defs["MOVED"].hash
        if h2 == h1:
            problems.append({"kind": "edit-keeps-hash", "base": ["MOVED", 3900, []], "edit": label, "same_as": "base", "hash": h1[:8], "depth": 1})
        want = int(h2[:8], 16)
        got = {}
        try:
            got["python"] = defx.sig_python(paths["python"])["defs"]["MOVED"]["hash"]
            got["c"] = _hex(defx.sig_c(paths["c_lang"], wd, defx.core_header(wd))["defines"].get("HASH_MOVED"))
            got["js"] = int((defx.sig_js([paths["javascript"]], wd)[paths["javascript"]].get("HASH") or {}).get("MOVED", "0"), 16)
            got["matlab"] = int(str((defx.run_matlab(paths["matlab"])["RTMA"].get("hash") or {}).get("MOVED", "0")), 16)
        except core.HarnessError:
            raise
        except BaseException as e:
            problems.append({"kind": "output-unreadable", "lang": "rebuild:" + label, "exc": f"{type(e).__name__}: {str(e)[:160]}"})
        for lang, h in got.items():
            n += 1
            if h != want:
                problems.append({"kind": "hash-stale-after-rebuild", "lang": lang, "edit": label, "parser": hex(want), "got": hex(h) if h is not None else None,
                                 "hash_before_the_edit": h1[:8]})
    return problems, n


def relocated_outputs(d: str) -> Tuple[List[Dict[str, Any]], int]:
    """closures whose definitions live in files / directories with 'special-looking' names: every output still carries the hash
    of every message (the statement quantifies over every relocation AND every language output)"""
    problems = []
    n = 0
    layouts = {"plain-subdir": "shared/rig_defs.yaml", "name-contains-core_defs": "shared/rig_core_defs.yaml", "dir-contains-core_defs": "lab_core_defs_v2/stim.yaml",
               "name-starts-with-core": "core.yaml", "dir-named-defs": "core_defs_old/x.yaml"}
    for label, rel in layouts.items():
        wd = os.path.join(d, "rl_" + label)
        prog = defx.Program({"root.yaml": {"imports": [rel], "message_defs": {"ROOTMSG": {"id": 3911, "fields": {"q": "int32"}}}},
                             rel: {"struct_defs": STRUCTS, "message_defs": {"STIM_CONFIG": {"id": 3910, "fields": {"a": "int32", "h": "HS"}},
                                                                           "STIM_SIG": {"id": 3912, "fields": None}}}})
        try:
            paths = defx.compile_program(prog, wd, name="gen")
            p = defx.parse_model(paths["root"], import_coredefs=False)
        except Exception as e:
            problems.append({"kind": "relocation-rejected", "where": label, "exc": f"{type(e).__name__}: {str(e)[:150]}", "base": ["STIM_CONFIG", 3910, []]})
            continue
        want = {nme: int(m.hash[:8], 16) for nme, m in p.message_defs.items()}
        try:
            got = {"python": {nme: dd["hash"] for nme, dd in defx.sig_python(paths["python"])["defs"].items() if dd["msg"]},
                   "c": {k[5:]: _hex(v) for k, v in defx.sig_c(paths["c_lang"], wd, defx.core_header(wd))["defines"].items() if k.startswith("HASH_")},
                   "js": {k: int(v, 16) for k, v in (defx.sig_js([paths["javascript"]], wd)[paths["javascript"]].get("HASH") or {}).items()},
                   "matlab": {k: int(v, 16) for k, v in (defx.run_matlab(paths["matlab"])["RTMA"].get("hash") or {}).items() if isinstance(v, str)}}
        except core.HarnessError:
            raise
        except BaseException as e:
            problems.append({"kind": "output-unreadable", "lang": "relocated:" + label, "exc": f"{type(e).__name__}: {str(e)[:160]}"})
            continue
        for lang, table in got.items():
            for nme, h in want.items():
                n += 1
                if table.get(nme) != h:
                    problems.append({"kind": "hash-differs-between-outputs", "lang": lang, "message": nme, "parser": hex(h),
                                     "got": hex(table[nme]) if table.get(nme) is not None else None, "relocation": label})
    return problems, n


def reserved_field_names(d: str) -> Tuple[List[Dict[str, Any]], int]:
    """a field may carry the name of one of the attributes the generated classes use themselves (type_hash, type_id, ...): either the
    compiler refuses the definition, or every output and the wire still carry the definition's hash"""
    from .. import clx, proto as P, valx

    problems = []
    n = 0
    for fname in ("type_hash", "type_id", "type_size", "type_name", "type_source", "type_def", "hexdump", "size", "copy", "to_json", "pretty_print", "from_random"):
        wd = os.path.join(d, "rf_" + fname)
        prog = defx.Program({"root.yaml": {"message_defs": {"RSV": {"id": 3920, "fields": {"a": "int32", fname: "int32"}}}}})
        try:
            paths = defx.compile_program(prog, wd, name="gen_" + fname, outputs=("python", "c_lang", "javascript"))
        except Exception:
            continue  # refused: nothing to compare
        n += 1
        try:
            p = defx.parse_model(paths["root"], import_coredefs=False)
            want = int(p.message_defs["RSV"].hash[:8], 16)
            mod = valx.import_generated(paths["python"], f"vf_c13_rf_{fname}_{os.getpid()}")
            cls = mod.MDF_RSV
            obj = cls()
            setattr(obj, fname, 0xABCD) if fname not in ("size", "copy", "to_json", "pretty_print", "from_random", "hexdump") else None
            sp = clx.ScriptedPeer(timecode=False)
            try:
                sp.client.send_message(obj)
                frames, rest, prob = P.parse_stream(bytes(sp.peer.rx), False)
            finally:
                sp.close()
            if len(frames) != 1 or frames[0].h[11] != want:
                problems.append({"kind": "wire-version", "cls": f"MDF_RSV with a field called {fname}", "sent": hex(frames[0].h[11]) if frames else None, "type_hash": hex(want)})
            chash = _hex(defx.sig_c(paths["c_lang"], wd, defx.core_header(wd))["defines"].get("HASH_RSV"))
            if chash != want:
                problems.append({"kind": "hash-differs-between-outputs", "lang": "c", "message": f"RSV({fname})", "parser": hex(want), "got": hex(chash) if chash is not None else None})
        except core.HarnessError:
            raise
        except BaseException as e:
            problems.append({"kind": "output-unreadable", "lang": f"python: accepted field name {fname}", "exc": f"{type(e).__name__}: {str(e)[:160]}"})
    return problems, n


SENS_TEXT = """message_defs:
  SENS:
    id: 01750
    fields:
      y: int32
      n: int32
      on: double
      off: double
  SENS_SIG:
    id: 01751
    fields: null
"""


def yaml_directives(d: str) -> Tuple[List[Dict[str, Any]], int]:
    """the files of one import graph are separate YAML documents: a `%YAML` directive at the top of one of them (old export tools write
    `%YAML 1.1`) says nothing about the others. A definition whose text YAML 1.1 would read differently (zero-padded id, fields called
    y / n / on / off) hashes the same whether such a file is imported before it, after it, imports it, or is absent."""
    problems = []
    n = 0
    old = "%YAML 1.1\n---\nconstants:\n  OLD_K: 1\n"
    new12 = "%YAML 1.2\n---\nconstants:\n  NEW_K: 1\n"
    variants = [
        ("alone", {"root.yaml": {"imports": ["defs.yaml"]}, "defs.yaml": SENS_TEXT}),
        ("yaml-1.1-file-imported-before", {"root.yaml": {"imports": ["old.yaml", "defs.yaml"]}, "old.yaml": old, "defs.yaml": SENS_TEXT}),
        ("yaml-1.1-file-imported-after", {"root.yaml": {"imports": ["defs.yaml", "old.yaml"]}, "old.yaml": old, "defs.yaml": SENS_TEXT}),
        ("yaml-1.1-root-imports-it", {"root.yaml": "%YAML 1.1\n---\nimports:\n  - defs.yaml\nconstants:\n  OLD_K: 1\n", "defs.yaml": SENS_TEXT}),
        ("yaml-1.1-file-deeper-before", {"root.yaml": {"imports": ["a.yaml", "defs.yaml"]}, "a.yaml": {"imports": ["sub/old.yaml"], "constants": {"A_K": 1}}, "sub/old.yaml": old,
                                         "defs.yaml": SENS_TEXT}),
        ("yaml-1.2-file-imported-before", {"root.yaml": {"imports": ["new.yaml", "defs.yaml"]}, "new.yaml": new12, "defs.yaml": SENS_TEXT}),
        ("yaml-1.1-then-1.2-before", {"root.yaml": {"imports": ["old.yaml", "new.yaml", "defs.yaml"]}, "old.yaml": old, "new.yaml": new12, "defs.yaml": SENS_TEXT}),
    ]
    ref = None
    for label, files in variants:
        n += 1
        try:
            for x in os.listdir(d):
                q = os.path.join(d, x)
                import shutil

                shutil.rmtree(q) if os.path.isdir(q) else os.remove(q)
            pm = defx.parse_model(defx.Program(files).write(d), import_coredefs=False)
            got = {k: (pm.message_defs[k].hash[:8], pm.message_defs[k].type_id, [f.name for f in pm.message_defs[k].fields]) for k in ("SENS", "SENS_SIG")}
        except Exception as e:
            got = {"rejected": f"{type(e).__name__}: {str(e)[:120]}"}
        if ref is None:
            ref = got
            if "rejected" in got:
                return [], n  # the parser does not take such definitions at all: nothing to compare
            continue
        if got != ref:
            problems.append({"kind": "relocation-changes-hash", "where": label, "message": "SENS", "alone": _jsonable(ref), "here": _jsonable(got)})
    return problems, n


def _jsonable(x):
    return {k: list(v) if isinstance(v, tuple) else v for k, v in x.items()}


def manager_versions(_=None) -> Tuple[List[Dict[str, Any]], int]:
    """the manager is a sender too: every frame it originates (acknowledgements, CLIENT_INFO / CLIENT_CLOSED, failure notices, the
    periodic reports, its log records) carries version 0 or the hash of ITS OWN type - whatever the version of the client message it
    is writing about"""
    import logging
    import pyrtma.core_defs as cd
    from pyrtma.message_data import MessageData
    from .. import mmx, proto as P

    own = {v.type_id: v.type_hash for k, v in vars(cd).items() if isinstance(v, type) and issubclass(v, MessageData) and v is not MessageData and k.startswith("MDF_")}
    problems: List[Dict[str, Any]] = []
    n = 0
    for tc in (False, True):
        mmx.fresh_gc()
        w = mmx.World(timecode=tc, log_level=logging.INFO)
        try:
            def join(slot, hid, mid, logger=0, subs=()):
                c = w.client(slot, hid).connect()
                w.settle()
                c.send(P.mkframe(P.MT_CONNECT_V2, P.p_connect_v2(logger, 0, 0, mid, 0, slot.encode()), timecode=tc, src_mod_id=mid))
                w.settle()
                for t in subs:
                    c.send(P.mkframe(P.MT_SUBSCRIBE, P.p_sub(t), timecode=tc, src_mod_id=mid))
                w.settle()
                return c

            L = join("L", 1, 60, logger=1, subs=(P.ALL_MESSAGE_TYPES,))
            S = join("S", 2, 31, subs=(1001,))
            D = join("D", 3, 41, subs=(1001,))
            Pp = join("P", 4, 21)
            foreign = 0xA2587171
            # a delivery that fails for a subscriber that is not writable, one that fails on the write, a departure, the timers
            Pp.send(P.mkframe(1001, b"bulk" * 4, timecode=tc, src_mod_id=21, reserved=foreign))
            w.step(0, nonwritable=["S"])
            w.settle()
            D.rst()
            Pp.send(P.mkframe(1001, b"bulk" * 4, timecode=tc, src_mod_id=21, reserved=foreign))
            w.step(0)
            w.settle()
            for dt in (1.05, 5.1):
                w.tick(dt)
                w.step()
                w.settle()
            for f in L.drain():
                if f.src_mod_id != 0:
                    continue
                n += 1
                if f.h[11] not in (0, own.get(f.msg_type, 0)):
                    problems.append({"kind": "manager-frame-version", "msg_type": f.msg_type, "sent": hex(f.h[11]), "own_hash": hex(own.get(f.msg_type, 0)), "timecode": tc})
        finally:
            w.stop()
    return problems, n


def wire_versions(pyfile: str) -> Tuple[List[Dict[str, Any]], int]:
    """the version field the real Client puts on the wire for every class of the generated module and of core_defs"""
    from .. import clx, proto as P
    import pyrtma.core_defs as cd
    from pyrtma.message_data import MessageData
    from .. import valx

    problems = []
    if pyfile is None:
        return problems, 0
    try:
        mod = valx.import_generated(pyfile, f"vf_c13_{os.getpid()}")
    except BaseException as e:  # already reported by cross_language as an unreadable output
        return [{"kind": "output-unreadable", "lang": "python", "exc": f"{type(e).__name__}: {str(e)[:160]}"}], 0
    classes = []
    for m in (mod, cd):
        for k, v in vars(m).items():
            if isinstance(v, type) and issubclass(v, MessageData) and v is not MessageData and k.startswith("MDF_"):
                classes.append(v)
    # ... and of application classes derived from generated ones (helper methods only: same definition, same hash)
    derived = {}
    for cls in classes[::5]:
        try:
            derived[cls] = type("App" + cls.__name__, (cls,), {"describe": lambda self: type(self).__name__})
        except Exception as e:
            problems.append({"kind": "derived-class-rejected", "cls": cls.__name__, "exc": f"{type(e).__name__}: {str(e)[:120]}"})
    n = 0
    for tc in (False, True):
        sp = clx.ScriptedPeer(timecode=tc)
        try:
            for base, sub in derived.items():
                sp.peer.rx.clear()
                with warnings.catch_warnings():
                    warnings.simplefilter("ignore")
                    sp.client.send_message(sub())
                frames, rest, prob = P.parse_stream(bytes(sp.peer.rx), tc)
                n += 1
                if len(frames) != 1 or rest or frames[0].h[11] != base.type_hash or frames[0].msg_type != base.type_id:
                    problems.append({"kind": "wire-version-derived-class", "cls": base.__name__, "sent": hex(frames[0].h[11]) if frames else None, "type_hash": hex(base.type_hash)})
            for cls in classes:
                sp.peer.rx.clear()
                sp.client.send_message(cls())
                frames, rest, prob = P.parse_stream(bytes(sp.peer.rx), tc)
                n += 1
                if len(frames) != 1 or rest:
                    problems.append({"kind": "wire-frame", "cls": cls.__name__, "frames": len(frames)})
                    continue
                f = frames[0]
                if f.h[11] != cls.type_hash or f.msg_type != cls.type_id:
                    problems.append({"kind": "wire-version", "cls": cls.__name__, "sent": hex(f.h[11]), "type_hash": hex(cls.type_hash)})
                # a signal sent right after it (no class at hand): the version is either left unfilled (0) or that definition's
                # own hash - never something left over from the previous message
                if n % 7 == 0:
                    other = classes[(n * 5 + 3) % len(classes)]
                    sp.peer.rx.clear()
                    sp.client.send_signal(other.type_id)
                    fr2, _r, _p = P.parse_stream(bytes(sp.peer.rx), tc)
                    if len(fr2) != 1 or fr2[0].h[11] not in (0, other.type_hash):
                        problems.append({"kind": "wire-version-signal", "after": cls.__name__, "signal": other.__name__,
                                         "sent": hex(fr2[0].h[11]) if fr2 else None, "allowed": [hex(0), hex(other.type_hash)]})
        finally:
            sp.close()
    return problems, n


def run(tier: str) -> int:
    chk = core.Check("C13", tier, "exploration",
                     "base messages (0-3 fields over 4 types) x every single edit x every relocation, hashed by the real parser; one "
                     "packed program through all four back ends; separate processes with different PYTHONHASHSEED / cwd; the real "
                     "Client's outgoing header.version for every generated and core class. Distinct non-trivial = edits + "
                     "relocations evaluated.")
    bs = bases()
    if tier == "quick":
        bs_eval = [b for i, b in enumerate(bs) if len(b) <= 2 or i % 3 == 0]
    else:
        bs_eval = bs
    # thorough: every PAIR of edits of the bases with <= 2 fields as well (renames that swap, retype + rename, insert + delete, ...)
    res = core.pmap(check_base, [(bi, f, 2 if (tier == "thorough" and len(f) <= 2) else 1) for bi, f in enumerate(bs) if f in bs_eval])
    core.close_pool()
    totals: Dict[str, int] = {}
    allp: List[Dict[str, Any]] = []
    for r in res:
        for k, v in r["stats"].items():
            totals[k] = totals.get(k, 0) + v
        allp += r["problems"]
    r = reuse_cases()
    allp += r["problems"]
    d = core.scratch_dir("c13x")
    try:
        p1, nmsg = cross_process(bs, d)
        allp += p1
        p2, st = cross_language(bs, d)
        allp += p2
        totals.update({k: v for k, v in st.items() if isinstance(v, int)})
        p3, nwire = wire_versions(st["pyfile"])
        allp += p3
        totals["wire_frames"] = nwire
        p7, nmf = manager_versions()
        allp += p7
        totals["manager_frames"] = nmf
        p4, nrb = rebuild_hashes(d)
        allp += p4
        totals["rebuild_hash_comparisons"] = nrb
        p5, nrl = relocated_outputs(d)
        allp += p5
        totals["relocated_output_comparisons"] = nrl
        p6, nrf = reserved_field_names(d)
        allp += p6
        totals["accepted_reserved_field_names"] = nrf
        p8, nyd = yaml_directives(d)
        allp += p8
        totals["yaml_directive_placements"] = nyd
        totals["cross_process_messages"] = nmsg
    finally:
        core.rmtree(d)
    for p in allp:
        sub = p.get("edit", p.get("where", p.get("lang", "")))
        sub = sub.split("@")[0] if isinstance(sub, str) else ""
        chk.violation(f"C13:{p['kind']}:{sub if p['kind'] != 'reuse-source-edit-keeps-hash' else ''}", f"{p}", {"module": "vf.checks.c13", "problem": p}, size=len(str(p)))
    chk.merge_counts(totals)
    chk.sample({"base": [list(x) for x in bs[20]], "edits": [e[0] for e in edits("B", 1, bs[20])]})
    chk.sample({"relocations": [r[0] for r in relocations("B", 1, bs[5])]})
    chk.assumptions += ["sha256 collisions on the 32-bit prefix among the few dozen variants of one base would show up as a false 'edit-keeps-hash' (probability ~1e-7 per run; none observed)"]
    return chk.finish({"evaluations": totals.get("parses", 0) + totals.get("hash_comparisons", 0) + totals.get("wire_frames", 0),
                       "distinct_nontrivial": totals.get("edits", 0) + totals.get("relocations", 0)})


def replay(case) -> int:
    p = case["problem"]
    hit = []
    if p["kind"] == "reuse-source-edit-keeps-hash":
        hit = reuse_cases()["problems"]
    elif "base" in p:
        name, mid, fields = p["base"]
        bi = int(name[4:])
        r = check_base((bi, tuple(tuple(x) for x in fields)))
        hit = [q for q in r["problems"] if q["kind"] == p["kind"]]
    else:
        d = core.scratch_dir("c13p")
        try:
            bs = bases()
            if p["kind"] == "hash-differs-between-processes":
                hit, _ = cross_process(bs, d)
            elif "relocation" in p or str(p.get("lang", "")).startswith("relocated:"):
                hit, _ = relocated_outputs(d)
                hit = [q for q in hit if q["kind"] == p["kind"]]
            elif "field called" in str(p.get("cls", "")) or "RSV(" in str(p.get("message", "")) or "accepted field name" in str(p.get("lang", "")):
                hit, _ = reserved_field_names(d)
                hit = [q for q in hit if q["kind"] == p["kind"]]
            elif str(p.get("where", "")).startswith("yaml-"):
                hit, _ = yaml_directives(d)
            elif p["kind"] in ("hash-stale-after-rebuild", "rebuild-rejected"):
                hit, _ = rebuild_hashes(d)
                hit = [q for q in hit if q["kind"] == p["kind"]]
            else:
                p2, st = cross_language(bs, d)
                p3, _ = wire_versions(st["pyfile"])
                hit = [q for q in p2 + p3 if q["kind"] == p["kind"]]
        finally:
            core.rmtree(d)
    for q in hit[:5]:
        print("  PROBLEM:", q)
    print("reproduced" if hit else "NOT reproduced")
    return 1 if hit else 0
