"""C11 - accepted layouts are naturally aligned with only explicit padding.

Engine DEFX: every field sequence up to a length bound over an alphabet of scalars (width
1,2,4,8), arrays (length 2,3), nested structs whose own alignment is 1,2,4,8 (tail-padded and not),
arrays of those structs and field-list reuse; as struct and as message; auto_pad on and off;
size-boundary programs around 65535 bytes.

Oracle: (a) a reference natural layout computed here = gcc's offsetof/sizeof/_Alignof on the
generated header = ctypes layout of the generated Python class = the parser's recorded offsets and
size, and size = sum of the declared fields (no hidden padding); (b) deleting the inserted
padding_* char fields gives back exactly the user's sequence; inserted padding is minimal;
(c) auto_pad off accepts iff auto_pad on inserted nothing, otherwise AlignmentError;
(d) > 65535 bytes => InvalidMessageSize, <= 65535 accepted.
"""
from __future__ import annotations

import itertools
import os
from typing import Any, Dict, List, Optional, Tuple

from .. import core, defx

# nested structs used as field types: name -> (fields, size, align)   (all explicitly padded)
NESTED = {
    "N1": ({"c": "char[3]"}, 3, 1),
    "N2": ({"a": "int16", "c": "char", "p": "char"}, 4, 2),
    "N2b": ({"a": "uint16"}, 2, 2),
    "N4": ({"a": "int32", "b": "int16", "p": "char[2]"}, 8, 4),
    "N4b": ({"a": "float"}, 4, 4),
    "N8": ({"d": "double", "i": "int32", "p": "char[4]"}, 16, 8),
    "N8b": ({"q": "int64"}, 8, 8),
    "N5": ({"c": "char[5]"}, 5, 1),
}
# item -> (type text, element size, alignment, length or None)
ITEMS: Dict[str, Tuple[str, int, int, Optional[int]]] = {
    "c1": ("char", 1, 1, None), "i2": ("int16", 2, 2, None), "i4": ("int32", 4, 4, None), "f8": ("double", 8, 8, None),
    "u1": ("uint8", 1, 1, None), "f4": ("float", 4, 4, None), "q8": ("uint64", 8, 8, None),
    "c1x2": ("char[2]", 1, 1, 2), "c1x3": ("char[3]", 1, 1, 3), "i2x3": ("int16[3]", 2, 2, 3), "i2x2": ("uint16[2]", 2, 2, 2),
    "i4x3": ("int32[3]", 4, 4, 3), "f8x2": ("double[2]", 8, 8, 2), "c1x5": ("byte[5]", 1, 1, 5), "i4x1": ("uint32[1]", 4, 4, 1),
}
for _n, (_f, _s, _a) in NESTED.items():
    ITEMS[_n] = (_n, _s, _a, None)
# message definitions used as field types (only inside other messages: struct_defs precede message_defs in a file)
NESTED_MSGS = {"M4": ({"a": "int32", "b": "int16", "p": "char[2]"}, 8, 4), "M2": ({"a": "uint16", "c": "char", "p": "char"}, 4, 2), "M1": ({"c": "char[3]"}, 3, 1)}
for _n, (_f, _s, _a) in NESTED_MSGS.items():
    ITEMS[_n] = (_n, _s, _a, None)
ITEMS["M2x3"] = ("M2[3]", 4, 2, 3)
# field-list reuse copies used as field types (a copy must keep the layout properties of its source)
REUSE = {"RN1": "N1", "RN2": "N2", "RN4b": "N4b", "RN5": "N5"}
for _r, _src in REUSE.items():
    ITEMS[_r] = (_r, NESTED[_src][1], NESTED[_src][2], None)
ITEMS["RN2x3"] = ("RN2[3]", NESTED["N2"][1], NESTED["N2"][2], 3)
for _n in ("N1", "N2", "N8", "N5"):
    ITEMS[_n + "x3"] = (f"{_n}[3]", NESTED[_n][1], NESTED[_n][2], 3)
    ITEMS[_n + "x2"] = (f"{_n}[2]", NESTED[_n][1], NESTED[_n][2], 2)

# the unsized native spellings (fixed widths in RTMA whatever the C compiler's own idea of `long` is)
ITEMS.update({"L4": ("long", 4, 4, None), "UL4x2": ("unsigned long[2]", 4, 4, 2), "S2": ("short", 2, 2, None), "I4": ("int", 4, 4, None),
              "LL8": ("long long", 8, 8, None), "US2x3": ("unsigned short[3]", 2, 2, 3)})
FULL = list(ITEMS)
SMALL = ["c1", "i2", "i4", "f8", "c1x3", "N1", "N2", "N8", "i2x3", "N5x3", "RN2", "RN1", "M4", "M2"]


def sequences(tier: str) -> List[Tuple[str, ...]]:
    out: List[Tuple[str, ...]] = []
    if tier == "quick":
        for n in (1, 2):
            out += list(itertools.product(FULL, repeat=n))
        out += list(itertools.product(FULL[:7] + SMALL[4:] + ["N2b", "N4", "N8x3"], repeat=3))
        out += list(itertools.product(SMALL[:8], repeat=4))
    else:
        for n in (1, 2, 3):
            out += list(itertools.product(FULL, repeat=n))
        out += list(itertools.product(SMALL, repeat=4))
        out += list(itertools.product(SMALL[:6], repeat=5))
    return out


def reference_layout(seq: Tuple[str, ...]) -> Dict[str, Any]:
    """natural layout: list of (kind, name|padlen, offset, size), total size, alignment"""
    off = 0
    align = 1
    rows = []
    for i, it in enumerate(seq):
        _t, es, al, ln = ITEMS[it]
        size = es * (ln or 1)
        pad = (-off) % al
        if pad:
            rows.append(("pad", pad, off, pad))
            off += pad
        rows.append(("field", f"f{i}", off, size))
        off += size
        align = max(align, al)
    tail = (-off) % align
    if tail:
        rows.append(("pad", tail, off, tail))
        off += tail
    return {"rows": rows, "size": off, "align": align, "npad": sum(1 for r in rows if r[0] == "pad")}


def nested_sections() -> Dict[str, Any]:
    d = {n: {"fields": dict(f)} for n, (f, _s, _a) in NESTED.items()}
    d.update({r: {"fields": src} for r, src in REUSE.items()})
    return d


def fields_of(seq) -> Dict[str, str]:
    return {f"f{i}": ITEMS[it][0] for i, it in enumerate(seq)}


def uses_msg(seq) -> bool:
    return any(it.split("x")[0] in NESTED_MSGS for it in seq)


def nested_msg_sections(base_id: int) -> Dict[str, Any]:
    return {n: {"id": base_id + i, "fields": dict(f)} for i, (n, (f, _s, _a)) in enumerate(NESTED_MSGS.items())}


def batch_program(seqs: List[Tuple[str, ...]], base_id: int) -> defx.Program:
    structs = nested_sections()
    msgs = nested_msg_sections(base_id + 8000)
    for k, seq in enumerate(seqs):
        if k % 2 == 0 and not uses_msg(seq):
            structs[f"T{k}"] = {"fields": fields_of(seq)}
        else:
            msgs[f"T{k}"] = {"id": base_id + k, "fields": fields_of(seq)}
    # field-list reuse of (possibly padded) definitions, both directions
    for k in range(0, min(len(seqs), 40)):
        if k % 4 == 0 and not uses_msg(seqs[k]):
            structs[f"R{k}"] = {"fields": f"T{k}"}  # struct from struct
        else:
            msgs[f"R{k}"] = {"id": base_id + 5000 + k, "fields": f"T{k}"}  # message from struct / from message
    return defx.Program({"root.yaml": {"struct_defs": structs, "message_defs": msgs}})


def check_batch(args) -> Dict[str, Any]:
    bi, seqs = args
    problems: List[Dict[str, Any]] = []
    stats = {"cases": 0, "padded": 0, "nopad_accepts": 0, "nopad_rejects": 0}
    d = core.scratch_dir("c11")
    try:
        prog = batch_program(seqs, 1000)
        try:
            paths = defx.compile_program(prog, d, outputs=("python", "c_lang"), import_coredefs=False)
        except Exception as e:
            return {"problems": [{"kind": "batch-rejected", "exc": f"{type(e).__name__}: {str(e)[:200]}", "batch": bi}], "stats": stats}
        p = defx.parse_model(paths["root"], import_coredefs=False)
        sp = defx.sig_parser(p)
        spy = defx.sig_python(paths["python"])
        sc = defx.sig_c(paths["c_lang"], d)
        if sc.get("error"):
            problems.append({"kind": "header-does-not-compile", "detail": sc["error"][:400], "batch": bi})
        for k, seq in enumerate(seqs):
            stats["cases"] += 1
            name = f"T{k}"
            ref = reference_layout(seq)
            if ref["npad"]:
                stats["padded"] += 1
            for label in (name, f"R{k}" if k < 40 else None):
                if label is None:
                    continue
                pd = sp["defs"].get(label)
                if pd is None:
                    problems.append({"kind": "definition-missing", "seq": list(seq), "name": label})
                    continue
                # (b) user fields survive in order, padding only as char fields, minimal
                got_rows = []
                run_off = 0
                for fname, kind, width, n, off in pd["fields"]:
                    if fname.startswith("padding_"):
                        if kind != "char" or width != 1:
                            problems.append({"kind": "padding-not-char", "seq": list(seq), "field": fname})
                        # the parser does not record an offset for trailing padding (internal detail): use the running sum
                        got_rows.append(("pad", n, run_off if off == -1 else off, n))
                        run_off += n
                        continue
                    run_off = off + width * n
                    if False:
                        pass
                    got_rows.append(("field", fname, off, width * n))
                if [tuple(r) for r in got_rows] != [tuple(r) for r in ref["rows"]]:
                    problems.append({"kind": "layout-differs-from-reference", "seq": list(seq), "name": label, "got": got_rows, "want": ref["rows"]})
                    continue
                user = [(f[0], f[1].replace("struct:", ""), f[3]) for f in pd["fields"] if not f[0].startswith("padding_")]
                if pd["size"] != ref["size"]:
                    problems.append({"kind": "recorded-size", "seq": list(seq), "got": pd["size"], "want": ref["size"]})
                # (a) gcc and ctypes agree with the reference
                for who, sig in (("gcc", sc), ("ctypes", spy)):
                    dd = sig["defs"].get(label)
                    if dd is None:
                        if not sc.get("error") or who == "ctypes":
                            problems.append({"kind": f"{who}-definition-missing", "seq": list(seq), "name": label})
                        continue
                    offs = [(f[0], f[4], f[2] * f[3]) for f in dd["fields"]]
                    want = [(r[1] if r[0] == "field" else None, r[2], r[3]) for r in ref["rows"]]
                    if [(o, s) for _, o, s in offs] != [(o, s) for _, o, s in want] or dd["size"] != ref["size"]:
                        problems.append({"kind": f"{who}-layout", "seq": list(seq), "name": label, "got": offs, "size": dd["size"], "want_size": ref["size"]})
                    if sum(s for _, _, s in offs) != dd["size"]:
                        problems.append({"kind": f"{who}-hidden-padding", "seq": list(seq), "name": label, "sum": sum(s for _, _, s in offs), "size": dd["size"]})
                    if who == "gcc" and dd["align"] != ref["align"]:
                        problems.append({"kind": "gcc-alignment", "seq": list(seq), "got": dd["align"], "want": ref["align"]})
    finally:
        core.rmtree(d)
    # (c) differential with auto_pad off, one small program per sequence
    d = core.scratch_dir("c11n")
    try:
        from pyrtma.parser import AlignmentError, ParserError

        for k, seq in enumerate(seqs):
            ref = reference_layout(seq)
            as_struct = k % 2 == 0 and not uses_msg(seq)
            prog = defx.Program({"root.yaml": {"struct_defs": {**nested_sections(), "T": {"fields": fields_of(seq)}} if as_struct else nested_sections(),
                                               "message_defs": nested_msg_sections(7000) if as_struct else {**nested_msg_sections(7000), "T": {"id": 1234, "fields": fields_of(seq)}}}})
            root = prog.write(d)
            try:
                defx.parse_model(root, import_coredefs=False, auto_pad=False)
                accepted, exc = True, None
            except AlignmentError as e:
                accepted, exc = False, "AlignmentError"
            except Exception as e:
                accepted, exc = False, f"{type(e).__name__}: {str(e)[:100]}"
            if accepted:
                stats["nopad_accepts"] += 1
            else:
                stats["nopad_rejects"] += 1
            if accepted != (ref["npad"] == 0):
                problems.append({"kind": "auto_pad-off-verdict", "seq": list(seq), "accepted": accepted, "reference_padding": ref["npad"], "exc": exc})
            elif not accepted and exc != "AlignmentError":
                problems.append({"kind": "auto_pad-off-wrong-error", "seq": list(seq), "exc": exc})
    finally:
        core.rmtree(d)
    return {"problems": problems, "stats": stats}


def size_boundaries(_=None) -> Dict[str, Any]:
    """(d) programs around the 65535-byte limit"""
    from pyrtma.parser import InvalidMessageSize

    problems = []
    n = 0
    d = core.scratch_dir("c11s")
    try:
        cases = []
        for total in range(65528, 65545):
            cases.append(({"a": f"char[{total}]"}, total))
        for total8 in (8190, 8191, 8192, 8193):
            cases.append(({"a": f"double[{total8}]"}, total8 * 8))
        # padding pushes the definition across the limit: int64 after 65529 chars -> 65529 + 7 + 8
        cases.append(({"a": "char[65521]", "b": "int64"}, 65536))
        cases.append(({"a": "char[65520]", "b": "int64"}, 65528))
        cases.append(({"a": "char[65527]", "b": "int64"}, 65536))
        cases.append(({"a": "int64", "b": "char[65527]"}, 65536))  # trailing padding
        cases.append(({"a": "int64", "b": "char[65520]"}, 65528))
        cases.append(({"a": "N8[4095]", "b": "char[15]"}, 65536))
        cases.append(({"a": "N8[4095]", "b": "char[8]"}, 65528))
        for as_msg in (False, True):
            for fields, size in cases:
                n += 1
                prog = defx.Program({"root.yaml": {"struct_defs": {**nested_sections(), **({} if as_msg else {"BIG": {"fields": fields}})},
                                                   "message_defs": {"BIG": {"id": 4000, "fields": fields}} if as_msg else None}})
                root = prog.write(d)
                try:
                    p = defx.parse_model(root, import_coredefs=False)
                    got = (p.message_defs if as_msg else p.struct_defs)["BIG"].size
                    verdict = "accepted"
                except InvalidMessageSize:
                    verdict, got = "InvalidMessageSize", None
                except Exception as e:
                    verdict, got = f"{type(e).__name__}", None
                want = "accepted" if size <= 65535 else "InvalidMessageSize"
                if verdict != want or (got is not None and got != size):
                    problems.append({"kind": "size-limit", "fields": fields, "natural_size": size, "verdict": verdict, "recorded": got, "msg": as_msg})
    finally:
        core.rmtree(d)
    return {"problems": problems, "stats": {"size_cases": n}}


def renamed_layouts(_=None) -> Dict[str, Any]:
    """(e) one process compiles a series of programs in which the SAME type name stands for structs of alignment 1, 2, 4, 8 in
    every order: a layout decision remembered by type name from an earlier compilation shows up as a wrong verdict / layout"""
    from pyrtma.parser import ParserError

    variants = {1: ({"c": "char[3]"}, 3), 2: ({"a": "int16", "b": "char[2]"}, 4), 4: ({"a": "int32", "b": "int16", "p": "char[2]"}, 8), 8: ({"d": "double"}, 8)}
    problems = []
    n = 0
    d = core.scratch_dir("c11r")
    try:
        for order in itertools.permutations((1, 2, 4, 8)):
            for al in order:
                vf, vs = variants[al]
                # W: int32, NV, int32 ; W2: char, NV[2] ; W3: NV, char   (natural layout computed from the variant at hand)
                layouts = {}
                for name, fields in (("W", [("a", 4, 4), ("v", vs, al), ("n", 4, 4)]), ("W2", [("c", 1, 1), ("v", vs * 2, al)]), ("W3", [("v", vs, al), ("c", 1, 1)])):
                    off, mx, pads = 0, 1, 0
                    for _fn, sz, a in fields:
                        if (-off) % a:
                            pads += 1
                            off += (-off) % a
                        off += sz
                        mx = max(mx, a)
                    if (-off) % mx:
                        pads += 1
                        off += (-off) % mx
                    layouts[name] = (off, pads)
                files = {"root.yaml": {"struct_defs": {"NV": {"fields": dict(vf)}},
                                       "message_defs": {"W": {"id": 4100, "fields": {"a": "int32", "v": "NV", "n": "int32"}},
                                                        "W2": {"id": 4101, "fields": {"c": "char", "v": "NV[2]"}},
                                                        "W3": {"id": 4102, "fields": {"v": "NV", "c": "char"}}}}}
                root = defx.Program(files).write(d)
                n += 1
                try:
                    p = defx.parse_model(root, import_coredefs=False)
                    for name, (size, pads) in layouts.items():
                        md = p.message_defs[name]
                        npad = sum(1 for f in md.fields if f.name.startswith("padding_"))
                        if md.size != size or npad != pads:
                            problems.append({"kind": "layout-depends-on-earlier-compilation", "order": list(order), "NV_alignment": al, "message": name,
                                             "size": md.size, "want_size": size, "pads": npad, "want_pads": pads})
                except Exception as e:
                    problems.append({"kind": "layout-depends-on-earlier-compilation", "order": list(order), "NV_alignment": al, "verdict": type(e).__name__})
                # auto_pad off: accepted exactly when no padding is needed
                for name, (size, pads) in layouts.items():
                    one = {"root.yaml": {"struct_defs": {"NV": {"fields": dict(vf)}}, "message_defs": {name: files["root.yaml"]["message_defs"][name]}}}
                    root = defx.Program(one).write(d)
                    n += 1
                    try:
                        defx.parse_model(root, import_coredefs=False, auto_pad=False)
                        verdict = "accepted"
                    except Exception as e:
                        verdict = type(e).__name__
                    if (verdict == "accepted") != (pads == 0):
                        problems.append({"kind": "auto_pad-off-verdict-depends-on-earlier-compilation", "order": list(order), "NV_alignment": al, "message": name,
                                         "verdict": verdict, "needs_padding": pads > 0})
    finally:
        core.rmtree(d)
    return {"problems": problems, "stats": {"renamed_cases": n}}


def aliased_structs(_=None) -> Dict[str, Any]:
    """(f) structs whose size is not their alignment, reached through an ALIAS (the struct lives in an imported file, the alias in
    the importing one; also an alias of that alias): the alias lays out like the struct itself - parser model only, the outputs of
    such closures are C15's known emission-order finding"""
    structs = {"S12_4": ({"x": "int32", "y": "int32", "z": "int32"}, 12, 4), "S6_2": ({"a": "int16", "b": "int16", "c": "int16"}, 6, 2),
               "S3_1": ({"c": "char[3]"}, 3, 1), "S24_8": ({"d": "double", "a": "int32", "b": "int32", "e": "double"}, 24, 8), "S20_4": ({"v": "int32[5]"}, 20, 4),
               "S16_8": ({"d": "double", "e": "double"}, 16, 8)}
    heads = {"int32": (4, 4), "int16": (2, 2), "char": (1, 1), "double": (8, 8)}
    problems = []
    n = 0
    d = core.scratch_dir("c11a")
    try:
        for sname, (sf, ssize, sal) in structs.items():
            for via in ("alias", "alias-of-alias", "direct"):
                tname = {"alias": "AL_S", "alias-of-alias": "AL_S2", "direct": sname}[via]
                for hname, (hs, ha) in heads.items():
                    for shape in ("head-then-struct", "struct-then-head", "head-then-array"):
                        if shape == "head-then-struct":
                            fields, lay = {"h": hname, "pos": tname}, [(hs, ha), (ssize, sal)]
                        elif shape == "struct-then-head":
                            fields, lay = {"pos": tname, "h": hname}, [(ssize, sal), (hs, ha)]
                        else:
                            fields, lay = {"h": hname, "pos": f"{tname}[2]"}, [(hs, ha), (2 * ssize, sal)]
                        off, mx, pads = 0, 1, 0
                        for sz, a in lay:
                            if (-off) % a:
                                pads += 1
                                off += (-off) % a
                            off += sz
                            mx = max(mx, a)
                        if (-off) % mx:
                            pads += 1
                            off += (-off) % mx
                        files = {"root.yaml": {"imports": ["lib/geom.yaml"], "aliases": {"AL_S": sname, "AL_S2": "AL_S"} if via != "direct" else {},
                                               "message_defs": {"TRACK": {"id": 4150, "fields": fields}}},
                                 "lib/geom.yaml": {"struct_defs": {sname: {"fields": dict(sf)}}}}
                        if via == "direct":
                            files["root.yaml"].pop("aliases")
                        root = defx.Program(files).write(d)
                        for auto_pad in (True, False):
                            n += 1
                            try:
                                pm = defx.parse_model(root, import_coredefs=False, auto_pad=auto_pad)
                                md = pm.message_defs["TRACK"]
                                npad = sum(1 for f in md.fields if f.name.startswith("padding_"))
                                got = ("accepted", md.size, npad)
                            except Exception as e:
                                got = (type(e).__name__,)
                            want = ("accepted", off, pads) if (auto_pad or pads == 0) else ("AlignmentError",)
                            if got != want:
                                problems.append({"kind": "aliased-struct-layout", "struct": sname, "via": via, "head": hname, "shape": shape, "auto_pad": auto_pad,
                                                 "got": list(got), "want": list(want)})
    finally:
        core.rmtree(d)
    return {"problems": problems, "stats": {"aliased_struct_cases": n}}


def placed_definitions(_=None) -> Dict[str, Any]:
    """(g) a definition that needs padding (inside, at the end; struct, message) sits in every file of small import graphs, the other
    files hold aligned definitions: with auto padding off the closure is refused wherever the definition sits, with it on every file's
    definitions are padded; and the same Parser object gives the same verdicts after parses that failed (its options are its own)"""
    import contextlib
    import io
    from pyrtma.parser import Parser

    graphs = {"two-imports": {"root.yaml": ["dev/a.yaml", "b.yaml"], "dev/a.yaml": [], "b.yaml": []},
              "chain": {"root.yaml": ["a.yaml"], "a.yaml": ["dev/c.yaml"], "dev/c.yaml": []},
              "diamond": {"root.yaml": ["a.yaml", "b.yaml"], "a.yaml": ["dev/c.yaml"], "b.yaml": ["dev/c.yaml"], "dev/c.yaml": []}}
    bad_defs = {"inside-struct": ("struct_defs", "SENSOR", {"fields": {"flag": "char", "count": "int32"}}, 8, 1),
                "end-message": ("message_defs", "READING", {"id": 4160, "fields": {"v": "double", "n": "int16"}}, 16, 1),
                "inside-and-end": ("message_defs", "MIXED", {"id": 4161, "fields": {"a": "int8", "b": "int64", "c": "int8"}}, 24, 2)}
    problems = []
    n = 0
    d = core.scratch_dir("c11p")
    try:
        for gname, g in graphs.items():
            files_in = list(g)
            for bname, (sec, dname, body, size, pads) in bad_defs.items():
                for where in files_in + [None]:
                    files = {}
                    for k, f in enumerate(files_in):
                        secs: Dict[str, Any] = {"struct_defs": {f"OK{k}": {"fields": {"a": "int32", "b": "int32"}}}}
                        if g[f]:
                            secs["imports"] = [os.path.relpath(x, os.path.dirname(f) or ".") for x in g[f]]
                        if f == where:
                            secs.setdefault(sec, {})[dname] = body
                        files[f] = secs
                    root = defx.Program(files).write(d)
                    for auto_pad in (False, True):
                        n += 1
                        try:
                            pm = defx.parse_model(root, import_coredefs=False, auto_pad=auto_pad)
                            if where is None:
                                got = ("accepted",)
                            else:
                                md = (pm.struct_defs if sec == "struct_defs" else pm.message_defs)[dname]
                                got = ("accepted", md.size, sum(1 for fl in md.fields if fl.name.startswith("padding_")))
                        except Exception as e:
                            got = (type(e).__name__,)
                        want = ("accepted",) if where is None else (("accepted", size, pads) if auto_pad else ("AlignmentError",))
                        if got != want:
                            problems.append({"kind": "placed-definition-verdict", "graph": gname, "definition": bname, "file": where, "auto_pad": auto_pad,
                                             "got": list(got), "want": list(want)})
        # one Parser object with auto padding off: a failed parse (of whatever kind), then definitions that need padding
        broken = {"unknown-type": {"root.yaml": {"message_defs": {"BRK": {"id": 4170, "fields": {"a": "no_such_type"}}}}},
                  "duplicate-id": {"root.yaml": {"message_defs": {"B1": {"id": 4171, "fields": None}, "B2": {"id": 4171, "fields": None}}}},
                  "misaligned": {"root.yaml": {"message_defs": {"B3": {"id": 4172, "fields": {"a": "int8", "b": "double"}}}}}}
        for first in broken:
            for bname, (sec, dname, body, size, pads) in bad_defs.items():
                for opts in ({"auto_pad": False}, {"auto_pad": False, "validate_alignment": True}, {"validate_alignment": False}):
                    n += 1
                    with contextlib.redirect_stdout(io.StringIO()), contextlib.redirect_stderr(io.StringIO()):
                        prs = Parser(import_coredefs=False, **opts)
                        verdicts = []
                        for files in (broken[first], {"root.yaml": {sec: {dname: body}}}):
                            sub = os.path.join(d, f"r{n}_{len(verdicts)}")
                            os.makedirs(sub)
                            root = defx.Program(files).write(sub)
                            try:
                                prs.parse(root)
                                md = (prs.struct_defs if sec == "struct_defs" else prs.message_defs).get(dname)
                                verdicts.append(("accepted", md.size if md is not None else None))
                            except Exception as e:
                                verdicts.append((type(e).__name__,))
                        for h in list(prs.logger.handlers):
                            prs.logger.removeHandler(h)
                    if opts.get("validate_alignment") is False:
                        want2 = ("accepted", sum({"char": 1, "int32": 4, "double": 8, "int16": 2, "int8": 1, "int64": 8}[t] for t in body["fields"].values()))
                    else:
                        want2 = ("AlignmentError",)
                    if verdicts[1] != want2:
                        problems.append({"kind": "reused-parser-forgets-its-options", "first_parse": first, "definition": bname, "options": opts,
                                         "verdicts": [list(v) for v in verdicts], "want_after_the_failed_parse": list(want2)})
    finally:
        core.rmtree(d)
    return {"problems": problems, "stats": {"placed_cases": n}}


def metadata_variants(_=None) -> Dict[str, Any]:
    """(f) what a definition file says about itself (metadata of a combined / generated file, in the root or in an imported file)
    has no bearing on layout rules: the same definitions get the same verdict and the same padding"""
    problems = []
    n = 0
    d = core.scratch_dir("c11m")
    mis = {"struct_defs": {"SO": {"fields": {"a": "int8", "b": "double", "c": "int16"}}},
           "message_defs": {"MO": {"id": 4600, "fields": {"x": "int8", "s": "SO", "y": "double", "z": "char[3]"}}, "MT_": {"id": 4601, "fields": {"d": "double", "i": "int32"}}}}
    metas = {"none": None, "autogenerated": {"AUTOGENERATED": "true", "COMPILED_PYRTMA_VERSION": "2.3.5"}, "other": {"AUTHOR": "x"}}
    try:
        ref = None
        for where in ("root", "imported", "importer"):
            for mname, meta in metas.items():
                for auto_pad in (True, False):
                    if where == "root":
                        files = {"root.yaml": {**({"metadata": meta} if meta else {}), **mis}}
                    elif where == "imported":
                        # the definitions live in a generated file that a hand-written root imports
                        files = {"root.yaml": {"imports": ["gen.yaml"], "constants": {"Q": 1}}, "gen.yaml": {**({"metadata": meta} if meta else {}), **mis}}
                    else:
                        # a generated file is imported first; the hand-written definitions come after it
                        files = {"root.yaml": {"imports": ["gen.yaml"], **mis}, "gen.yaml": {**({"metadata": meta} if meta else {}), "constants": {"Q": 1}}}
                    root = defx.Program(files).write(d)
                    n += 1
                    try:
                        p = defx.parse_model(root, import_coredefs=False, auto_pad=auto_pad)
                        got = ("accepted", tuple((nm, dd.size, tuple(f.name for f in dd.fields)) for coll in (p.struct_defs, p.message_defs) for nm, dd in sorted(coll.items())))
                    except Exception as e:
                        got = (type(e).__name__,)
                    key = auto_pad
                    if where == "root" and mname == "none":
                        ref = ref or {}
                        ref[key] = got
                    elif got != ref[key]:
                        problems.append({"kind": "layout-depends-on-metadata", "where": where, "metadata": mname, "auto_pad": auto_pad, "got": str(got)[:200], "without_metadata": str(ref[key])[:200]})
    finally:
        core.rmtree(d)
    # sanity of the reference itself: padding on -> accepted with padding fields; padding off -> refused
    if ref and (ref[True][0] != "accepted" or not any("padding_" in f for _n, _s, fs in ref[True][1] for f in fs) or ref[False][0] == "accepted"):
        problems.append({"kind": "layout-reference-unexpected", "got": str(ref)[:300]})
    return {"problems": problems, "stats": {"metadata_cases": n}}


def user_fields_named_like_padding(_=None) -> Dict[str, Any]:
    """(g) automatic padding never reorders, resizes or drops a USER field - also when the user's own field is called padding_<n>_
    (hand-written reserve space in existing definition files is commonly named exactly so)"""
    problems = []
    n = 0
    d = core.scratch_dir("c11u")
    cases = {
        # name -> (fields, natural size, expected user fields with sizes in order)
        "RESERVE": ({"a": "int32", "padding_0_": "char[12]", "b": "int64"}, 24),
        "SPARE": ({"a": "int64", "padding_0_": "char[8]", "b": "int64"}, 24),
        "STAMP": ({"seq": "int32", "padding_1_": "int32", "t": "double"}, 16),
        "TAILRES": ({"a": "double", "padding_0_": "char[8]"}, 16),
        "NEEDS": ({"c": "char", "padding_7_": "char[2]", "x": "int32"}, None),  # needs one generated pad next to the user's own
    }
    try:
        for as_msg in (False, True):
            for name, (fields, size) in cases.items():
                n += 1
                sec = {"message_defs": {name: {"id": 4700, "fields": fields}}} if as_msg else {"struct_defs": {name: {"fields": fields}}}
                root = defx.Program({"root.yaml": sec}).write(d)
                try:
                    p = defx.parse_model(root, import_coredefs=False)
                except Exception as e:
                    problems.append({"kind": "user-padding-field-rejected", "name": name, "msg": as_msg, "exc": f"{type(e).__name__}: {str(e)[:120]}"})
                    continue
                dd = (p.message_defs if as_msg else p.struct_defs)[name]
                got = [(f.name, f.type_name, f.length) for f in dd.fields]
                user = [(fn, ft.split("[")[0], int(ft.split("[")[1][:-1]) if "[" in ft else None) for fn, ft in fields.items()]
                # every user field survives, in order, with its type and length
                it = iter(got)
                missing = [u for u in user if not any(g[0] == u[0] and g[1] == u[1] and (g[2] or None) == u[2] for g in it)]
                if missing or (size is not None and dd.size != size):
                    problems.append({"kind": "user-field-changed-by-auto-padding", "name": name, "msg": as_msg, "user_fields": user, "compiled_fields": got,
                                     "size": dd.size, "natural_size": size})
    finally:
        core.rmtree(d)
    return {"problems": problems, "stats": {"user_padding_cases": n}}


def cli_options(_=None) -> Dict[str, Any]:
    """compiler_options written in the definition file must reach the parser when the command line entry point is used"""
    import contextlib
    import io
    import sys
    import pyrtma.compile as pc
    import pyrtma.compilers.python as pyc
    from .. import valx

    problems = []
    n = 0
    d = core.scratch_dir("c11cli")
    try:
        mis = {"a": "char", "b": "int32"}  # needs 3 padding bytes
        ok = {"a": "int32", "b": "int32"}
        for opts, fields, flags, want_exit, label, *imported in (
                # what an IMPORTED file says about the layout options concerns nobody but (at most) itself
                ({}, mis, ["--no_auto_pad"], 1, "--no_auto_pad flag, the imported file says AUTO_PAD true", {"AUTO_PAD": "true"}),
                ({"AUTO_PAD": "false"}, mis, [], 1, "AUTO_PAD false in the root file, the imported file says AUTO_PAD true", {"AUTO_PAD": "true"}),
                ({"AUTO_PAD": "false"}, mis, [], 1, "AUTO_PAD false in the root file, the imported file says VALIDATE_ALIGNMENT false", {"VALIDATE_ALIGNMENT": "false"}),
                ({"AUTO_PAD": "false"}, ok, [], 0, "AUTO_PAD false in the root file, aligned, the imported file says AUTO_PAD true", {"AUTO_PAD": "true", "VALIDATE_ALIGNMENT": "true"}),
                ({}, mis, [], 0, "defaults, misaligned, the imported file says AUTO_PAD false (and is aligned itself)", {"AUTO_PAD": "false"}),
                ({"AUTO_PAD": "false"}, mis, [], 1, "AUTO_PAD false in file, misaligned"),
                ({"AUTO_PAD": "false"}, ok, [], 0, "AUTO_PAD false in file, aligned"),
                ({"AUTO_PAD": "true"}, mis, [], 0, "AUTO_PAD true in file, misaligned"),
                ({}, mis, ["--no_auto_pad"], 1, "--no_auto_pad flag, misaligned"),
                ({}, mis, [], 0, "defaults, misaligned"),
                ({"VALIDATE_ALIGNMENT": "false", "AUTO_PAD": "false"}, mis, [], 0, "validation off in file, misaligned"),
                ({"AUTO_PAD": "false", "IMPORT_COREDEFS": "false"}, mis, [], 1, "AUTO_PAD false + no core import, misaligned")):
            n += 1
            sub = os.path.join(d, f"c{n}")
            os.makedirs(sub)
            lines = []
            if imported:
                os.makedirs(os.path.join(sub, "vendor"))
                with open(os.path.join(sub, "vendor", "lib.yaml"), "w") as fh:
                    fh.write("\n".join(["compiler_options:"] + [f"  {k}: {v}" for k, v in imported[0].items()]
                                       + ["struct_defs:", "  LIB_S:", "    fields:", "      p: int32", "      q: int32"]) + "\n")
                lines += ["imports:", "  - vendor/lib.yaml"]
            if opts:
                lines.append("compiler_options:")
                lines += [f"  {k}: {v}" for k, v in opts.items()]
            lines += ["message_defs:", "  CLI_T:", "    id: 4700", "    fields:"] + [f"      {k}: {v}" for k, v in fields.items()]
            root = os.path.join(sub, "root.yaml")
            open(root, "w").write("\n".join(lines) + "\n")
            argv = sys.argv
            sys.argv = ["pyrtma.compile", "-i", root, "--c", "-o", sub] + flags
            old = pyc.subprocess
            pyc.subprocess = valx._Subprocess(False)
            code = 0
            try:
                with contextlib.redirect_stdout(io.StringIO()), contextlib.redirect_stderr(io.StringIO()):
                    pc.main()
            except SystemExit as e:
                code = int(e.code or 0)
            except Exception as e:
                code = f"{type(e).__name__}"
            finally:
                pyc.subprocess = old
                sys.argv = argv
            hdr = os.path.join(sub, "root.h")
            padded = os.path.exists(hdr) and "padding_" in open(hdr).read()
            if code != want_exit:
                problems.append({"kind": "cli-option-ignored", "case": label, "exit": code, "expected_exit": want_exit, "padding_inserted": padded})
    finally:
        core.rmtree(d)
    return {"problems": problems, "stats": {"cli_cases": n}}


def run(tier: str) -> int:
    chk = core.Check("C11", tier, "exploration",
                     "every field sequence up to the length bound over the width/array/nested-struct alphabet, as struct and as "
                     "message and through field-list reuse, compiled with auto_pad on (batched) and parsed one by one with auto_pad "
                     "off; layouts compared between a reference computation, gcc, ctypes and the parser. Distinct non-trivial = "
                     "sequences for which padding had to be inserted.")
    seqs = core.shuffled(sequences(tier), "c11")
    batches = [(i, b) for i, b in enumerate(core.chunks(seqs, 300))]
    res = core.pmap(check_batch, batches)
    res.append(size_boundaries())
    res.append(cli_options())
    res.append(aliased_structs())
    res.append(placed_definitions())
    res.append(renamed_layouts())
    res.append(metadata_variants())
    res.append(user_fields_named_like_padding())
    core.close_pool()
    totals: Dict[str, int] = {}
    for r in res:
        for k, v in r["stats"].items():
            totals[k] = totals.get(k, 0) + v
        for p in r["problems"]:
            chk.violation(f"C11:{p['kind']}", f"{p}", {"module": "vf.checks.c11", "problem": p}, size=len(str(p.get("seq", p))))
    chk.merge_counts(totals)
    chk.sample({"sequence": list(seqs[0]), "fields": fields_of(seqs[0]), "reference": reference_layout(seqs[0])})
    chk.sample({"sequence": list(seqs[-1]), "fields": fields_of(seqs[-1]), "reference": reference_layout(seqs[-1])})
    chk.assumptions += ["gcc (x86-64 SysV) layout is the ground truth for C", "ctypes layout for Python", "import_coredefs off (layout code is independent of the core definitions)"]
    return chk.finish({"evaluations": totals.get("cases", 0) * 2 + totals.get("size_cases", 0) + totals.get("renamed_cases", 0) + totals.get("metadata_cases", 0) + totals.get("user_padding_cases", 0) + totals.get("aliased_struct_cases", 0) + totals.get("placed_cases", 0) + totals.get("cli_cases", 0), "distinct_nontrivial": totals.get("padded", 0)})


def replay(case) -> int:
    p = case["problem"]
    if p.get("kind") == "cli-option-ignored":
        r = cli_options()
    elif "earlier-compilation" in p.get("kind", ""):
        r = renamed_layouts()
    elif "user" in p.get("kind", ""):
        r = user_fields_named_like_padding()
    elif "metadata" in p.get("kind", "") or p.get("kind") == "layout-reference-unexpected":
        r = metadata_variants()
    elif "seq" not in p:
        r = size_boundaries()
    else:
        r = check_batch((0, [tuple(p["seq"])]))
    hit = [q for q in r["problems"] if q["kind"] == p["kind"]]
    for q in hit[:5]:
        print("  PROBLEM:", q)
    print("reproduced" if hit else "NOT reproduced")
    return 1 if hit else 0
