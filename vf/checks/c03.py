"""C03 - no client can take the manager down (fault enumeration on the real manager, virtual TCP).

Every fault of the alphabet is applied to a manager that serves a connected bystander pair, under
log levels {silent, INFO} and with / without a subscribe-all monitor. Oracle: nothing escapes
run(); afterwards the bystanders still exchange a message and a fresh pair completes
connect - subscribe - publish - receive with its acknowledgements; the periodic TIMING / TRAFFIC /
ACTIVE_CLIENTS reports still go out.

Fault descriptors (JSON-able):
  ["raw", position, hex, end]     attacker in protocol position writes bytes, then end in none|fin|rst
  ["wdie", role, how]             a recipient (subscriber|logger|acked|failsub|closedsub) is dead (fin|rst) when the manager writes to it
  ["flood", n]                    n extra TCP connections (connected with CONNECT), then timers
"""
from __future__ import annotations

import itertools
import logging
import struct
from typing import Any, Dict, List, Optional, Sequence, Tuple

from .. import core, mmx, net as N, proto as P

T1 = 1001
INT32 = (-2 ** 31, -1, 0, 1, 2 ** 31 - 1)
INT16 = (-2 ** 15, -1, 0, 1, 2 ** 15 - 1)
UINT32 = (0, 1, 2 ** 31, 2 ** 32 - 1)
DBL = (float("-inf"), -1.0, 0.0, float("nan"), 1.7976931348623157e308)
FIELD_VALUES = {"msg_type": INT32, "msg_count": INT32, "send_time": DBL, "recv_time": DBL, "src_host_id": INT16,
                "src_mod_id": INT16, "dest_host_id": INT16, "dest_mod_id": INT16, "num_data_bytes": (),
                "remaining_bytes": INT32, "is_dynamic": INT32, "reserved": UINT32, "utc_seconds": UINT32,
                "utc_fraction": UINT32}
POSITIONS = ("accepted", "connected", "subscribed", "suball", "logger")


# ---- the fault alphabet -------------------------------------------------------------------------

def _frame(tc, mt, payload=b"", **kw):
    kw.setdefault("src_mod_id", 41)
    return P.mkframe(mt, payload, timecode=tc, **kw)


def protocol_frames(tc) -> Dict[str, bytes]:
    return {
        "CONNECT_V2": _frame(tc, P.MT_CONNECT_V2, P.p_connect_v2(0, 0, 0, 42, 1234, b"attacker")),
        "CONNECT": _frame(tc, P.MT_CONNECT, P.p_connect(0, 0), src_mod_id=43),
        "SUBSCRIBE": _frame(tc, P.MT_SUBSCRIBE, P.p_sub(T1)),
        "UNSUBSCRIBE": _frame(tc, P.MT_UNSUBSCRIBE, P.p_sub(T1)),
        "PAUSE": _frame(tc, P.MT_PAUSE_SUBSCRIPTION, P.p_sub(T1)),
        "RESUME": _frame(tc, P.MT_RESUME_SUBSCRIPTION, P.p_sub(T1)),
        "MODULE_READY": _frame(tc, P.MT_MODULE_READY, P.P_READY.pack(77)),
        "CLIENT_SET_NAME": _frame(tc, P.MT_CLIENT_SET_NAME, P.P_NAME.pack(b"renamed")),
        "DISCONNECT": _frame(tc, P.MT_DISCONNECT),
        "DATA": _frame(tc, T1, b"0123456789ab"),
    }


def single_faults(tc: bool, tier: str) -> List[List]:
    out: List[List] = []
    names = P.HFIELDS_TC if tc else P.HFIELDS
    # (i) every header field at every boundary of its C type, unconnected / connected sender
    for f in names:
        for v in FIELD_VALUES[f]:
            for pos in ("accepted", "connected"):
                if f == "msg_type":
                    out.append(["raw", pos, P.mkframe(v, b"", timecode=tc, src_mod_id=41).hex(), "none"])
                    continue
                for mt in (T1, P.MT_SUBSCRIBE):
                    payload = P.p_sub(T1) if mt == P.MT_SUBSCRIBE else b""
                    kw = {"src_mod_id": 41}
                    kw[f] = v
                    out.append(["raw", pos, P.mkframe(mt, payload, timecode=tc, **kw).hex(), "none"])
    # (ii) message type ids x payload shapes
    core_ids = sorted(P.CORE_SIZES)
    mts = [-2 ** 31, -1, 9999, 10000, 10001, 65535, 2 ** 31 - 1] + core_ids
    for mt in mts:
        size = P.CORE_SIZES.get(mt, 8)
        shapes = {0, size, max(0, size - 1), size + 3}
        for n in sorted(shapes):
            if n > 70000:
                continue
            for pos in ("connected",) if tier == "quick" and mt in core_ids else ("accepted", "connected"):
                out.append(["raw", pos, P.mkframe(mt, b"\xa5" * n, timecode=tc, src_mod_id=41).hex(), "none"])
    # (iii) declared payload lengths with fewer bytes on the wire, then FIN / RST
    for declared in (-2 ** 31, -1, 1, 5, 65535, 2 ** 20, 2 ** 20 + 1, 2 ** 31 - 1):
        for sent in (0, 3):
            for end in ("fin", "rst"):
                for pos in ("accepted", "connected"):
                    h = P.mkheader(tc, msg_type=T1, src_mod_id=41, num_data_bytes=declared)
                    out.append(["raw", pos, (h + b"\x11" * sent).hex(), end])
    # (iv) hostile control payloads
    bad_names = [b"\xff" * 32, b"\xc3\xa9t\xc3\xa9", b"a" * 32, b"\x80", b"\x00" * 32, bytes(range(1, 33))]
    for nm in bad_names:
        out.append(["raw", "accepted", _frame(tc, P.MT_CONNECT_V2, P.P_CONNECT_V2.pack(0, 0, 0, 44, 1, nm)).hex(), "none"])
        out.append(["raw", "accepted", _frame(tc, P.MT_CONNECT_V2, P.P_CONNECT_V2.pack(0, 0, 1, 0, 1, nm)).hex(), "none"])
        out.append(["raw", "connected", _frame(tc, P.MT_CLIENT_SET_NAME, P.P_NAME.pack(nm)).hex(), "none"])
    for lg, dm, am, mid in itertools.product((-2 ** 15, 2 ** 15 - 1, 2), (7,), (-1, 2), (-2 ** 15, 2 ** 15 - 1, 0, 201)):
        out.append(["raw", "accepted", _frame(tc, P.MT_CONNECT_V2, P.P_CONNECT_V2.pack(lg, dm, am, mid, -1, b"x")).hex(), "none"])
    for mt in (P.MT_CONNECT, P.MT_CONNECT_V2, P.MT_SUBSCRIBE, P.MT_UNSUBSCRIBE, P.MT_PAUSE_SUBSCRIPTION,
               P.MT_RESUME_SUBSCRIPTION, P.MT_MODULE_READY, P.MT_CLIENT_SET_NAME):
        for pos in ("accepted", "connected"):
            out.append(["raw", pos, _frame(tc, mt, b"").hex(), "none"])  # control frame without its payload
            out.append(["raw", pos, _frame(tc, mt, b"\x01").hex(), "none"])  # ... with a one-byte payload
    for t in (-2 ** 31, -1, 10000, 2 ** 31 - 2, 2 ** 31 - 1):
        for mt in (P.MT_SUBSCRIBE, P.MT_UNSUBSCRIBE, P.MT_PAUSE_SUBSCRIPTION, P.MT_RESUME_SUBSCRIPTION):
            out.append(["raw", "connected", _frame(tc, mt, P.p_sub(t)).hex(), "none"])
    # a client that subscribes (to everything, to the manager's log records) BEFORE it says CONNECT - the request is served - then
    # connects and is gone at once (whatever the manager publishes about the newcomer is also addressed to the newcomer)
    for sub in (P.ALL_MESSAGE_TYPES, P.LOG_TYPES[-2], P.MT_CLIENT_INFO):
        for v2 in (True, False):
            for end in ("fin", "rst", "none"):
                out.append(["presub", sub, v2, end])
    # every control request from every protocol position (state left over from earlier requests)
    for pos in ("subscribed", "suball", "logger"):
        for mt in (P.MT_SUBSCRIBE, P.MT_UNSUBSCRIBE, P.MT_PAUSE_SUBSCRIPTION, P.MT_RESUME_SUBSCRIPTION):
            for t in (T1, 1002, 1009, 2 ** 31 - 1):
                out.append(["raw", pos, _frame(tc, mt, P.p_sub(t)).hex(), "none"])
        out.append(["raw", pos, _frame(tc, P.MT_CONNECT, P.p_connect(1, 0)).hex(), "none"])
        out.append(["raw", pos, _frame(tc, P.MT_CLIENT_SET_NAME, P.P_NAME.pack(b"n" * 31)).hex(), "none"])
        out.append(["raw", pos, _frame(tc, P.MT_MODULE_READY, P.P_READY.pack(-1)).hex(), "none"])
    # publish on a type subscribed with a hostile id so that the subscription table is exercised
    out.append(["raw", "connected", (_frame(tc, P.MT_SUBSCRIBE, P.p_sub(-1)) + _frame(tc, -1, b"")).hex(), "none"])
    # (v) FIN / RST after every byte offset of every protocol frame, in every protocol position
    frames = protocol_frames(tc)
    for name, fr in frames.items():
        positions = POSITIONS if tier == "thorough" or name in ("SUBSCRIBE", "DATA", "CONNECT_V2") else ("accepted", "connected")
        for pos in positions:
            if name in ("CONNECT", "CONNECT_V2") and pos != "accepted" and tier == "quick":
                continue
            for off in range(0, len(fr) + 1):
                for end in ("fin", "rst"):
                    out.append(["raw", pos, fr[:off].hex(), end])
    # (vi) connection counts
    for n in ((99, 101, 255, 256, 257, 300) if tier == "thorough" else (101, 257)):
        for how in ("dynamic", "shared", "accepted"):
            out.append(["flood", n, how])
    # (vi-b) a long line of dynamically numbered clients, each leaving without a word (end of stream, a frame cut short, an impossible
    # declared length): the hundred-and-first ordinary newcomer is served like the first
    for how in ("fin", "truncated", "badlen", "rst-mid-frame"):
        out.append(["churn", 103, how])
    # (vii) write-side failures
    for role in ("subscriber", "logger", "acked", "failsub", "closedsub", "subscriber+logger", "ackcopy", "ackcopy2"):
        for how in ("fin", "rst"):
            out.append(["wdie", role, how])
    # (vii-b) clients that are momentarily slow (not writable in one round - they keep reading afterwards) while something is due
    # to them, including the notice about the very message they could not take
    for role in ("failsub", "suball", "closedsub", "infosub", "timingsub"):
        for trig in ("publish", "ctl", "leave", "timers"):
            for nslow in (1, 2):
                out.append(["slow", role, trig, nslow])
    # (viii) asynchronous deaths: a recipient dies right before the manager's k-th send of a round
    for role in ("subscriber", "suball", "logger", "infosub", "closedsub"):
        for how in ("fin", "rst"):
            for k in (1, 2, 3, 5):
                for trig in ("publish", "ctl", "timers"):
                    out.append(["adie", role, how, k, trig])
    # ... a MESSAGE_TRAFFIC / TIMING subscriber dies in the middle of a report that spans several sub-messages (70 distinct types seen)
    for role in ("trafficsub", "timingsub"):
        for how in ("fin", "rst"):
            for k in (1, 2, 3):
                out.append(["adie", role, how, k, "reports"])
    # ... hundreds of subscribers of the manager's own notices reset at the same instant: every departure is announced to the
    # others, each announcement uncovers the next dead one
    for n in ((120, 300) if tier == "quick" else (100, 250, 300, 600)):
        for sub in (P.MT_CLIENT_CLOSED, P.ALL_MESSAGE_TYPES, P.MT_FAILED_MESSAGE):
            out.append(["mass-die", n, sub])
    # ... an exclusive newcomer asks for an id that two connections share (both allow multiple instances): whoever is refused, the
    # holders stay connected, acknowledged and served
    for am in (0, 1):
        for how in ("stay", "fin"):
            out.append(["shared-id-newcomer", am, how])
    # ... a connecting module dies right before the manager's k-th send of the round that serves its own CONNECT
    for role in ("newlogger", "newmodule"):
        for how in ("fin", "rst"):
            for k in (1, 2, 3, 4, 6):
                out.append(["adie", role, how, k, "connect"])
    return out


# ---- execution -----------------------------------------------------------------------------------

class Ctx:
    def __init__(self, tc, log_level, monitor, grace, flip):
        self.tc = tc
        if isinstance(log_level, str):
            # "console-info" / "console-error": the manager keeps its default console handler (rich formatting and markup), writing into a buffer
            self.w = mmx.World(timecode=tc, log_level=logging.INFO if log_level.endswith("info") else logging.ERROR, fin_grace=grace, console=True)
        else:
            self.w = mmx.World(timecode=tc, log_level=log_level, fin_grace=grace)
        self.n = 0
        self.extra: List[Dict[str, Any]] = []  # problems found by a fault's own follow-up
        self.flip = flip
        self.monitor = monitor
        self.mid = 40

    def next_mid(self):
        self.mid += 1
        return self.mid

    def new(self, name, hid=None):
        self.n += 1
        return self.w.client(name, hid).connect()

    def handshake(self, c, mid, logger=0, v2=True):
        tc = self.tc
        if v2:
            c.send(P.mkframe(P.MT_CONNECT_V2, P.p_connect_v2(logger, 0, 0, mid, 5000 + mid, f"m{mid}".encode()), timecode=tc, src_mod_id=mid))
        c.send(P.mkframe(P.MT_CONNECT, P.p_connect(logger, 0), timecode=tc, src_mod_id=mid))

    def sub(self, c, mid, t):
        c.send(P.mkframe(P.MT_SUBSCRIBE, P.p_sub(t), timecode=self.tc, src_mod_id=mid))


def _acks(c) -> int:
    return sum(1 for f in c.inbox if f.msg_type == P.MT_ACKNOWLEDGE and f.src_mod_id == 0)


def setup(tc, log_level, monitor, grace=1, flip=False) -> Ctx:
    cx = Ctx(tc, log_level, monitor, grace, flip)
    w = cx.w
    hs = [1, 2, 3] if not flip else [3, 2, 1]
    S = cx.new("S", hs[0])
    Pp = cx.new("P", hs[1])
    w.settle()
    cx.handshake(S, 31)
    cx.handshake(Pp, 21, v2=False)
    w.settle()
    cx.sub(S, 31, T1)
    if monitor:
        M = cx.new("MON", hs[2])
        w.settle()
        cx.handshake(M, 91)
        w.settle()
        cx.sub(M, 91, P.ALL_MESSAGE_TYPES)
    w.settle()
    return cx


def position(cx: Ctx, name: str, pos: str, hid=None):
    """bring a fresh attacker connection into a protocol position"""
    w = cx.w
    X = cx.new(name, hid)
    w.settle()
    mid = cx.next_mid()
    X.mid = mid
    if pos != "accepted":
        cx.handshake(X, mid, logger=1 if pos == "logger" else 0)
        w.settle()
        if pos == "subscribed":
            cx.sub(X, mid, T1)
            cx.sub(X, mid, 1002)
        elif pos in ("suball", "logger"):
            cx.sub(X, mid, P.ALL_MESSAGE_TYPES)
        w.settle()
    return X


def apply_fault(cx: Ctx, fault: Sequence, name: str = "X", hid=None) -> List[str]:
    """writes the fault into the network (no manager round yet); returns the slots that must be
    ready before the next round for "same round" pairing"""
    w = cx.w
    kind = fault[0]
    if kind == "raw":
        _, pos, hx, end = fault
        X = position(cx, name, pos, hid)
        data = bytes.fromhex(hx)
        if data:
            X.send(data)
        if end == "fin":
            X.fin()
        elif end == "rst":
            X.rst()
        return [name]
    if kind == "flood":
        n, how = fault[1], fault[2]
        for i in range(n):
            c = cx.new(f"{name}F{i}")
            if how == "dynamic":
                c.send(P.mkframe(P.MT_CONNECT, P.p_connect(0, 0), timecode=cx.tc, src_mod_id=0))
            elif how == "shared":  # many instances of one id, all allowing multiple
                c.send(P.mkframe(P.MT_CONNECT_V2, P.p_connect_v2(0, 0, 1, 55, i, b"multi"), timecode=cx.tc, src_mod_id=55))
            # how == "accepted": TCP connection only
        w.settle(limit=4 * n + 50)
        return []
    if kind == "presub":
        _, sub, v2, end = fault
        tc = cx.tc
        X = position(cx, name, "accepted", hid)
        X.send(_frame(tc, P.MT_SUBSCRIBE, P.p_sub(sub)))
        w.settle()
        X.send((_frame(tc, P.MT_CONNECT_V2, P.P_CONNECT_V2.pack(0, 0, 0, 44, 1, b"early")) if v2 else b"") + _frame(tc, P.MT_CONNECT, P.p_connect(0, 0)))
        if end == "fin":
            X.fin()
        elif end == "rst":
            X.rst()
        return [name]
    if kind == "named-newcomer":
        # a listener to everything (the manager's own log records included) has reset its connection; in the same round a newcomer
        # introduces itself with an id and a name
        _, role, how, v2name = fault
        tc = cx.tc
        D = position(cx, name, role, hid)
        X = cx.new(name + "N")
        w.settle()  # (the newcomer's TCP connection is accepted: its handshake and the listener's reset are seen in ONE round)
        D.fin() if how == "fin" else D.rst()
        X.send(P.mkframe(P.MT_CONNECT_V2, P.p_connect_v2(0, 0, 0, 77, 7, bytes.fromhex(v2name)), timecode=tc, src_mod_id=77))
        return [name, name + "N"]
    if kind == "churn":
        _, n, how = fault
        tc = cx.tc
        for i in range(n):
            c = cx.new(f"{name}C{i}")
            c.send(P.mkframe(P.MT_CONNECT_V2, P.p_connect_v2(0, 0, 0, 0, 7, b""), timecode=tc))
            w.settle()
            if how == "truncated":
                c.send(P.mkframe(T1, b"x" * 20, timecode=tc)[:30])
            elif how == "badlen":
                c.send(P.mkheader(tc, msg_type=T1, num_data_bytes=-5))
            elif how == "rst-mid-frame":
                c.send(P.mkframe(T1, b"x" * 20, timecode=tc)[:50])
            if how == "rst-mid-frame":
                c.rst()
            elif how != "badlen":
                c.fin()
            w.settle()
            if how == "badlen":
                c.fin()
                w.settle()
            if not w.alive:
                return []
        N_ = cx.new(f"{name}N")
        N_.send(P.mkframe(P.MT_CONNECT_V2, P.p_connect_v2(0, 0, 0, 0, 7, b""), timecode=tc))
        w.settle()
        N_.drain()
        if w.alive and _acks(N_) != 1:
            cx.extra.append({"kind": "newcomer-not-acknowledged", "detail": f"after {n} dynamically numbered clients had left ({how}), a request for a dynamic id got {_acks(N_)} acknowledgements",
                             "connection": getattr(N_.sock, "peer", "?")})
        return []
    if kind == "wdie":
        _, role, how = fault
        tc = cx.tc
        kill = []
        if role in ("subscriber", "subscriber+logger"):
            D = position(cx, name, "subscribed", hid)
            kill.append(D)
        if role in ("logger", "subscriber+logger"):
            L = position(cx, name + "L", "logger", None)
            kill.append(L)
        if role in ("ackcopy", "ackcopy2"):
            # a logger that is dead when the acknowledgement of somebody else's request is copied to it
            L = position(cx, name + "L", "logger", None)
            if role == "ackcopy2":
                position(cx, name + "L2", "logger", None)
            kill.append(L)
            cx.sub(w.clients["S"], 31, 1002)
        if role == "acked":
            D = position(cx, name, "connected", hid)
            D.send(P.mkframe(P.MT_SUBSCRIBE, P.p_sub(T1), timecode=tc, src_mod_id=D.mid))
            kill.append(D)
        if role == "failsub":
            # a FAILED_MESSAGE subscriber that is dead when a failure notice is due
            D = position(cx, name, "connected", hid)
            cx.sub(D, D.mid, P.MT_FAILED_MESSAGE)
            D2 = position(cx, name + "2", "subscribed", None)
            w.settle()
            kill += [D, D2]
        if role == "closedsub":
            # a CLIENT_CLOSED subscriber that is dead when another client's departure is announced
            D = position(cx, name, "connected", hid)
            cx.sub(D, D.mid, P.MT_CLIENT_CLOSED)
            D2 = position(cx, name + "2", "connected", None)
            w.settle()
            D2.send(P.mkframe(P.MT_DISCONNECT, timecode=tc, src_mod_id=D2.mid))
            kill.append(D)
        for d in kill:
            d.fin() if how == "fin" else d.rst()
        # the bystander publishes in the same round: the manager meets the dead connections on its write side
        w.clients["P"].send(P.mkframe(T1, b"wdie", timecode=tc, src_mod_id=21))
        return [name, "P"]
    if kind == "slow":
        _, role, trig, nslow = fault
        tc = cx.tc
        subs = {"failsub": (T1, P.MT_FAILED_MESSAGE), "suball": (P.ALL_MESSAGE_TYPES,), "closedsub": (T1, P.MT_CLIENT_CLOSED, P.MT_FAILED_MESSAGE),
                "infosub": (T1, P.MT_CLIENT_INFO, P.MT_FAILED_MESSAGE), "timingsub": (P.MT_TIMING_MESSAGE, P.MT_MESSAGE_TRAFFIC, P.MT_FAILED_MESSAGE)}[role]
        names = []
        for i in range(nslow):
            D = position(cx, f"{name}{i}", "connected", hid if i == 0 else None)
            for t in subs:
                cx.sub(D, D.mid, t)
            names.append(f"{name}{i}")
        w.settle()
        if trig == "leave":
            E = position(cx, name + "E", "connected", None)
            w.settle()
            E.send(P.mkframe(P.MT_DISCONNECT, timecode=tc, src_mod_id=E.mid))
        elif trig == "publish":
            w.clients["P"].send(P.mkframe(T1, b"slow", timecode=tc, src_mod_id=21))
        elif trig == "ctl":
            w.clients["P"].send(P.mkframe(P.MT_MODULE_READY, P.P_READY.pack(9), timecode=tc, src_mod_id=21)
                                + P.mkframe(P.MT_SUBSCRIBE, P.p_sub(1003), timecode=tc, src_mod_id=21))
        else:
            w.clients["P"].send(P.mkframe(T1, b"slow", timecode=tc, src_mod_id=21))
            w.settle()
            w.tick(1.05)
        if w.alive:
            w.step(0, nonwritable=names)
        return []
    if kind == "mass-die":
        _, n, sub = fault
        tc = cx.tc
        cs = [cx.new(f"{name}M{i}", None) for i in range(n)]
        w.settle(limit=10 ** 5)
        for c in cs:
            c.send(_frame(tc, P.MT_CONNECT_V2, P.P_CONNECT_V2.pack(0, 0, 1, 50, 1, b"crowd"), src_mod_id=50) + _frame(tc, P.MT_SUBSCRIBE, P.p_sub(sub), src_mod_id=50))
        w.settle(limit=10 ** 5)
        import contextlib
        import io

        # (with logging on and the crowd subscribed to the log records, a record about one failed write is itself delivered to the next
        # dead subscriber: the logging package reports handler errors on stderr - kept out of the check's output)
        with contextlib.redirect_stderr(io.StringIO()):
            for c in cs:
                c.rst()
            w.clients["P"].send(P.mkframe(T1, b"crowd", timecode=tc, src_mod_id=21))
            if w.alive:
                w.settle(limit=10 ** 5)
        return [name]
    if kind == "shared-id-newcomer":
        _, am, how = fault
        tc = cx.tc
        H = []
        for i in range(2):
            h = cx.new(f"{name}H{i}", None)
            w.settle()
            h.send(_frame(tc, P.MT_CONNECT_V2, P.P_CONNECT_V2.pack(0, 0, 1, 70, 500 + i, b"shared"), src_mod_id=70) + _frame(tc, P.MT_SUBSCRIBE, P.p_sub(T1), src_mod_id=70))
            w.settle()
            h.drain()
            H.append(h)
        X = cx.new(name, hid)
        w.settle()
        X.send(_frame(tc, P.MT_CONNECT_V2, P.P_CONNECT_V2.pack(0, 0, am, 70, 9, b"shared"), src_mod_id=70))
        w.settle()
        if how == "fin":
            X.fin()
            w.settle()
        # the holders: still acknowledged and served
        for h in H:
            h.send(_frame(tc, P.MT_SUBSCRIBE, P.p_sub(1002), src_mod_id=70))
        w.settle()
        w.clients["P"].send(P.mkframe(T1, b"share", timecode=tc, src_mod_id=21))
        w.settle()
        for i, h in enumerate(H):
            got = [P.normalize(f) for f in h.drain()]
            if h.gone or getattr(h.sock, "peer", "open") != "open" or sum(1 for k in got if k[0] == "ack") != 1 or sum(1 for k in got if k[0] == "fwd" and k[3] == b"share") != 1:
                cx.extra.append({"prop": "C03", "kind": "innocent-holder-disturbed", "holder": i, "newcomer_allows_multiple": am,
                                 "detail": f"a newcomer (allow_multiple={am}) asked for the id two connections share; holder {i} is no longer connected / acknowledged / served",
                                 "connection": getattr(h.sock, "peer", "?"), "got": [list(k)[:3] for k in got][:4]})
        return [name]
    if kind == "markup":
        # a printable-ASCII name that looks like console markup, then records about that client at every level
        _, nmhex, via = fault
        nm = bytes.fromhex(nmhex)
        tc = cx.tc
        X = position(cx, name, "accepted" if via == "connect" else "connected", hid)
        if via == "connect":
            X.send(_frame(tc, P.MT_CONNECT_V2, P.P_CONNECT_V2.pack(0, 0, 0, X.mid, 1, nm), src_mod_id=X.mid))
        else:
            X.send(_frame(tc, P.MT_CLIENT_SET_NAME, P.P_NAME.pack(nm), src_mod_id=X.mid))
        w.settle()
        # an error record that mentions the client (unroutable destination), a warning (second CONNECT_V2 with a taken name), its departure
        X.send(P.mkframe(T1, b"lost", timecode=tc, src_mod_id=X.mid, dest_mod_id=P.MAX_MODULES + 1))
        X.send(P.mkframe(T1, b"lost", timecode=tc, src_mod_id=X.mid, dest_host_id=P.MAX_HOSTS + 1))
        w.settle()
        Y = cx.new(name + "Y", None)
        w.settle()
        Y.send(_frame(tc, P.MT_CONNECT_V2, P.P_CONNECT_V2.pack(0, 0, 0, 77, 2, nm), src_mod_id=77))
        w.settle()
        X.send(P.mkframe(P.MT_DISCONNECT, b"", timecode=tc, src_mod_id=X.mid))
        return [name]
    if kind == "adie":
        _, role, how, k, trig = fault
        tc = cx.tc
        if role in ("trafficsub", "timingsub"):
            D = position(cx, name, "connected", hid)
            cx.sub(D, D.mid, P.MT_MESSAGE_TRAFFIC if role == "trafficsub" else P.MT_TIMING_MESSAGE)
            w.settle()
            w.tick(1.05)
            w.step()
            w.settle()
            # 70 distinct types in this interval: the traffic report needs more than one sub-message
            w.clients["P"].send(b"".join(P.mkframe(3000 + i, b"", timecode=tc, src_mod_id=21) for i in range(70)))
            w.settle(limit=10 ** 4)
            w.kill_plan = (k, [D], how)
            w.tick(1.05)
            w.step()
            return [name, "P"]
        if role in ("newlogger", "newmodule"):
            D = position(cx, name, "accepted", hid)
            w.kill_plan = (k, [D], how)
            cx.handshake(D, D.mid, logger=1 if role == "newlogger" else 0)
            return [name]
        if role == "subscriber":
            D = position(cx, name, "subscribed", hid)
        elif role == "suball":
            D = position(cx, name, "suball", hid)
        elif role == "logger":
            D = position(cx, name, "logger", hid)
        else:
            D = position(cx, name, "connected", hid)
            cx.sub(D, D.mid, P.MT_CLIENT_INFO if role == "infosub" else P.MT_CLIENT_CLOSED)
            w.settle()
        w.kill_plan = (k, [D], how)
        if trig == "publish":
            w.clients["P"].send(P.mkframe(T1, b"adie", timecode=tc, src_mod_id=21))
        elif trig == "ctl":
            w.clients["P"].send(P.mkframe(P.MT_MODULE_READY, P.P_READY.pack(9), timecode=tc, src_mod_id=21)
                                + P.mkframe(P.MT_SUBSCRIBE, P.p_sub(1003), timecode=tc, src_mod_id=21))
        else:
            w.tick(5.2)
            w.step()
        return [name, "P"]
    raise core.HarnessError(f"unknown fault {fault}")


def oracle(cx: Ctx, tag: str) -> List[Dict[str, Any]]:
    """liveness + service for bystanders and a fresh pair"""
    w = cx.w
    tc = cx.tc
    probs = []

    def dead():
        if not w.alive:
            ex = w.exit or ("?", "")
            probs.append({"kind": "manager-" + ex[0], "detail": str(ex[1])[:300], "trace": (ex[2][-1200:] if len(ex) > 2 else ""), "at": tag})
            return True
        return False

    if dead():
        return probs
    w.settle(limit=2000)
    if dead():
        return probs
    S, Pp = w.clients["S"], w.clients["P"]
    S.drain()
    n0 = len(S.inbox)
    marker = b"bystander:" + tag.encode()[:8]
    Pp.send(P.mkframe(T1, marker, timecode=tc, src_mod_id=21))
    w.settle()
    if dead():
        return probs
    S.drain()
    if not any(f.msg_type == T1 and f.payload == marker for f in S.inbox[n0:]):
        probs.append({"kind": "bystander-not-served", "at": tag})
    # ... and what the manager writes to the by-standers (the subscriber, the publisher, the monitor that listens to everything) is
    # still a sequence of whole frames: being routed to means being able to read what arrives
    for bn in ("S", "P", "MON"):
        b = w.clients.get(bn)
        if b is None or b.gone:
            continue
        b.drain()
        if b.stream_problem or b.leftover():
            probs.append({"kind": "bystander-stream-damaged", "at": tag, "detail": f"{bn}: {b.stream_problem or ('%d stray bytes' % b.leftover())}"})
            b.stream_problem = None
            break
    # fresh well-behaved pair
    k = cx.n
    F1 = cx.new(f"F1_{k}")
    F2 = cx.new(f"F2_{k}")
    w.settle()
    cx.handshake(F1, 71)
    cx.handshake(F2, 72, v2=False)
    w.settle()
    if dead():
        return probs
    cx.sub(F1, 71, 1005)
    w.settle()
    F2.send(P.mkframe(1005, b"fresh", timecode=tc, src_mod_id=72))
    w.settle()
    if dead():
        return probs
    F1.drain()
    F2.drain()
    if _acks(F1) != 2 or _acks(F2) != 1:
        probs.append({"kind": "fresh-pair-not-acknowledged", "acks": [_acks(F1), _acks(F2)], "at": tag})
    if not any(f.msg_type == 1005 and f.payload == b"fresh" for f in F1.inbox):
        probs.append({"kind": "fresh-pair-not-served", "at": tag})
    F1.send(P.mkframe(P.MT_DISCONNECT, timecode=tc, src_mod_id=71))
    F2.send(P.mkframe(P.MT_DISCONNECT, timecode=tc, src_mod_id=72))
    w.settle()
    F1.fin()
    F2.fin()
    w.settle()
    dead()
    return probs


def execute(case) -> Dict[str, Any]:
    """case = (tc, log_level, monitor, grace, flip, faults, mode, order)
    mode: 'single' | 'same' (all faults visible before one round, service order `order`) | 'seq'"""
    tc, log_level, monitor, grace, flip, faults, mode, order = case
    mmx.fresh_gc()
    cx = setup(tc, log_level, monitor, grace, flip)
    w = cx.w
    probs: List[Dict[str, Any]] = []
    nready = 0
    try:
        if mode in ("single", "seq"):
            for i, f in enumerate(faults):
                apply_fault(cx, f, "X" if i == 0 else "Y", hid=None)
                if w.alive:
                    w.settle(limit=2000)
        else:
            for i, f in enumerate(faults):
                apply_fault(cx, f, "X" if i == 0 else "Y", hid=None)
            nready = sum(1 for s in w.mgr.modules.keys() if not s.closed and not s.listening and s.readable()) if w.alive else 0
            if order >= mmx.factorial(nready):
                return {"problems": [], "skipped": True, "nready": nready}
            w.step(order)
        probs += oracle(cx, "after-fault")
        probs += [dict(p, tag="after-fault") for p in cx.extra]
        if not probs:
            for dt in (0.95, 0.2, 5.0):
                w.tick(dt)
                w.step()  # a timeout round: timers fire
                if not w.alive:
                    break
            probs += oracle(cx, "after-timers")
    except N.WouldBlock as e:
        raise core.HarnessError(f"harness blocked: {e}")
    finally:
        w.stop()
    return {"problems": probs, "skipped": False, "nready": nready}


def execute_all_orders(case) -> Dict[str, Any]:
    """mode 'same' with order -1: every service order of the ready set"""
    if case[7] != -1:
        return execute(case)
    probs = []
    k = 0
    n = 1
    while k < n:
        r = execute(case[:7] + (k,))
        if r["skipped"]:
            break
        n = mmx.factorial(r["nready"])
        for p in r["problems"]:
            p["order"] = k
            probs.append(p)
        k += 1
    return {"problems": probs, "skipped": False, "nready": 0, "orders": k}


def run_chunk(cases):
    return [execute_all_orders(c) for c in cases]


def _key(p) -> str:
    d = p.get("detail", "")
    return f"C03:{p['kind']}:{d.split(':')[0][:40]}:{_where(p)}"


def _where(p) -> str:
    tr = p.get("trace", "")
    # innermost frame inside the library
    last = ""
    for line in tr.splitlines():
        line = line.strip()
        if line.startswith("File") and "/pyrtma/" in line:
            last = line.split(", in ")[-1]
    return last


def plan(tier: str):
    cases = []
    envs = [(False, mmx.SILENT, False), (False, logging.INFO, True)]
    if tier == "thorough":
        envs += [(True, mmx.SILENT, True), (True, logging.INFO, False)]
    # names that look like console markup, with the console handler of the default configuration in place
    for tc in ((False,) if tier == "quick" else (False, True)):
        for lvl in ("console-info", "console-error"):
            for nm in (b"[/x]", b"[bold]x[/bold]", b"[/]", b"[red", b"x[/red]", b"\\[x]", b"[link=a]b", b"{x}%s%d"):
                for via in ("connect", "setname"):
                    cases.append((tc, lvl, True, 1, False, [["markup", nm.hex(), via]], "single", 0))
    # the manager run with `-l DEBUG` publishes a record for almost every step it takes: a dead listener is then found in the middle of
    # whatever the manager was doing (every service order of the round)
    for lvl in (logging.DEBUG, logging.INFO):
        for role in ("suball", "logger"):
            for how in ("rst", "fin"):
                for nm in (b"newcomer", b""):
                    for grace in (0, 1):
                        cases.append((False, lvl, True, grace, False, [["named-newcomer", role, how, nm.hex()]], "same", -1))
        for f in single_faults(False, tier):
            if lvl == logging.DEBUG and (f[0] in ("wdie", "slow") or (f[0] == "adie" and f[3] in (1, 2))):
                cases.append((False, lvl, True, 1, False, [f], "single", 0))
    if tier == "quick":
        # the manager started with the timecode header layout (its own messages, notices included, are built around that header):
        # the families in which the manager itself has to write or report
        for f in single_faults(True, tier):
            if f[0] in ("wdie", "adie", "slow", "shared-id-newcomer") or (f[0] == "mass-die" and f[1] <= 120):
                for grace in ((1,) if f[0] not in ("wdie", "adie") else (0, 2)):
                    cases.append((True, mmx.SILENT if f[0] != "slow" else logging.INFO, True, grace, False, [f], "single", 0))
    for tc, lvl, mon in envs:
        singles = single_faults(tc, tier)
        for f in singles:
            for grace in ((1,) if f[0] not in ("wdie", "adie", "presub") else (0, 1, 2)):
                cases.append((tc, lvl, mon, grace, False, [f], "single", 0))
        # pairs: same round (every service order, both hash orders) and consecutive rounds
        if tier == "quick":
            pool_ = ([f for f in singles if f[0] == "wdie" and f[2] == "rst" and f[1] in ("subscriber", "logger", "acked", "ackcopy2", "closedsub", "failsub")]
                     + [f for f in singles if f[0] == "wdie" and f[2] == "fin" and f[1] in ("subscriber", "logger", "subscriber+logger")]
                     + [f for f in singles if f[0] == "adie" and f[3] == 1 and f[2] == "rst" and f[4] == "timers" and f[1] in ("infosub", "logger")]
                     + [f for f in singles if f[0] == "adie" and f[3] == 2 and f[2] == "fin" and f[4] == "publish" and f[1] in ("suball", "logger")]
                     + _crash_points_sample(tc))
        else:
            pool_ = _pair_pool(tc, singles)
        if (tc, lvl, mon) == envs[0] or tier == "thorough":
            for f1, f2 in itertools.product(pool_, repeat=2):
                for flip in (False, True):
                    for grace in ((0, 1) if tier == "thorough" else (1 if flip else 0,)):
                        cases.append((tc, lvl, mon, grace, flip, [f1, f2], "same", -1))
                cases.append((tc, lvl, mon, 1, False, [f1, f2], "seq", 0))
    return cases


def _crash_points_sample(tc):
    fr = protocol_frames(tc)
    out = []
    for name, offs in (("SUBSCRIBE", (10, 50)), ("DATA", (48, 60)), ("CONNECT_V2", (48,))):
        for off in offs:
            for end in ("rst",) if off % 2 else ("fin",):
                out.append(["raw", "subscribed" if name != "CONNECT_V2" else "accepted", fr[name][:off].hex(), end])
    return out


def _pair_pool(tc, singles):
    fr = protocol_frames(tc)
    out = [f for f in singles if f[0] == "wdie"]
    out += [f for f in singles if f[0] == "adie" and f[3] in (1, 3) and f[2] == "rst" and f[4] in ("publish", "timers")]
    for name in ("SUBSCRIBE", "DATA", "CONNECT_V2"):
        L = len(fr[name])
        for off in sorted({0, 47, 48, L}):
            for end in ("fin", "rst"):
                for pos in (("subscribed", "logger") if name != "CONNECT_V2" else ("accepted",)):
                    out.append(["raw", pos, fr[name][:off].hex(), end])
    out.append(["raw", "connected", P.mkframe(10000, b"", timecode=tc, src_mod_id=41).hex(), "none"])
    out.append(["raw", "connected", P.mkheader(tc, msg_type=T1, src_mod_id=41, num_data_bytes=-1).hex(), "fin"])
    out.append(["raw", "accepted", _frame(tc, P.MT_CONNECT_V2, P.P_CONNECT_V2.pack(0, 0, 0, 44, 1, b"\xff" * 32)).hex(), "none"])
    return out


def run(tier: str) -> int:
    chk = core.Check("C03", tier, "fault_enumeration",
                     "fault alphabet (header-field boundaries, message type ids x payload shapes, hostile declared "
                     "lengths, hostile control payloads, FIN/RST after every byte offset of every protocol frame in every "
                     "protocol position, connection floods, write-side deaths) applied singly and in pairs (same round x "
                     "every service order x both hash orders, and consecutive rounds) to the real MessageManager; oracle: "
                     "run() never exits, bystanders and a fresh pair are still served, timers still fire. A case is "
                     "non-trivial when the manager actually consumed the fault (it was read or written to).")
    conf = N.conformance()
    if conf["mismatches"]:
        raise core.HarnessError(f"virtual TCP model disagrees with the kernel: {conf['mismatches'][:2]}")
    cases = plan(tier)
    chunks = core.chunks(core.shuffled(cases, "c03"), 60)
    res = core.pmap(run_chunk, chunks)
    core.close_pool()
    flat = [c for ch in chunks for c in ch]
    i = 0
    executed = skipped = 0
    kinds: Dict[str, int] = {}
    distinct = set()
    for ch in res:
        for r in ch:
            case = flat[i]
            i += 1
            if r["skipped"]:
                skipped += 1
                continue
            executed += r.get("orders", 1)
            kinds[case[6]] = kinds.get(case[6], 0) + 1
            distinct.add((case[0], case[2], case[6], str(case[5])))
            for p in r["problems"]:
                chk.violation(_key(p), f"{p['kind']} {p.get('detail', '')} [{_where(p)}] {p.get('at', '')}",
                              {"module": "vf.checks.c03", "case": list(case), "problem": p},
                              size=len(case[5]) * 100000 + len(str(case[5])))
    for c in (cases[0], cases[len(cases) // 2], cases[-1]):
        chk.sample({"timecode": c[0], "log_level": c[1], "monitor": c[2], "faults": c[5], "mode": c[6], "order": c[7]})
    chk.merge_counts({f"mode_{k}": v for k, v in kinds.items()})
    chk.count("net_conformance_ops", conf["ops"])
    chk.assumptions += ["virtual TCP model (vf.net), conformance-checked against loopback in this run",
                        "a peer that withholds the rest of a frame is never injected (documented stall)"]
    return chk.finish({"evaluations": executed, "distinct_nontrivial": len(distinct), "skipped_orders": skipped,
                       "net_conformance": {"scenarios": conf["scenarios"], "ops": conf["ops"]}})


def replay(case) -> int:
    c = case["case"]
    order = case.get("problem", {}).get("order", c[7])
    c = (c[0], c[1], c[2], c[3], c[4], c[5], c[6], order if c[7] == -1 else c[7])
    r1 = execute(c)
    r2 = execute(c)
    if str(r1["problems"]) != str(r2["problems"]):
        print("HARNESS-ERROR: non-deterministic replay")
        return 2
    print("  env: timecode=%s log_level=%s monitor=%s grace=%s flip=%s mode=%s order=%s" % (c[0], c[1], c[2], c[3], c[4], c[6], c[7]))
    for f in c[5]:
        print("  fault:", f)
    for p in r1["problems"]:
        print("  PROBLEM:", {k: v for k, v in p.items() if k != "trace"})
        if p.get("trace"):
            print(p["trace"])
    print("reproduced" if r1["problems"] else "NOT reproduced")
    return 1 if r1["problems"] else 0
