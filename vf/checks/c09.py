"""C09 - field validation is sound, complete and atomic.

Engine VALX: in-process, bounded-exhaustive enumeration over the real descriptor classes of a
definition file compiled from the current tree (every validator kind at every width, arrays of
length 2, 3, 4, nested structs, struct arrays) and of tests/test_msg_defs.

Oracle for every assignment: snapshot bytes(msg); either the call returns, the value lies in the
field's domain (independent domain model below) and the value read back equals the assigned one -
or it raises and bytes(msg) is unchanged. Out-of-domain values must raise.
Disable-blocks: every well-nested sequence of {enter, exit normally, exit by exception, probe}
up to a length bound: validation must be on exactly when no disable block is currently open.
"""
from __future__ import annotations

import contextvars
import ctypes
import itertools
import math
from typing import Any, Dict, Iterable, List, Optional, Sequence, Tuple

from .. import core, valx

NAN = float("nan")
INF = float("inf")
F32MAX = 3.4028234663852886e38
F64MAX = 1.7976931348623157e308


class Other:
    pass


WRONG_TYPES = [None, "1", b"\x01", 1.0, 2.5, 1 + 0j, [1], Other()]


def int_values(t) -> List[Any]:
    lo, hi = valx.int_bounds(t)
    return [lo - 1, lo, -1, 0, 1, hi, hi + 1, 2 ** 64, -(2 ** 64), 10 ** 400, True, False]


def float_values(t) -> List[Any]:
    mx = F32MAX if t == "float" else F64MAX
    out = [0.0, -0.0, 1.5, mx, -mx, NAN, INF, -INF, 1e39, -1e39, 10 ** 400, True, 7, 2 ** 70]
    if t == "float":
        out += [math.nextafter(F32MAX, INF), 3.4028235677973366e38, 3.5e38, F64MAX]
    return out


def in_int_domain(t, v) -> bool:
    lo, hi = valx.int_bounds(t)
    return isinstance(v, int) and lo <= v <= hi


def float_conv(t, v) -> Optional[float]:
    """nearest representable value, or None when the value is outside the domain"""
    if isinstance(v, bool) or isinstance(v, (int, float)):
        try:
            x = (ctypes.c_float if t == "float" else ctypes.c_double)(v).value
        except OverflowError:
            return None
        return x
    return None


def float_verdict(t, v) -> str:
    """'in' | 'out'. An accepted value reads back as the nearest representable FINITE value, so an explicit infinity cannot
    be accepted either (the quantifier lists +-inf among the boundary values)."""
    if not isinstance(v, (int, float)):
        return "out"
    if isinstance(v, float) and math.isinf(v):
        return "out"
    x = float_conv(t, v)
    if x is None or math.isinf(x):
        return "out"
    return "in"


def same_float(a, b) -> bool:
    if isinstance(a, float) and isinstance(b, float) and math.isnan(a) and math.isnan(b):
        return True
    return a == b and (not (a == 0 and b == 0) or math.copysign(1, a) == math.copysign(1, b))


class Collector:
    def __init__(self):
        self.n = 0
        self.accepted = 0
        self.refused = 0
        self.problems: List[Dict[str, Any]] = []
        self.distinct = set()

    def attempt(self, msg, desc: str, setter, verdict: str, readback=None, expected=None, cmp=None):
        """verdict: 'in' | 'out' | 'unspecified'"""
        self.n += 1
        before = bytes(msg)
        try:
            setter()
        except Exception as e:
            self.refused += 1
            if bytes(msg) != before:
                self.problems.append({"kind": "not-atomic", "what": desc, "exc": type(e).__name__})
            self.distinct.add((desc.split("=")[0], "refused"))
            return False
        self.accepted += 1
        self.distinct.add((desc.split("=")[0], "accepted"))
        if verdict == "out":
            self.problems.append({"kind": "out-of-domain-accepted", "what": desc, "stored": _short(readback() if readback else None)})
            return True
        if verdict == "in" and readback is not None:
            got = readback()
            ok = cmp(got, expected) if cmp else got == expected
            if not ok:
                self.problems.append({"kind": "readback-differs", "what": desc, "got": _short(got), "expected": _short(expected)})
        return True


def _short(x):
    r = repr(x)
    return r if len(r) < 120 else r[:117] + "..."


# ---- scalars ---------------------------------------------------------------------------------------

def check_scalars(mod, col: Collector):
    M = mod.MDF_VAL3
    for t in valx.INT_TYPES:
        f = f"f_{t}"
        for v in int_values(t) + WRONG_TYPES:
            m = M()
            setattr(m, f, 1)
            col.attempt(m, f"{f}={v!r}", lambda: setattr(m, f, v), "in" if in_int_domain(t, v) else "out",
                        lambda: getattr(m, f), int(v) if in_int_domain(t, v) else None)
        # the exact ctypes instance is in the domain
        ct = getattr(ctypes, "c_" + t)
        m = M()
        col.attempt(m, f"{f}=ctypes({t})(5)", lambda: setattr(m, f, ct(5)), "in", lambda: getattr(m, f), 5)
    for t in valx.FLOAT_TYPES:
        f = f"f_{t}"
        for v in float_values(t) + [x for x in WRONG_TYPES if not isinstance(x, float)]:
            m = M()
            setattr(m, f, 2.0)
            vd = float_verdict(t, v)
            col.attempt(m, f"{f}={v!r}", lambda: setattr(m, f, v), vd, lambda: getattr(m, f), float_conv(t, v) if vd == "in" else None, same_float)
    # char / string / byte
    for n, Mn in ((2, mod.MDF_VAL2), (3, mod.MDF_VAL3), (4, mod.MDF_VAL4)):
        strings = ["", "a", "a" * (n - 1), "a" * n, "a" * (n + 1), "é", "aé"[:n - 1] if n > 2 else "é", "a\0b"[:n - 1], "\0", "\x7f", "\n"]
        for v in strings + [None, 1, b"a", 1.0, ["a"], Other()]:
            m = Mn()
            m.s = "z" * (n - 1)
            ok = isinstance(v, str) and v.isascii() and len(v) <= n - 1
            col.attempt(m, f"s[{n}]={v!r}", lambda: setattr(m, "s", v), "in" if ok else "out", lambda: m.s,
                        v.split("\0")[0] if ok else None)
        for v in ["", "a", "ab", "é", "\0", "\x7f", None, 1, b"a", 1.0, Other()]:
            m = Mn()
            m.c = "z"
            ok = isinstance(v, str) and v.isascii() and len(v) == 1
            vd = "in" if ok else ("unspecified" if v == "" else "out")
            col.attempt(m, f"c={v!r}", lambda: setattr(m, "c", v), vd, lambda: m.c, v if ok else None)
        for v in [-1, 0, 1, 255, 256, 2 ** 64, True, b"", b"\x00", b"\xff", b"ab", bytearray(b"\x07"), bytearray(b""), None, "a", 1.0, [1], Other()]:
            m = Mn()
            m.b = 9
            if isinstance(v, int):
                ok, exp = 0 <= v <= 255, int(v)
            elif isinstance(v, (bytes, bytearray)):
                ok, exp = len(v) == 1, (v[0] if len(v) == 1 else None)
            else:
                ok, exp = False, None
            col.attempt(m, f"b={v!r}", lambda: setattr(m, "b", v), "in" if ok else "out", lambda: m.b, exp)
        # nested struct
        for v in [mod.VSUB(), mod.VOTHER(), mod.VINNER(), None, 1, "x", b"\0" * 24, {}, Other(), Mn()]:
            m = Mn()
            m.st.a = 77
            if isinstance(v, mod.VSUB):
                v.a = 5
                v.inner.x = -3
                v.b = 2.5
                v.s = "abc"
            ok = isinstance(v, mod.VSUB)
            col.attempt(m, f"st={type(v).__name__}", lambda: setattr(m, "st", v), "in" if ok else "out", lambda: bytes(m.st), bytes(v) if ok else None)
        # fields of the nested struct are validated too
        for v in [2 ** 31, -2 ** 31 - 1, 1.0, None]:
            m = Mn()
            col.attempt(m, f"st.a={v!r}", lambda: setattr(m.st, "a", v), "out")
            col.attempt(m, f"sa[1].inner.x={v!r}", lambda: setattr(m.sa[1].inner, "x", v), "out")
        m = Mn()
        col.attempt(m, "st.inner.x=-32768", lambda: setattr(m.st.inner, "x", -32768), "in", lambda: m.st.inner.x, -32768)


# ---- arrays ----------------------------------------------------------------------------------------

def slices(n: int):
    rng = [None] + list(range(-n - 1, n + 2))
    for a in rng:
        for b in rng:
            for c in (None, 1, 2, -1, -2, 3):
                yield slice(a, b, c)


def check_arrays(mod, col: Collector, tier: str):
    for n, Mn in ((2, mod.MDF_VAL2), (3, mod.MDF_VAL3), (4, mod.MDF_VAL4)):
        for t in list(valx.INT_TYPES) + list(valx.FLOAT_TYPES):
            isint = t in valx.INT_TYPES
            f = f"a_{t}"
            good = [1, 2, 3, 4][:n] if isint else [1.5, -2.5, 0.0, 4.0][:n]
            prefill = [9] * n if isint else [9.5] * n
            lo, hi = valx.int_bounds(t) if isint else (None, None)
            vals = (int_values(t) if isint else float_values(t)) + WRONG_TYPES
            verdict = (lambda v: "in" if in_int_domain(t, v) else "out") if isint else (lambda v: float_verdict(t, v))
            conv = (lambda v: int(v)) if isint else (lambda v: float_conv(t, v))
            cmp1 = None if isint else same_float
            cmpl = None if isint else (lambda a, b: len(a) == len(b) and all(same_float(x, y) for x, y in zip(a, b)))
            # element assignment at every index
            for i in list(range(-n, n)) + [n, -n - 1]:
                for v in vals:
                    if isint and isinstance(v, float):
                        pass
                    m = Mn()
                    setattr(m, f, good)
                    arr = getattr(m, f)
                    inrange = -n <= i < n
                    vd = verdict(v) if inrange else "out"
                    if isinstance(v, list):
                        vd = "out"
                    col.attempt(m, f"{f}[{i}]={v!r}", lambda: arr.__setitem__(i, v), vd,
                                (lambda: getattr(m, f)[i]) if inrange else None, conv(v) if vd == "in" else None, cmp1)
            # whole array / slices: every position of one bad element in an otherwise valid sequence
            bads = [v for v in vals if verdict(v) == "out" and not isinstance(v, list)]
            bads = bads if tier == "thorough" else bads[:9]
            # the SAME sequence object, assigned while it was valid, then changed by its owner and assigned again (to the same message,
            # to another one, whole and as a slice): every assignment is judged on what the sequence holds now
            for pos in range(n):
                for bad in bads[:6]:
                    for target in ("same", "other", "slice"):
                        buf = list(good)
                        m = Mn()
                        setattr(m, f, buf)
                        buf[pos] = bad
                        m2 = m if target != "other" else Mn()
                        setattr(m2, f, prefill) if target == "other" else None
                        if target == "slice":
                            arr = getattr(m2, f)
                            col.attempt(m2, f"{f}[:]=same list object, now bad@{pos}:{bad!r}", lambda: arr.__setitem__(slice(None), buf), "out", lambda: getattr(m2, f)[:])
                        else:
                            col.attempt(m2, f"{f}=same list object ({target} message), now bad@{pos}:{bad!r}", lambda: setattr(m2, f, buf), "out", lambda: getattr(m2, f)[:])
            buf = list(good)
            m = Mn()
            setattr(m, f, buf)
            buf[0], buf[-1] = good[-1], good[0]
            col.attempt(m, f"{f}=same list object, other valid values", lambda: setattr(m, f, buf), "in", lambda: getattr(m, f)[:], [conv(x) for x in buf], cmpl)
            forms = {"list": list, "tuple": tuple}
            for formname, form in forms.items():
                # valid
                m = Mn()
                col.attempt(m, f"{f}={formname}(good)", lambda: setattr(m, f, form(good)), "in", lambda: getattr(m, f)[:], [conv(x) for x in good], cmpl)
                for pos in range(n):
                    for bad in bads:
                        seq = list(good)
                        seq[pos] = bad
                        m = Mn()
                        setattr(m, f, prefill)
                        col.attempt(m, f"{f}={formname}(bad@{pos}:{bad!r})", lambda: setattr(m, f, form(seq)), "out", lambda: getattr(m, f)[:])
                        if not isint:
                            # ... also next to a NaN, in every arrangement
                            for npos in range(n):
                                if npos == pos:
                                    continue
                                seq2 = list(seq)
                                seq2[npos] = NAN
                                m = Mn()
                                setattr(m, f, prefill)
                                col.attempt(m, f"{f}={formname}(bad@{pos}:{bad!r},nan@{npos})", lambda: setattr(m, f, form(seq2)), "out", lambda: getattr(m, f)[:])
                if tier == "thorough":
                    # two bad elements: every pair of positions x every pair of out-of-domain values
                    for p1, p2 in itertools.combinations(range(n), 2):
                        for b1 in bads:
                            for b2 in bads:
                                seq = list(good)
                                seq[p1], seq[p2] = b1, b2
                                m = Mn()
                                setattr(m, f, prefill)
                                col.attempt(m, f"{f}={formname}(bad@{p1}:{b1!r},bad@{p2}:{b2!r})", lambda: setattr(m, f, form(seq)), "out", lambda: getattr(m, f)[:])
                    # a bad element in a sequence whose other elements sit on the domain's edges
                    edges = ([lo, hi, 0, -1 if lo < 0 else 1][:n]) if isint else [F32MAX if t == "float" else F64MAX, -0.0, NAN, 1.5][:n]
                    for pos in range(n):
                        for bad in bads:
                            seq = list(edges)
                            seq[pos] = bad
                            m = Mn()
                            setattr(m, f, prefill)
                            col.attempt(m, f"{f}={formname}(edges,bad@{pos}:{bad!r})", lambda: setattr(m, f, form(seq)), "out", lambda: getattr(m, f)[:])
                    m = Mn()
                    col.attempt(m, f"{f}={formname}(edges)", lambda: setattr(m, f, form(edges)), "in", lambda: getattr(m, f)[:], [conv(x) for x in edges], cmpl)
                if isint and n >= 3:
                    for mid in (2.5, 2.0, NAN, complex(2, 0)):
                        for pos in range(1, n):
                            seq = [1, 2, 3, 4][:n]
                            seq[pos] = mid
                            m = Mn()
                            setattr(m, f, prefill)
                            col.attempt(m, f"{f}={formname}(inner@{pos}:{mid!r})", lambda: setattr(m, f, form(seq)), "out", lambda: getattr(m, f)[:])
                # wrong lengths
                for seq in (good[:-1], good + good[:1], []):
                    m = Mn()
                    setattr(m, f, good)
                    col.attempt(m, f"{f}={formname}(len{len(seq)})", lambda: setattr(m, f, form(seq)), "out", lambda: getattr(m, f)[:])
            if not isint:
                # NaN alone and in every position is in the domain
                for pos in range(n):
                    seq = list(good)
                    seq[pos] = NAN
                    m = Mn()
                    col.attempt(m, f"{f}=list(nan@{pos})", lambda: setattr(m, f, seq), "in", lambda: getattr(m, f)[:], [conv(x) for x in seq], cmpl)
            # from another bound array (same / other kind / other length) and from a ctypes array
            src = Mn()
            setattr(src, f, good)
            m = Mn()
            col.attempt(m, f"{f}=bound({f})", lambda: setattr(m, f, getattr(src, f)), "in", lambda: getattr(m, f)[:], [conv(x) for x in good], cmpl)
            # ... from a differently named field of the same kind and length: of another message, of the same message
            g2 = [conv(x) for x in (good[::-1] if len(set(good)) > 1 else good)]
            src2 = Mn()
            setattr(src2, f, good)
            setattr(src2, f"z_{t}", g2)
            m = Mn()
            setattr(m, f"z_{t}", prefill)
            col.attempt(m, f"{f}=bound(z_{t} of another message)", lambda: setattr(m, f, getattr(src2, f"z_{t}")), "in", lambda: getattr(m, f)[:], g2, cmpl)
            m2 = Mn()
            setattr(m2, f, prefill)
            setattr(m2, f"z_{t}", g2)
            col.attempt(m2, f"{f}=bound(z_{t} of the same message)", lambda: setattr(m2, f, getattr(m2, f"z_{t}")), "in", lambda: getattr(m2, f)[:], g2, cmpl)
            m3 = Mn()
            setattr(m3, f, good)
            col.attempt(m3, f"z_{t}=bound({f} of the same message)", lambda: setattr(m3, f"z_{t}", getattr(m3, f)), "in", lambda: getattr(m3, f"z_{t}")[:], [conv(x) for x in good], cmpl)
            other_t = "int16" if t != "int16" else "int32"
            m = Mn()
            col.attempt(m, f"{f}=bound(a_{other_t})", lambda: setattr(m, f, getattr(src, f"a_{other_t}")), "out")
            other_n = {2: mod.MDF_VAL3, 3: mod.MDF_VAL4, 4: mod.MDF_VAL2}[n]()
            m = Mn()
            col.attempt(m, f"{f}=bound(other length)", lambda: setattr(m, f, getattr(other_n, f)), "out")
            ct = getattr(ctypes, "c_" + t) * n
            m = Mn()
            col.attempt(m, f"{f}=ctypes_array", lambda: setattr(m, f, ct(*good)), "in", lambda: getattr(m, f)[:], [conv(x) for x in good], cmpl)
            # ctypes arrays of every OTHER element type: what counts is the values they carry, not the width of the carrier
            for t2 in list(valx.INT_TYPES) + list(valx.FLOAT_TYPES):
                if t2 == t:
                    continue
                ct2 = getattr(ctypes, "c_" + t2) * n
                if t2 in valx.INT_TYPES:
                    lo2, hi2 = valx.int_bounds(t2)
                    specials = [lo2, hi2]
                    base2 = [1, 2, 3, 4][:n]
                else:
                    specials = [INF, -1.0, F32MAX if t2 == "float" else F64MAX, 2.0]
                    base2 = [1.0, 2.0, 3.0, 4.0][:n]
                carried = [list(base2)]
                for sp in specials:
                    for pos in (0, n - 1):
                        seq = list(base2)
                        seq[pos] = sp
                        carried.append(seq)
                for seq in carried:
                    src_arr = ct2(*seq)
                    pyvals = list(src_arr)
                    vds = [verdict(v) for v in pyvals]
                    vd = "in" if all(x == "in" for x in vds) else ("out" if "out" in vds else "unspecified")
                    for how in ("whole", "slice"):
                        m = Mn()
                        setattr(m, f, prefill)
                        arr = getattr(m, f)
                        act = (lambda: setattr(m, f, src_arr)) if how == "whole" else (lambda: arr.__setitem__(slice(0, n), src_arr))
                        col.attempt(m, f"{f}={how}:ctypes({t2})({seq!r})", act, vd, lambda: getattr(m, f)[:], [conv(x) for x in pyvals] if vd == "in" else None, cmpl)
            # slices: every (start, stop, step), right / wrong length, good / one bad element
            for sl in slices(n):
                idx = list(range(n))[sl]
                k = len(idx)
                repl = [(7 + j) if isint else (7.25 + j) for j in range(k)]
                m = Mn()
                setattr(m, f, good)
                arr = getattr(m, f)
                exp = list(good)
                for j, ix in enumerate(idx):
                    exp[ix] = repl[j]
                col.attempt(m, f"{f}[{sl.start}:{sl.stop}:{sl.step}]=good{k}", lambda: arr.__setitem__(sl, repl), "in" if k else "unspecified",
                            lambda: getattr(m, f)[:], [conv(x) for x in exp], cmpl)
                if k:
                    for pos in ((0, k - 1) if tier == "quick" else range(k)):
                      for bad in (bads[:1] if tier == "quick" else bads):
                        r2 = list(repl)
                        r2[pos] = bad
                        m = Mn()
                        setattr(m, f, prefill)
                        arr = getattr(m, f)
                        col.attempt(m, f"{f}[{sl.start}:{sl.stop}:{sl.step}]=bad@{pos}:{bad!r}", lambda: arr.__setitem__(sl, r2), "out", lambda: getattr(m, f)[:])
                m = Mn()
                setattr(m, f, good)
                arr = getattr(m, f)
                col.attempt(m, f"{f}[{sl.start}:{sl.stop}:{sl.step}]=len{k + 1}", lambda: arr.__setitem__(sl, repl + repl[:1] + [1]), "out" if sl.step in (None, 1) or k else "unspecified", lambda: getattr(m, f)[:])
        # byte arrays
        goodb = [1, 2, 3, 4][:n]
        for v, ok in [(bytes(goodb), True), (bytearray(goodb), True), (goodb, True), (tuple(goodb), True), (bytes(goodb[:-1]), False),
                      (bytes(goodb) + b"\0", False), ([1, 256][:n] + [0] * (n - 2), n < 2), ([-1] + goodb[1:], False), ([1.0] + goodb[1:], False),
                      ([b"a"] * n, False), ("ab"[:n], False), (None, False), (5, False)]:
            m = Mn()
            m.ba = [9] * n
            col.attempt(m, f"ba[{n}]={v!r}", lambda: setattr(m, "ba", v), "in" if ok else "out", lambda: bytes(m.ba[:]), bytes(goodb) if ok else None)
        for i in range(-n, n):
            for v in [-1, 0, 255, 256, b"\x05", b"", b"ab", bytearray(b"\x06"), "a", None, 1.0]:
                m = Mn()
                m.ba = [9] * n
                arr = m.ba
                if isinstance(v, int):
                    ok, exp = 0 <= v <= 255, v
                elif isinstance(v, (bytes, bytearray)):
                    ok, exp = len(v) == 1, (v[0] if len(v) == 1 else None)
                else:
                    ok, exp = False, None
                col.attempt(m, f"ba[{i}]={v!r}", lambda: arr.__setitem__(i, v), "in" if ok else "out", lambda: m.ba[i][0], exp)
        # ... from carriers that expose their memory (array.array, ctypes arrays, memoryviews): judged on the VALUES they hold
        import array as _array

        def carriers(vals):
            out = []
            for code in ("B", "h", "i", "q", "b"):
                try:
                    out.append((f"array({code!r})", _array.array(code, vals)))
                except (OverflowError, TypeError):
                    pass
            for tn in ("uint8", "int16", "int32", "int8"):
                try:
                    lo_, hi_ = valx.int_bounds(tn)
                    if all(lo_ <= v <= hi_ for v in vals):
                        out.append((f"ctypes({tn})", (getattr(ctypes, "c_" + tn) * len(vals))(*vals)))
                except Exception:
                    pass
            for code in ("h", "i"):
                try:
                    out.append((f"memoryview(array({code!r}))", memoryview(_array.array(code, vals))))
                except (OverflowError, TypeError):
                    pass
            return out

        seqs = [list(goodb)]
        for pos in range(n):
            for bad in (256, -1, 300, 0x0101):
                sq = list(goodb)
                sq[pos] = bad
                seqs.append(sq)
        for sq in seqs:
            allin = all(0 <= v <= 255 for v in sq)
            for cname, car in carriers(sq):
                try:
                    held = list(car)
                except Exception:
                    continue
                vd = "out" if any(not (0 <= v <= 255) for v in held) else ("in" if cname in ("array('B')", "ctypes(uint8)") else "unspecified")
                for how in ("whole", "slice"):
                    m = Mn()
                    m.ba = [9] * n
                    arr = m.ba
                    act = (lambda: setattr(m, "ba", car)) if how == "whole" else (lambda: arr.__setitem__(slice(0, n), car))
                    col.attempt(m, f"ba[{n}]={how}:{cname}({sq!r})", act, vd, lambda: bytes(m.ba[:]), bytes(held) if vd == "in" else None)
        # the same values arriving in bulk - a dictionary / a JSON text turned into a message: one out-of-domain array element, every position
        import json as _json

        base_d = Mn().to_dict()
        for t in list(valx.INT_TYPES) + list(valx.FLOAT_TYPES) + ["bytes"]:
            isint = t in valx.INT_TYPES or t == "bytes"
            f = f"a_{t}" if t != "bytes" else "ba"
            if f not in base_d:
                continue
            good = [1, 2, 3, 4][:n] if isint else [1.5, -2.5, 0.0, 4.0][:n]
            if t == "bytes":
                bl = [256, -1, 1.5, None, "a"]
            elif isint:
                lo_, hi_ = valx.int_bounds(t)
                bl = [hi_ + 1, lo_ - 1, 1.5, None, "1"]
            else:
                bl = [(F32MAX if t == "float" else F64MAX) * 4 if t == "float" else None, None, "1.0", [1.0]]
                bl = [b for b in bl if b is not None or True]
            for pos in range(n):
                for bad in bl:
                    if not isint and isinstance(bad, float) and float_verdict(t, bad) != "out":
                        continue
                    sq = list(good)
                    sq[pos] = bad
                    d = dict(base_d)
                    d[f] = sq
                    m = Mn()
                    col.attempt(m, f"from_dict({f}=bad@{pos}:{bad!r})", lambda: Mn.from_dict(d), "out")
                    try:
                        txt = _json.dumps(d)
                    except Exception:
                        continue
                    m = Mn()
                    col.attempt(m, f"from_json({f}=bad@{pos}:{bad!r})", lambda: Mn.from_json(txt), "out")
            d = dict(base_d)
            d[f] = list(good)
            m = Mn()
            holder = {}
            col.attempt(m, f"from_dict({f}=good)", lambda: holder.__setitem__("m", Mn.from_dict(d)), "in",
                        lambda: [x if not isinstance(x, bytes) else x[0] for x in getattr(holder["m"], f)[:]] if t != "bytes" else list(bytes(holder["m"].ba[:])),
                        [float_conv(t, x) for x in good] if not isint else list(good),
                        None if isint else (lambda a, b: len(a) == len(b) and all(same_float(x, y) for x, y in zip(a, b))))
        # struct arrays
        gs = [mod.VSUB() for _ in range(n)]
        for j, g in enumerate(gs):
            g.a = 10 + j
        for i in range(-n, n):
            # (empty and one-element containers: "no struct at all" and "a struct inside something" are not structs of the element type)
            for v in [mod.VSUB(), mod.VOTHER(), mod.VINNER(), None, 1, Other(), (), [], "", b"", {}, (mod.VSUB(),), [mod.VSUB()]]:
                m = Mn()
                for el in m.sa:
                    el.a = 7
                arr = m.sa
                ok = isinstance(v, mod.VSUB)
                if ok:
                    v.a = 99
                col.attempt(m, f"sa[{i}]={type(v).__name__}", lambda: arr.__setitem__(i, v), "in" if ok else "out", lambda: m.sa[i].a, 99)
        m = Mn()
        col.attempt(m, "sa=list(VSUB)", lambda: setattr(m, "sa", gs), "in", lambda: [x.a for x in m.sa], [g.a for g in gs])
        for pos in range(n):
            for bad in (mod.VOTHER(), None, 3):
                seq = list(gs)
                seq[pos] = bad
                m = Mn()
                for el in m.sa:
                    el.a = 5
                col.attempt(m, f"sa=list(bad@{pos}:{type(bad).__name__})", lambda: setattr(m, "sa", seq), "out")
                if n > 1:
                    sl = slice(0, n)
                    m = Mn()
                    arr = m.sa
                    col.attempt(m, f"sa[0:{n}]=bad@{pos}", lambda: arr.__setitem__(sl, seq), "out")
        m = Mn()
        col.attempt(m, "sa=list(short)", lambda: setattr(m, "sa", gs[:-1]), "out")
        src = Mn()
        src.sa = gs
        m = Mn()
        col.attempt(m, "sa=bound(sa)", lambda: setattr(m, "sa", src.sa), "in", lambda: [x.a for x in m.sa], [g.a for g in gs])
        # ... struct and byte arrays copied between differently named fields
        src = Mn()
        src.sz = gs
        m = Mn()
        col.attempt(m, "sa=bound(sz of another message)", lambda: setattr(m, "sa", src.sz), "in", lambda: [x.a for x in m.sa], [g.a for g in gs])
        m2 = Mn()
        m2.sz = gs
        col.attempt(m2, "sa=bound(sz of the same message)", lambda: setattr(m2, "sa", m2.sz), "in", lambda: [x.a for x in m2.sa], [g.a for g in gs])
        src = Mn()
        src.bz = [7, 6, 5, 4][:n]
        src.ba = [1] * n
        m = Mn()
        col.attempt(m, "ba=bound(bz of another message)", lambda: setattr(m, "ba", src.bz), "in", lambda: bytes(m.ba[:]), bytes([7, 6, 5, 4][:n]))
        m2 = Mn()
        m2.bz = [7, 6, 5, 4][:n]
        col.attempt(m2, "ba=bound(bz of the same message)", lambda: setattr(m2, "ba", m2.bz), "in", lambda: bytes(m2.ba[:]), bytes([7, 6, 5, 4][:n]))


# ---- disable blocks ------------------------------------------------------------------------------------

class Boom(Exception):
    pass


def check_disable_blocks(mod, col: Collector, maxlen: int) -> int:
    """every well-nested operation sequence over {enter, exit, exit-by-exception, probe}"""
    from pyrtma.validators import disable_message_validation

    count = 0

    def validation_is_on() -> bool:
        m = mod.MDF_VAL2()
        try:
            m.f_int8 = 1000
        except Exception:
            return True
        return False

    def refused(action) -> bool:
        try:
            action()
        except Exception:
            return True
        return False

    def run(seq) -> Optional[Dict[str, Any]]:
        # interpret the sequence with real context managers; 'X' = leave the innermost block by exception
        stack = []
        # a message that lives through the whole sequence and array views of it taken after every step: whether a store is
        # checked depends on where execution is NOW, not on where the object or the view was created
        pm = mod.MDF_VAL3()
        views = [("before", pm.a_int8, pm.a_float, pm.sa)]
        try:
            for k, op in enumerate(seq):
                if op == "E":
                    cm = disable_message_validation()
                    cm.__enter__()
                    stack.append(cm)
                elif op == "L":
                    stack.pop().__exit__(None, None, None)
                elif op == "X":
                    cm = stack.pop()
                    try:
                        raise Boom()
                    except Boom as e:
                        try:
                            cm.__exit__(Boom, e, e.__traceback__)
                        except Boom:
                            pass
                        except RuntimeError:
                            pass
                elif op == "P":
                    pass
                on = validation_is_on()
                if on != (len(stack) == 0):
                    return {"kind": "validation-state", "sequence": "".join(seq), "after_op": k, "open_blocks": len(stack), "validation_on": on}
                views.append((f"after op {k}", pm.a_int8, pm.a_float, pm.sa))
                want_on = len(stack) == 0
                routes = [("scalar of the long-lived message", lambda: setattr(pm, "f_int8", 1000)),
                          ("whole array of the long-lived message", lambda: setattr(pm, "a_int8", [1, 300, 3]))]
                for when, vi, vf, vs in views:
                    routes.append((f"int array view taken {when}: element", lambda vi=vi: vi.__setitem__(1, 300)))
                    routes.append((f"int array view taken {when}: slice", lambda vi=vi: vi.__setitem__(slice(0, 2), [1, 300])))
                    routes.append((f"float array view taken {when}: element", lambda vf=vf: vf.__setitem__(2, 1e39)))
                    routes.append((f"struct array view taken {when}: nested field", lambda vs=vs: setattr(vs[1].inner, "x", 2 ** 20)))
                for what, act in routes:
                    # outside every block the store must be refused; inside a block the statement does not say what an
                    # old view does, so only the missing refusal counts
                    if want_on and not refused(act):
                        return {"kind": "validation-state", "sequence": "".join(seq), "after_op": k, "open_blocks": len(stack), "validation_on": not want_on,
                                "route": what}
        finally:
            while stack:
                try:
                    stack.pop().__exit__(None, None, None)
                except Exception:
                    pass
        return None

    def gen(prefix, depth):
        nonlocal count
        if prefix:
            count += 1
            col.n += 1
            # each sequence runs in its own copy of the context: a leaked "off" must not poison the next case
            p = contextvars.copy_context().run(run, prefix)
            if p:
                col.problems.append(p)
                return
        if len(prefix) >= maxlen:
            return
        gen(prefix + ["E"], depth + 1)
        if depth > 0:
            gen(prefix + ["L"], depth - 1)
            gen(prefix + ["X"], depth - 1)

    gen([], 0)
    # the `with` statement form, left through an exception raised by a refused assignment inside an outer block
    def with_form():
        try:
            with disable_message_validation():
                raise Boom()
        except Boom:
            pass
        return validation_is_on()

    col.n += 1
    if not contextvars.copy_context().run(with_form):
        col.problems.append({"kind": "validation-state", "sequence": "with-block left by exception", "open_blocks": 0, "validation_on": False})

    # library calls that switch validation off for their own bookkeeping (Client.send_message fills the header that way): the
    # caller never opened a block, so validation is in force after the call - however the call ended
    def library_calls():
        from .. import clx
        import ctypes as _ct

        class Plain(_ct.Structure):  # no type_id: send_message fails while it builds the header
            _fields_ = [("a", _ct.c_int)]

        class HalfDef(_ct.Structure):  # type_id but a type_hash that raises
            _fields_ = [("a", _ct.c_int)]
            type_id = 1234

            @property
            def type_hash(self):
                raise AttributeError("boom")

        out = []
        sp = clx.ScriptedPeer(timecode=False)
        try:
            c = sp.client
            for label, action in (("send_message(object without type_id)", lambda: c.send_message(Plain())),
                                  ("send_message(object whose type_hash raises)", lambda: c.send_message(HalfDef())),
                                  ("send_message(good message)", lambda: c.send_message(mod.MDF_VAL2())),
                                  ("send_message(bad destination)", lambda: c.send_message(mod.MDF_VAL2(), dest_mod_id=-1)),
                                  ("send_signal", lambda: c.send_signal(1234)),
                                  ("send_message after the peer has gone", None)):
                if action is None:
                    sp.peer.reset()
                    action = lambda: c.send_message(mod.MDF_VAL2())
                try:
                    action()
                except BaseException:
                    pass
                out.append((label, validation_is_on()))
        finally:
            sp.close()
        return out

    import warnings

    with warnings.catch_warnings():
        warnings.simplefilter("ignore")
        results = contextvars.copy_context().run(library_calls)
    for label, on in results:
        col.n += 1
        if not on:
            col.problems.append({"kind": "validation-state", "sequence": f"after {label}", "open_blocks": 0, "validation_on": False})
    return count


def check_threads(mod, col: Collector) -> int:
    """a disable block on one thread must not switch validation off for another thread: every interleaving of the
    enter / leave operations of two threads (each thread: enter, leave), state probed on BOTH threads after every step"""
    import threading
    from pyrtma.validators import disable_message_validation

    def is_on():
        m = mod.MDF_VAL2()
        try:
            m.f_int8 = 1000
        except Exception:
            return True
        return False

    n = 0
    for order in sorted(set(itertools.permutations(["E1", "L1", "E2", "L2"]))):
        if order.index("E1") > order.index("L1") or order.index("E2") > order.index("L2"):
            continue
        n += 1
        col.n += 1
        cmds = {1: [], 2: []}
        done = {1: threading.Event(), 2: threading.Event()}
        go = {1: threading.Event(), 2: threading.Event()}
        obs: List[Any] = []

        def worker(tid):
            cm = None
            while True:
                go[tid].wait()
                go[tid].clear()
                op = cmds[tid].pop(0)
                if op == "E":
                    cm = disable_message_validation()
                    cm.__enter__()
                elif op == "L":
                    cm.__exit__(None, None, None)
                elif op == "P":
                    obs.append((tid, is_on()))
                elif op == "Q":
                    done[tid].set()
                    return
                done[tid].set()

        ths = {t: threading.Thread(target=worker, args=(t,), daemon=True) for t in (1, 2)}
        for t in ths.values():
            t.start()

        def do(tid, op):
            cmds[tid].append(op)
            done[tid].clear()
            go[tid].set()
            done[tid].wait(5)

        depth = {1: 0, 2: 0}
        bad = None
        for k, step in enumerate(order):
            tid = int(step[1])
            do(tid, step[0])
            depth[tid] += 1 if step[0] == "E" else -1
            for t in (1, 2):
                obs.clear()
                do(t, "P")
                if obs and obs[0][1] != (depth[t] == 0) and bad is None:
                    bad = {"kind": "validation-state-across-threads", "sequence": " ".join(order), "after_op": k, "thread": t,
                           "open_blocks_of_that_thread": depth[t], "validation_on": obs[0][1]}
        for t in (1, 2):
            do(t, "Q")
        if bad:
            col.problems.append(bad)
    return n


# ---- shipped test definitions ---------------------------------------------------------------------------

def check_test_defs(col: Collector):
    """boundary assignments on every scalar/array field of the repository's own test message classes"""
    import importlib.util
    import os
    import sys
    import pyrtma.validators as V

    path = os.path.join(core.REPO, "tests", "test_msg_defs", "test_defs.py")
    if not os.path.exists(path):
        return 0
    spec = importlib.util.spec_from_file_location("vf_test_defs", path)
    mod = importlib.util.module_from_spec(spec)
    sys.modules["vf_test_defs"] = mod
    spec.loader.exec_module(mod)
    ncls = 0
    for name in dir(mod):
        cls = getattr(mod, name)
        if not (isinstance(cls, type) and name.startswith("MDF_")):
            continue
        ncls += 1
        for fname, desc in list(vars(cls).items()):
            if isinstance(desc, V.IntValidatorBase):
                lo, hi = desc.min, desc.max
                for v, ok in ((lo, True), (hi, True), (lo - 1, False), (hi + 1, False), (1.0, False)):
                    m = cls()
                    col.attempt(m, f"{name}.{fname}={v!r}", lambda: setattr(m, fname, v), "in" if ok else "out", lambda: getattr(m, fname), v)
            elif isinstance(desc, V.IntArray):
                n = len(desc)
                hi = desc._validator.max
                if n <= 64:
                    for pos in (0, n - 1):
                        seq = [0] * n
                        seq[pos] = hi + 1
                        m = cls()
                        col.attempt(m, f"{name}.{fname}=bad@{pos}", lambda: setattr(m, fname, seq), "out")
                    m = cls()
                    col.attempt(m, f"{name}.{fname}=max", lambda: setattr(m, fname, [hi] * n), "in", lambda: getattr(m, fname)[:], [hi] * n)
            elif isinstance(desc, V.FloatArray):
                n = len(desc)
                if 2 <= n <= 64:
                    isf = desc._validator._ctype is ctypes.c_float
                    big = 1e39 if isf else 10 ** 400
                    for pos in (0, n - 1):
                        seq = [0.0] * n
                        seq[pos] = big
                        seq[(pos + 1) % n] = NAN
                        m = cls()
                        col.attempt(m, f"{name}.{fname}=overflow@{pos}+nan", lambda: setattr(m, fname, seq), "out")
    return ncls


def run(tier: str) -> int:
    chk = core.Check("C09", tier, "exploration",
                     "every validator kind/width x every assignment form (attribute, element at every index, slice with every "
                     "(start, stop, step), whole array from list/tuple/bound array/ctypes array, nested struct, struct-array "
                     "element and slice) x every value of the kind's boundary alphabet x every position of one bad element "
                     "(also next to NaN) x wrong lengths; all well-nested disable-block sequences. Distinct non-trivial = distinct "
                     "(field/form, accepted|refused) pairs observed.")
    mod = valx.load()
    col = Collector()
    check_scalars(mod, col)
    check_arrays(mod, col, tier)
    nblocks = check_disable_blocks(mod, col, 5 if tier == "quick" else 8)
    nthreads = check_threads(mod, col)
    ncls = check_test_defs(col)
    for p in col.problems:
        what = p.get("what", p.get("sequence", ""))
        cls = what.split("=")[0].split("[")[0] if not p["kind"].startswith("validation-state") else "disable"
        form = "seq" if ("@" in what or "list" in what or "tuple" in what) else "scalar"
        chk.violation(f"C09:{p['kind']}:{cls.split('.')[-1] if '.' not in cls else 'testdefs'}:{form}", f"{p}", {"module": "vf.checks.c09", "problem": p}, size=len(what))
    chk.sample({"form": "a_float[3] = [nan, 1e39, 1.0]", "oracle": "must raise and leave bytes(msg) unchanged"})
    chk.sample({"form": "disable-block sequence", "example": "E E X L  (E=enter, L=leave, X=leave by exception)"})
    chk.count("accepted", col.accepted)
    chk.count("refused", col.refused)
    chk.count("disable_block_sequences", nblocks)
    chk.count("two_thread_interleavings", nthreads)
    chk.count("test_def_classes", ncls)
    chk.assumptions += ["CPython/ctypes conversion is the ground truth for 'nearest representable value'",
                        "explicit +-inf assigned to a float field and '' assigned to a char are treated as unspecified"]
    return chk.finish({"evaluations": col.n, "distinct_nontrivial": len(col.distinct)})


def replay(case) -> int:
    mod = valx.load()
    col = Collector()
    check_scalars(mod, col)
    check_arrays(mod, col, "quick")
    check_disable_blocks(mod, col, 5)
    check_threads(mod, col)
    want = case["problem"]
    hit = [p for p in col.problems if p.get("what") == want.get("what") and p.get("sequence") == want.get("sequence") and p["kind"] == want["kind"]]
    for p in hit[:5]:
        print("  PROBLEM:", p)
    print("reproduced" if hit else "NOT reproduced")
    return 1 if hit else 0
