"""C05 - per-connection order, whole frames, gap-free sequence numbers.

Engine: the real MessageManager stepped on the virtual network (no reference model: the oracle is
a set of invariants over every byte stream the manager writes).

Enumerated: two publishers with n numbered messages each (identity = (src_mod_id, send_time),
payload sizes 0 / 4 / 65535), receivers R1 (subscribed to the type), R2 (subscribed to ALL),
L (logger, subscribed to ALL), K (subscribed to the type and issuing control frames, so ACKs
interleave). All injection schedules (which publisher's next frame(s) are visible before which
round), all service orders of rounds with several ready sockets, and deviations from the default
environment (clock ticks that fire TIMING / TRAFFIC / ACTIVE_CLIENTS+CLIENT_INFO, a control frame
by K, one receiver not writable -> FAILED_MESSAGE traffic, the logger not writable -> the manager's wait-then-write path) at every position, bounded in number.
"""
from __future__ import annotations

import itertools
import zlib
from typing import Any, Dict, List, Sequence, Tuple

from .. import core, mmx, proto as P

T1 = 1001
IDS = {"P1": 21, "P2": 22, "R1": 31, "R2": 32, "K": 33, "L": 60, "E": 34}
HIDS = {"P1": 1, "P2": 2, "R1": 3, "R2": 4, "K": 5, "L": 6, "E": 7}
# E subscribes BEFORE it sends CONNECT: frames written to it before the handshake count like all others
SIZES = (4, 0, 65535)
BIG_SIZES = (65536, 4, 1048576, 200000)  # beyond the largest definable message, up to the largest payload the manager accepts
TICKS = (0.95, 1.05, 5.1)


def base_schedules(n: int) -> List[List[Dict[str, Any]]]:
    """every way to make the frames of P1 and P2 visible round by round, with every service order"""
    out = []

    def rec(r1, r2, b1, b2, acc):
        # r = frames not yet written, b = backlog (written, not yet read by the manager)
        if r1 == 0 and r2 == 0 and b1 == 0 and b2 == 0:
            out.append(acc)
            return
        opts1 = [0] + ([1] if r1 >= 1 else []) + ([r1] if r1 >= 2 else [])
        opts2 = [0] + ([1] if r2 >= 1 else []) + ([r2] if r2 >= 2 else [])
        for k1 in opts1:
            for k2 in opts2:
                nb1, nb2 = b1 + k1, b2 + k2
                if nb1 == 0 and nb2 == 0:
                    continue
                if k1 == 0 and k2 == 0 and (r1 or r2):
                    # a pure drain round is only needed when nothing new may be injected; allow it
                    # when there is backlog (models the manager running ahead of the publishers)
                    pass
                ready = (1 if nb1 else 0) + (1 if nb2 else 0)
                for order in range(mmx.factorial(ready)):
                    rec(r1 - k1, r2 - k2, max(0, nb1 - 1), max(0, nb2 - 1),
                        acc + [{"inj": [k1, k2], "order": order}])

    rec(n, n, 0, 0, [])
    return out


def deviations(sched: List[Dict[str, Any]], bound: int, tier: str) -> List[List[Dict[str, Any]]]:
    """schedules with up to `bound` deviations from the default environment"""
    singles = []
    for i in range(len(sched) + 1):
        for dt in TICKS:
            singles.append(("tick", i, dt))
        singles.append(("ctl", i, None))
    for i in range(len(sched)):
        singles.append(("burst", i, None))  # K's burst of hostile requests and foreign-layout frames (see execute)
        for slot in ("R1", "R2", "K", "L"):  # L: the logger is waited for and written on the manager's blocking path
            singles.append(("nw", i, slot))
        # a receiver that select() still reports writable but whose send buffer has room for 100 bytes only (a blocking send
        # waits; a non-blocking one would write a part of the frame)
        singles.append(("cong", i, "R1"))
        singles.append(("cong", i, "L"))
        # a receiver resets its connection right before this round: the manager finds out while it is writing (a data frame, or -
        # together with a clock tick - one of its own reports); the others' streams stay whole and gap-free
        singles.append(("die", i, 2))  # ... right before the manager's 2nd send call of the round (found on the write side)
        # two receivers reset at the same instant (both listen for departures, as do two survivors): the second is found dead while
        # the first one's departure is being announced - every survivor hears of the two in the same order
        singles.append(("die2", i, 1))
    # ... also in the final round, in which only the manager's own timers write
    for k in (1, 2, 3, 5):
        singles.append(("die", len(sched), k))
    res = [sched]
    for k in range(1, bound + 1):
        for combo in itertools.combinations(singles, k):
            if len({(c[0], c[1]) for c in combo}) < len(combo):
                continue
            if k > 1 and any(c[0] == "cong" for c in combo):
                continue  # the congested receiver is explored as a single deviation only
            if k > 1 and any(c[0] == "die" for c in combo):
                # a dying receiver: alone, or - in the final round - together with the clock tick that makes the manager write its reports
                if not all(c[0] in ("die", "tick") and c[1] == len(sched) for c in combo):
                    continue
            s2 = [dict(st) for st in sched] + [{"inj": [0, 0], "order": 0, "tail": True}]
            for kind, i, arg in combo:
                st = s2[i]
                if kind == "tick":
                    st["tick"] = arg
                elif kind == "ctl":
                    st["ctl"] = True
                elif kind == "burst":
                    st["burst"] = True
                elif kind == "cong":
                    st["cong"] = st.get("cong", []) + [arg]
                elif kind == "die":
                    st["die"] = st.get("die", []) + [arg]
                elif kind == "die2":
                    st["die2"] = arg
                else:
                    st["nw"] = st.get("nw", []) + [arg]
            res.append(s2)
    return res


_PAT = bytes(range(256)) * 4200


def pattern(counter: int, size: int) -> bytes:
    k = counter & 0xFF
    return _PAT[k:k + size]


# (type id defined by the core definitions, payload length other than that definition's)
FOREIGN = [(mt, n) for mt in sorted(P.CORE_SIZES) if mt not in P.CONTROL_TYPES for n in (max(0, P.CORE_SIZES[mt] - 4), P.CORE_SIZES[mt] + 4) if n <= 4096][:24]
FOREIGN_TYPES = {mt for mt, _ in FOREIGN}
DESTS = {"bcast": (0, 0), "toR1": (31, 31), "mixed": (33, 0)}  # pattern -> dest_mod_id of (P1's, P2's) messages; odd counters only


def frame(tc, src, counter, size, dest=0):
    return P.mkframe(T1, pattern(counter, size), timecode=tc, src_mod_id=src,
                     send_time=float(counter), msg_count=999, dest_mod_id=dest)


def execute(case) -> Dict[str, Any]:
    tc, n, sizes, sched = case[:4]
    dests = DESTS[case[4]] if len(case) > 4 else (0, 0)
    mmx.fresh_gc()
    # "logging": the manager runs at log level WARNING, so its log records are published as messages too
    w = mmx.World(timecode=tc, log_level=30) if (len(case) > 5 and case[5] == "logging") else mmx.World(timecode=tc)
    problems: List[Dict[str, Any]] = []
    seq = {s: 0 for s in IDS}
    data_seen: Dict[str, List[Tuple[int, float]]] = {s: [] for s in IDS}
    kinds = set()
    nframes = 0
    all_seen: Dict[str, List[Tuple]] = {s: [] for s in IDS}
    occ: Dict[str, Dict[Tuple, int]] = {s: {} for s in IDS}

    def collect():
        nonlocal nframes
        for s, c in w.clients.items():
            fr = c.drain()
            if c.stream_problem:
                problems.append({"kind": "stream", "slot": s, "detail": c.stream_problem})
                c.stream_problem = None
            if c.leftover() and not c.gone:  # (a receiver that has reset its connection may have been cut off in mid-frame)
                problems.append({"kind": "partial-frame", "slot": s, "leftover": c.leftover()})
            for f in fr:
                nframes += 1
                seq[s] += 1
                if f.msg_count != seq[s]:
                    problems.append({"kind": "sequence", "slot": s, "expected": seq[s], "got": f.msg_count,
                                     "msg_type": f.msg_type})
                    seq[s] = f.msg_count
                kinds.add(P.normalize(f)[0])
                # every frame has an identity (the manager's own publications too): source, type, time stamp, destination,
                # payload, and - for byte-identical repeats - the occurrence number on this connection
                ident = (f.src_mod_id, f.msg_type, f.h[2], f.h[7], zlib.crc32(f.payload))
                occ[s][ident] = occ[s].get(ident, 0) + 1
                all_seen[s].append(ident)
                if f.src_mod_id == IDS["K"] and f.h[2] >= 200.0 and f.msg_type in FOREIGN_TYPES:
                    if f.payload != pattern(int(f.h[2]), FOREIGN[int(f.h[2]) - 200][1]):
                        problems.append({"kind": "payload", "slot": s, "src": f.src_mod_id, "counter": f.h[2], "msg_type": f.msg_type, "got_bytes": f.nbytes})
                if f.msg_type == T1 and f.src_mod_id in (IDS["P1"], IDS["P2"]):
                    data_seen[s].append((f.src_mod_id, f.h[2]))
                    want = pattern(int(f.h[2]), f.nbytes)
                    if f.payload != want:
                        problems.append({"kind": "payload", "slot": s, "src": f.src_mod_id, "counter": f.h[2]})

    try:
        for s in IDS:
            w.client(s, HIDS[s]).connect()
        w.settle()
        w.clients["E"].send(P.mkframe(P.MT_SUBSCRIBE, P.p_sub(T1), timecode=tc, src_mod_id=IDS["E"])
                            + P.mkframe(P.MT_PAUSE_SUBSCRIPTION, P.p_sub(1002), timecode=tc, src_mod_id=IDS["E"]))
        w.settle()
        for s, mid in IDS.items():
            w.clients[s].send(P.mkframe(P.MT_CONNECT, P.p_connect(1 if s == "L" else 0, 0), timecode=tc, src_mod_id=mid))
        w.settle()
        for s, t in (("R1", T1), ("R2", P.ALL_MESSAGE_TYPES), ("L", P.ALL_MESSAGE_TYPES), ("K", T1),
                     ("R2", P.MT_FAILED_MESSAGE)):
            w.clients[s].send(P.mkframe(P.MT_SUBSCRIBE, P.p_sub(t), timecode=tc, src_mod_id=IDS[s]))
        w.settle()
        if any(st.get("die2") for st in sched):
            for s_ in ("R1", "K"):
                w.clients[s_].send(P.mkframe(P.MT_SUBSCRIBE, P.p_sub(P.MT_CLIENT_CLOSED), timecode=tc, src_mod_id=IDS[s_]))
            w.settle()
        collect()
        sent = [0, 0]
        for st in sched:
            for pi, k in enumerate(st["inj"]):
                slot = ("P1", "P2")[pi]
                buf = b""
                for _ in range(k):
                    sent[pi] += 1
                    buf += frame(tc, IDS[slot], sent[pi], sizes[(sent[pi] + pi) % len(sizes)], dests[pi] if sent[pi] % 2 else 0)
                if buf:
                    w.clients[slot].send(buf)
            if st.get("ctl"):
                # one ordinary request of K: its acknowledgement (and the copy the logger gets) is a frame of its own kind in this
                # round, so its place relative to the data frames can be compared across connections
                w.clients["K"].send(P.mkframe(P.MT_SUBSCRIBE, P.p_sub(1002), timecode=tc, src_mod_id=IDS["K"]))
            if st.get("burst"):
                # K's burst: requests naming ids no message can have (each is answered on K's connection, and whatever the manager
                # writes there is a whole, counted frame), and data frames whose type id the core definitions know - with a payload
                # length that is NOT the one of the manager's own definition (another build's layout)
                kbuf = b""
                for mt, arg in ((P.MT_SUBSCRIBE, -1), (P.MT_RESUME_SUBSCRIPTION, -7), (P.MT_PAUSE_SUBSCRIPTION, -2), (P.MT_UNSUBSCRIBE, -1),
                                (P.MT_SUBSCRIBE, -2 ** 31), (P.MT_SUBSCRIBE, P.MAX_MESSAGE_TYPES)):
                    kbuf += P.mkframe(mt, P.p_sub(arg), timecode=tc, src_mod_id=IDS["K"])
                for j, (mt, size) in enumerate(FOREIGN):
                    kbuf += P.mkframe(mt, pattern(200 + j, size), timecode=tc, src_mod_id=IDS["K"], send_time=float(200 + j), msg_count=999)
                w.clients["K"].send(kbuf)
            if st.get("tick"):
                w.tick(st["tick"])
            order = st["order"]
            # K's control frame adds a ready socket: service order index refers to the ready list as the manager
            # builds it (connection order P1, P2, ..., K)
            for slot in st.get("cong", []):
                w.clients[slot].mgr_side.send_free = 100
            for k in st.get("die", []):
                if not w.clients["R2"].gone:
                    w.kill_plan = (k, [w.clients["R2"]], "rst")
            if st.get("die2") and not w.clients["R2"].gone and not w.clients["R1"].gone:
                w.kill_plan = (st["die2"], [w.clients["R1"], w.clients["R2"]], "rst")
            w.step(order, st.get("nw", []))
            w.kill_plan = None
            for slot in st.get("cong", []):
                w.clients[slot].mgr_side.send_free = None
            if not w.alive:
                problems.append({"kind": "manager-" + (w.exit or ("?",))[0], "detail": str((w.exit or ("", ""))[1:])[:600]})
                break
            collect()
        if w.alive:
            w.settle(limit=10 ** 4)
            collect()
    finally:
        w.stop()
    # per-sender FIFO at every receiver
    for s, seen in data_seen.items():
        for src in (IDS["P1"], IDS["P2"]):
            cs = [c for (m, c) in seen if m == src]
            if cs != sorted(cs) or len(set(cs)) != len(cs):
                problems.append({"kind": "sender-order", "slot": s, "src": src, "counters": cs})
    # any two receivers agree on the relative order of the frames both received
    names = [s for s in data_seen if data_seen[s]]
    for a, b in itertools.combinations(names, 2):
        common = set(data_seen[a]) & set(data_seen[b])
        oa = [x for x in data_seen[a] if x in common]
        ob = [x for x in data_seen[b] if x in common]
        if oa != ob:
            problems.append({"kind": "cross-receiver-order", "a": a, "b": b, "order_a": oa, "order_b": ob})
    # ... the same for every pair of frames of any origin (acknowledgement copies, failure notices, reports, log records)
    for a, b in itertools.combinations([s for s in all_seen if all_seen[s]], 2):
        # byte-identical repeats cannot be told apart (one receiver may have missed an earlier one): only frames that occur
        # exactly once on both connections are compared
        common = {x for x in set(all_seen[a]) & set(all_seen[b]) if occ[a][x] == 1 and occ[b][x] == 1}
        oa = [x for x in all_seen[a] if x in common]
        ob = [x for x in all_seen[b] if x in common]
        if oa != ob:
            i = next(k for k, (x, y) in enumerate(zip(oa, ob)) if x != y)
            # which kind of pair is out of order? among the manager's own messages / among clients' messages / a notice the manager
            # publishes from INSIDE a delivery (the departure or failure it has just run into) against the message being delivered
            mgr_a, mgr_b = [x for x in oa if x[0] == 0], [x for x in ob if x[0] == 0]
            cli_a, cli_b = [x for x in oa if x[0] != 0], [x for x in ob if x[0] != 0]
            nested = (P.MT_CLIENT_CLOSED, P.MT_FAILED_MESSAGE) + tuple(P.LOG_TYPES)
            pos_a, pos_b = {x: k for k, x in enumerate(oa)}, {x: k for k, x in enumerate(ob)}
            mixed_other = [(x, y) for x in mgr_a for y in cli_a if (pos_a[x] < pos_a[y]) != (pos_b[x] < pos_b[y]) and x[1] not in nested]
            if mgr_a != mgr_b:
                kind = "cross-receiver-order-among-manager-messages"
            elif cli_a != cli_b:
                kind = "cross-receiver-order-any-origin"
            elif mixed_other:
                kind = "cross-receiver-order-report-vs-message"
            else:
                kind = "cross-receiver-order-notice-inside-a-delivery"
            problems.append({"kind": kind, "a": a, "b": b, "first_difference": [list(oa[i][:4]), list(ob[i][:4])],
                             "types_a": [x[1] for x in oa][:12], "types_b": [x[1] for x in ob][:12]})
    sig = tuple(tuple(data_seen[s]) for s in ("R1", "R2", "L", "K", "E"))
    return {"problems": problems, "frames": nframes, "kinds": sorted(kinds), "sig": hash(sig),
            "interleaved": len({m for (m, c) in data_seen["L"]}) > 1}


def long_lived(args) -> Dict[str, Any]:
    """one connection receives more frames than a 16-bit counter can hold (publications of another client interleaved with
    acknowledgements of its own requests): the sequence number is still one more on every frame, at every power-of-two boundary"""
    tc, total, step = args
    mmx.fresh_gc()
    w = mmx.World(timecode=tc)
    problems: List[Dict[str, Any]] = []
    seen = 0
    try:
        for s in ("P1", "R1"):
            w.client(s, HIDS[s]).connect()
        w.settle()
        for s in ("P1", "R1"):
            w.clients[s].send(P.mkframe(P.MT_CONNECT, P.p_connect(), timecode=tc, src_mod_id=IDS[s]))
        w.settle()
        w.clients["R1"].send(P.mkframe(P.MT_SUBSCRIBE, P.p_sub(T1), timecode=tc, src_mod_id=IDS["R1"]))
        w.settle()
        one = P.mkframe(T1, b"", timecode=tc, src_mod_id=IDS["P1"])
        expect = 0
        sent = 0
        while sent < total and w.alive:
            k = min(step, total - sent)
            w.clients["P1"].send(one * k)
            # an acknowledgement in between (counted like every other frame)
            w.clients["R1"].send(P.mkframe(P.MT_SUBSCRIBE, P.p_sub(T1), timecode=tc, src_mod_id=IDS["R1"]))
            sent += k
            w.settle(limit=10 ** 7)
            c = w.clients["R1"]
            for f in c.drain():
                expect += 1
                seen += 1
                if f.msg_count != expect:
                    problems.append({"kind": "sequence", "slot": "R1", "expected": expect, "got": f.msg_count, "msg_type": f.msg_type, "frames_on_this_connection": seen})
                    expect = f.msg_count
            if c.stream_problem or c.leftover():
                problems.append({"kind": "stream", "slot": "R1", "detail": c.stream_problem or f"leftover {c.leftover()}"})
                break
            if len(problems) > 3:
                break
        if not w.alive:
            problems.append({"kind": "manager-" + (w.exit or ("?",))[0], "detail": str((w.exit or ("", ""))[1:])[:300]})
        elif seen < total:
            problems.append({"kind": "frames-missing", "slot": "R1", "sent": total, "seen": seen})
    finally:
        w.stop()
    return {"problems": problems, "frames": seen, "rounds": w.rounds}


def close_during_write(args) -> Dict[str, Any]:
    """close() is the one method of the manager meant to be called from another thread. It arrives while the run loop is between two
    send calls (header and payload of one frame, two frames of one round): every stream is still a sequence of whole frames
    numbered 1, 2, 3, ... - at every log level, with a logger / an everything-subscriber / a subscriber of the log types listening"""
    tc, level, listener, k = args
    mmx.fresh_gc()
    w = mmx.World(timecode=tc, log_level=level)
    problems: List[Dict[str, Any]] = []
    nframes = 0
    fired = False
    try:
        ids = {"P1": IDS["P1"], "R1": IDS["R1"], "L": IDS["L"]}
        for s in ids:
            w.client(s, HIDS[s]).connect()
        w.settle()
        for s, mid in ids.items():
            w.clients[s].send(P.mkframe(P.MT_CONNECT, P.p_connect(1 if (s == "L" and listener == "logger") else 0, 0), timecode=tc, src_mod_id=mid))
        w.settle()
        subs = [("R1", T1)]
        if listener in ("logger", "all"):
            subs.append(("L", P.ALL_MESSAGE_TYPES))
        else:
            subs += [("L", t) for t in (P.MT_RTMA_LOG_INFO, P.MT_RTMA_LOG_DEBUG, P.MT_RTMA_LOG_WARNING, P.MT_RTMA_LOG_ERROR, P.MT_RTMA_LOG_CRITICAL, T1)]
        for s, t in subs:
            w.clients[s].send(P.mkframe(P.MT_SUBSCRIBE, P.p_sub(t), timecode=tc, src_mod_id=ids[s]))
        w.settle()
        w.clients["P1"].send(frame(tc, IDS["P1"], 1, 64) + frame(tc, IDS["P1"], 2, 64))

        def hit():
            nonlocal fired
            fired = True
            w.mgr.close()

        w.call_plan = (k, hit)
        w.step(0, [])
        for _ in range(4):
            if not w.alive:
                break
            w.step(0, [])
        seq = {s: 0 for s in ids}
        for s, c in w.clients.items():
            for f in c.drain():
                nframes += 1
                seq[s] += 1
                if f.msg_count != seq[s]:
                    problems.append({"kind": "sequence", "slot": s, "expected": seq[s], "got": f.msg_count, "msg_type": f.msg_type})
                    seq[s] = f.msg_count
            if c.stream_problem:
                problems.append({"kind": "stream", "slot": s, "detail": c.stream_problem})
            elif c.leftover():
                problems.append({"kind": "partial-frame", "slot": s, "leftover": c.leftover()})
        if w.exit and w.exit[0] not in ("returned",) and fired:
            problems.append({"kind": "manager-" + w.exit[0], "detail": str(w.exit[1:])[:300]})
    finally:
        w.stop()
    return {"problems": problems, "frames": nframes, "rounds": w.rounds, "fired": fired}


def run_chunk(cases):
    out = []
    for c in cases:
        r = execute(c)
        out.append((r["problems"], r["frames"], r["kinds"], r["sig"], r["interleaved"]))
    return out


def cases_for(tier: str):
    cases = []
    if tier == "quick":
        plan = [(False, 2, SIZES, 2), (True, 2, (0, 4), 1), (False, 3, (0, 4), 0), (False, 2, BIG_SIZES, 0)]
    else:
        plan = [(False, 2, SIZES, 3), (True, 2, SIZES, 2), (False, 3, (0, 4), 1), (True, 3, SIZES, 1), (False, 2, BIG_SIZES, 1), (True, 3, BIG_SIZES, 0)]
    for tc, n, sizes, bound in plan:
        for b in base_schedules(n):
            for s in deviations(b, bound, tier):
                cases.append((tc, n, sizes, s, "bcast"))
            # messages addressed to one module: the other subscribers are passed over (no frame, no sequence number)
            for pat in ("toR1", "mixed"):
                for s in deviations(b, min(bound, 1), tier):
                    cases.append((tc, n, sizes, s, pat))
            # the manager's own log records on the bus (log level WARNING)
            if n == 2:
                for s in deviations(b, min(bound, 2), tier):
                    cases.append((tc, n, (0, 4), s, "bcast", "logging"))
    return cases


def run(tier: str) -> int:
    chk = core.Check("C05", tier, "model_checking",
                     "all injection schedules of two publishers x all service orders x bounded deviations (clock ticks "
                     "firing TIMING/TRAFFIC/ACTIVE_CLIENTS, a control frame, a non-writable receiver) executed on the "
                     "real MessageManager; invariants on every written byte stream: whole frames, msg_count = 1,2,3,..., "
                     "per-sender FIFO, pairwise-consistent cross-receiver order. A state is one executed schedule; a "
                     "transition is one manager round.")
    cases = cases_for(tier)
    chunks = core.chunks(core.shuffled(cases, "c05"), 40)
    res = core.pmap(run_chunk, chunks)
    largs = [(False, 70000, 2500)] if tier == "quick" else [(False, 140000, 2500), (True, 70000, 1000)]
    lres = core.pmap(long_lived, largs)
    # the byte streams of connections that are turned away at CONNECT (whatever they were sent before the door closed)
    from . import c19

    rargs = [(tc, label, before, follow, ("C05",)) for tc in (False, True) for label, _ in c19.REFUSED for before in (0, 1, 2) for follow in (False, True)]
    rres = core.pmap(c19.refused_case, rargs)
    cargs = [(tc, level, listener, k) for tc in (False, True) for level in (10, 20, 30) for listener in ("logger", "all", "logtypes") for k in range(1, 13)]
    cres = core.pmap(close_during_write, cargs)
    core.close_pool()
    nexec = frames = rounds = 0
    sigs = set()
    kinds = set()
    inter = 0
    flat_cases = [c for ch in chunks for c in ch]
    i = 0
    for ch in res:
        for problems, nfr, ks, sig, il in ch:
            case = flat_cases[i]
            i += 1
            nexec += 1
            frames += nfr
            rounds += len(case[3])
            sigs.add(sig)
            kinds.update(ks)
            inter += 1 if il else 0
            for p in problems:
                chk.violation(f"C05:{p['kind']}", f"{p}", {"module": "vf.checks.c05", "case": list(case)},
                              size=len(case[3]) * 10 + sum(1 for st in case[3] if len(st) > 2))
    for la, lr in zip(largs, lres):
        nexec += 1
        frames += lr["frames"]
        rounds += lr["rounds"]
        for p in lr["problems"]:
            chk.violation(f"C05:{p['kind']}:long-lived", f"long-lived connection {la}: {p}", {"module": "vf.checks.c05", "long_lived": list(la)}, size=5000)
    nfired = 0
    for ca, cr in zip(cargs, cres):
        nexec += 1
        frames += cr["frames"]
        rounds += cr["rounds"]
        nfired += 1 if cr["fired"] else 0
        for p in cr["problems"]:
            chk.violation(f"C05:{p['kind']}:close-during-write", f"close() called between two sends {ca}: {p}", {"module": "vf.checks.c05", "close_during_write": list(ca)}, size=30)
    chk.count("close_calls_between_sends", nfired)
    for ra, rr in zip(rargs, rres):
        nexec += 1
        rounds += rr["rounds"]
        for p in rr["problems"]:
            chk.violation(f"C05:{p['kind']}:refused-connection", f"connection refused at CONNECT {ra[:4]}: {p}", {"module": "vf.checks.c05", "refused": list(ra[:4])}, size=20)
    chk.sample({"tc": cases[0][0], "n": cases[0][1], "schedule": cases[0][3], "destinations": cases[0][4]})
    chk.sample({"schedule_with_deviation": cases[-1][3]})
    chk.assumptions += ["virtual TCP model (vf.net)", "2 publishers, <= 3 messages each, 4 receivers", "<= 2 deviations per schedule"]
    return chk.finish({"states": nexec, "transitions": rounds, "traces_validated_against_impl": nexec,
                       "frames_checked": frames, "distinct_delivery_orders": len(sigs), "frame_kinds_seen": sorted(kinds),
                       "schedules_with_interleaved_senders": inter})


def replay(case) -> int:
    if "long_lived" in case:
        r = long_lived(tuple(case["long_lived"]))
        for p in r["problems"]:
            print("  PROBLEM:", p)
        print("reproduced" if r["problems"] else "NOT reproduced")
        return 1 if r["problems"] else 0
    if "close_during_write" in case:
        r = close_during_write(tuple(case["close_during_write"]))
        for p in r["problems"]:
            print("  PROBLEM:", p)
        print("reproduced" if r["problems"] else "NOT reproduced")
        return 1 if r["problems"] else 0
    if "refused" in case:
        from . import c19

        r = c19.refused_case(tuple(case["refused"]) + (("C05",),))
        for p in r["problems"]:
            print("  PROBLEM:", p)
        print("reproduced" if r["problems"] else "NOT reproduced")
        return 1 if r["problems"] else 0
    c = case["case"]
    cc = (c[0], c[1], tuple(c[2]), c[3]) + tuple(c[4:6])
    r1 = execute(cc)
    r2 = execute(cc)
    if str(r1["problems"]) != str(r2["problems"]):
        print("HARNESS-ERROR: non-deterministic replay")
        return 2
    for st in c[3]:
        print("  step", st)
    for p in r1["problems"]:
        print("  PROBLEM:", p)
    print("reproduced" if r1["problems"] else "NOT reproduced")
    return 1 if r1["problems"] else 0
