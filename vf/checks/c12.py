"""C12 - id and name conflicts are always detected, never invented.

Engine DEFX (parser only): every rooted import-graph shape on <= 4 files (chains, fans, diamond,
repeated imports of one file by different relative paths, sub-directory, cycle), with and without
the automatic core-definitions import.
Conflict programs: two items placed in every ordered pair of files of every graph, for every pair
of kinds sharing the name space (constant, string constant, alias, struct, message, signal: 36
ordered pairs); message-id clashes among {message, signal, reserved int, reserved 'a - b',
reserved 'a to b'} (and against core ids); module-id and host-id clashes; every range violation.
Conflict-free programs: every assignment of k <= 4 distinct definitions to the files of every
graph.
Oracle = set semantics over the closure: a conflict program raises the corresponding ParserError
subclass (and the CLI exits non-zero); a conflict-free program parses and registers exactly the
union of the definitions, each once.
"""
from __future__ import annotations

import contextlib
import io
import itertools
import os
import shutil
import sys
import zlib
from typing import Any, Dict, List, Optional, Tuple

from .. import core, defx

# ---- import graphs: file -> list of import paths as written in that file -----------------------------------
GRAPHS: Dict[str, Dict[str, List[str]]] = {
    "single": {"root.yaml": []},
    "chain2": {"root.yaml": ["a.yaml"], "a.yaml": []},
    "chain3": {"root.yaml": ["a.yaml"], "a.yaml": ["b.yaml"], "b.yaml": []},
    "chain4": {"root.yaml": ["a.yaml"], "a.yaml": ["b.yaml"], "b.yaml": ["sub/c.yaml"], "sub/c.yaml": []},
    "fan2": {"root.yaml": ["a.yaml", "b.yaml"], "a.yaml": [], "b.yaml": []},
    "fan3": {"root.yaml": ["a.yaml", "b.yaml", "sub/c.yaml"], "a.yaml": [], "b.yaml": [], "sub/c.yaml": []},
    "diamond": {"root.yaml": ["a.yaml", "b.yaml"], "a.yaml": ["sub/c.yaml"], "b.yaml": ["sub/c.yaml"], "sub/c.yaml": []},
    "repeat": {"root.yaml": ["a.yaml", "./a.yaml", "sub/../a.yaml", "b.yaml"], "a.yaml": ["b.yaml"], "b.yaml": [], "sub/c.yaml": []},
    "subdir": {"root.yaml": ["sub/c.yaml", "a.yaml"], "sub/c.yaml": ["../a.yaml", "../b.yaml"], "a.yaml": [], "b.yaml": []},
    "cycle": {"root.yaml": ["a.yaml"], "a.yaml": ["b.yaml"], "b.yaml": ["root.yaml", "a.yaml"]},
    "samename": {"root.yaml": ["a.yaml", "sub/a.yaml"], "a.yaml": [], "sub/a.yaml": ["../b.yaml"], "b.yaml": []},
    "skipdir": {"root.yaml": ["sub/c.yaml", "a.yaml", "sub/c.yaml", "b.yaml"], "sub/c.yaml": [], "a.yaml": [], "b.yaml": []},
    "skipdir2": {"root.yaml": ["sub/c.yaml", "sub/d/e.yaml", "a.yaml"], "sub/c.yaml": ["d/e.yaml"], "sub/d/e.yaml": ["../../b.yaml"], "a.yaml": [], "b.yaml": []},
    "cross": {"root.yaml": ["a.yaml", "b.yaml"], "a.yaml": ["b.yaml"], "b.yaml": []},
    # two DIFFERENT files that their importers name by the same relative string
    "samestring": {"root.yaml": ["ra/d.yaml", "rb/d.yaml"], "ra/d.yaml": ["c.yaml"], "rb/d.yaml": ["c.yaml"], "ra/c.yaml": [], "rb/c.yaml": []},
}
# a long chain of imports (16 files, alternating directories): nothing about a definition changes with the depth it is imported at
DEEP = "chain16"
GRAPHS[DEEP] = {("root.yaml" if i == 0 else (f"sub/d{i}.yaml" if i % 2 else f"d{i}.yaml")):
                ([("../" if i % 2 else "") + (f"sub/d{i + 1}.yaml" if (i + 1) % 2 else f"d{i + 1}.yaml")] if i < 15 else []) for i in range(16)}
# a project that (as older ones do) lists the core definition files itself, in the root file and in an imported file, while the
# automatic core import is in force: a file reached twice is read once, nothing conflicts
def _core_file(name: str) -> str:
    import pyrtma

    return os.path.join(os.path.dirname(os.path.abspath(pyrtma.__file__)), "core_defs", name)


COREIMP = "coreimport"
GRAPHS[COREIMP] = {"root.yaml": [_core_file("core_defs.yaml"), "a.yaml", "sub/c.yaml"], "a.yaml": [_core_file("data_logger.yaml")],
                   "sub/c.yaml": [_core_file("quick_logger.yaml"), "../a.yaml"]}
KINDS = ("constant", "string", "alias", "alias2", "struct", "message", "signal")  # alias2: an alias whose target is another alias
SECTION = {"constant": "constants", "string": "string_constants", "alias": "aliases", "alias2": "aliases", "struct": "struct_defs",
           "message": "message_defs", "signal": "message_defs"}


def reachable(g: Dict[str, List[str]]) -> List[str]:
    """files in the closure of root (every file of our shapes is reachable except sub/c in 'repeat')"""
    seen, todo = [], ["root.yaml"]
    while todo:
        f = todo.pop(0)
        if f in seen:
            continue
        seen.append(f)
        base = os.path.dirname(f)
        for imp in g.get(f, []):
            if not os.path.isabs(imp):  # (absolute entries name the core definition files of the package: not ours to write)
                todo.append(os.path.normpath(os.path.join(base, imp)))
    return seen


def item_lines(kind: str, name: str, mid: int) -> List[str]:
    if kind == "constant":
        return [f"  {name}: 5"]
    if kind == "string":
        return [f'  {name}: "txt"']
    if kind == "alias":
        return [f"  {name}: int32"]
    if kind == "alias2":
        return [f"  BASE_AL_{mid}: int16", f"  {name}: BASE_AL_{mid}"]
    if kind == "struct":
        return [f"  {name}:", "    fields:", "      a: int32"]
    if kind == "message":
        return [f"  {name}:", f"    id: {mid}", "    fields:", "      a: int32"]
    if kind == "signal":
        return [f"  {name}:", f"    id: {mid}", "    fields: null"]
    raise KeyError(kind)


class Files:
    def __init__(self, graph: Dict[str, List[str]]):
        self.graph = graph
        self.sections: Dict[str, Dict[str, List[str]]] = {f: {} for f in graph}
        self.reserved: Dict[str, List[str]] = {}

    def add(self, f: str, section: str, lines: List[str]):
        self.sections[f].setdefault(section, []).extend(lines)

    def add_reserved(self, f: str, entry: str):
        self.reserved.setdefault(f, []).append(entry)

    def write(self, d: str) -> str:
        for f, imports in self.graph.items():
            out = []
            if imports:
                out.append("imports:")
                out += [f"  - {p}" for p in imports]
            secs = {k: list(v) for k, v in self.sections[f].items()}
            # every file defines something (an empty YAML document is not a definition file)
            secs.setdefault("constants", []).append(f"  FILL_{zlib.crc32(f.encode()) % 9973}: 1")
            if f in self.reserved:
                secs.setdefault("message_defs", [])
                secs["message_defs"] += ["  _RESERVED_:", "    id:"] + [f"      - {e}" for e in self.reserved[f]]
            for sec in defx.SECTIONS:
                if sec in secs:
                    out.append(f"{sec}:")
                    out += secs[sec]
            p = os.path.join(d, f)
            os.makedirs(os.path.dirname(p), exist_ok=True)
            with open(p, "w") as fh:
                fh.write("\n".join(out) + "\n")
        return os.path.join(d, "root.yaml")

    def text(self):
        return {f: self.sections[f] for f in self.graph}


# ---- case generation --------------------------------------------------------------------------------------------

def cases(tier: str) -> List[Dict[str, Any]]:
    out = []
    graphs = [g for g in GRAPHS if g not in (DEEP, COREIMP)]
    cfiles = reachable(GRAPHS[COREIMP])
    for core_on in (True, False):
        for f in cfiles if core_on else ():  # (the registry expectation knows the core items only with the automatic import on)
            out.append(dict(cls="free", graph=COREIMP, core=core_on, placement=[f], k=1))
            out.append(dict(cls="free", graph=COREIMP, core=core_on, placement=[f, cfiles[-1]], k=2))
        for (f1, f2) in itertools.product(cfiles, repeat=2):
            out.append(dict(cls="name", graph=COREIMP, core=core_on, items=[("struct", "DUP", 2001, f1), ("message", "DUP", 2002, f2)]))
            out.append(dict(cls="msgid", graph=COREIMP, core=core_on, forms=[("signal", f1), ("rto", f2)]))
    dfiles = reachable(GRAPHS[DEEP])
    dpairs = [(a, b) for a in (dfiles[0], dfiles[9], dfiles[10], dfiles[11], dfiles[12], dfiles[-1]) for b in (dfiles[0], dfiles[5], dfiles[11], dfiles[-1])]
    for (f1, f2) in dpairs:
        for (k1, k2) in (itertools.product(KINDS, repeat=2) if tier == "thorough" else (("constant", "message"), ("message", "struct"), ("alias", "alias"))):
            out.append(dict(cls="name", graph=DEEP, core=False, items=[(k1, "DUP", 2001, f1), (k2, "DUP", 2002, f2)]))
        out.append(dict(cls="msgid", graph=DEEP, core=False, forms=[("message", f1), ("rto", f2)]))
        out.append(dict(cls="msgid", graph=DEEP, core=True, forms=[("signal", f1), ("message", f2)]))
        out.append(dict(cls="modid", graph=DEEP, core=False, files=[f1, f2]))
        out.append(dict(cls="free", graph=DEEP, core=False, placement=[f1, f2], k=2))
    for f in dfiles:
        out.append(dict(cls="free", graph=DEEP, core=False, placement=[f], k=1))
        out.append(dict(cls="free", graph=DEEP, core=True, placement=[f, dfiles[-1]], k=2))
    for gname in graphs:
        g = GRAPHS[gname]
        files = reachable(g)
        pairs = list(itertools.product(files, repeat=2))
        # name conflicts: every ordered pair of kinds in every ordered pair of files
        for (k1, k2) in itertools.product(KINDS, repeat=2):
            for (f1, f2) in pairs:
                out.append(dict(cls="name", graph=gname, core=False, items=[(k1, "DUP", 2001, f1), (k2, "DUP", 2002, f2)]))
        # message id clashes
        # (copy / copymsg: a message that takes its fields from a struct / from another message - 'fields: NAME')
        forms = ("message", "signal", "rint", "rdash", "rto", "copy", "copymsg")
        for (a, b) in itertools.product(forms, repeat=2):
            for (f1, f2) in pairs:
                if f1 == f2 and a.startswith("r") and b.startswith("r") and tier == "quick" and gname not in ("single", "diamond"):
                    continue
                out.append(dict(cls="msgid", graph=gname, core=False, forms=[(a, f1), (b, f2)]))
        # id sets that touch, overlap at one end, nest or only neighbour each other: conflict iff the sets intersect
        if tier == "thorough" or gname in ("single", "fan2", "diamond", "subdir"):
            firsts = [("message", 2500, 2500), ("rdash", 2498, 2500), ("rto", 2500, 2502), ("rint", 2500, 2500)]
            seconds = [("message", 2499, 2499), ("message", 2501, 2501), ("signal", 2500, 2500), ("signal", 2503, 2503), ("rint", 2497, 2497), ("rint", 2498, 2498),
                       ("rint", 2502, 2502), ("rint", 2503, 2503), ("rdash", 2495, 2497), ("rdash", 2496, 2498), ("rdash", 2499, 2501), ("rto", 2501, 2503),
                       ("rto", 2502, 2504), ("rto", 2503, 2505), ("rdash", 2490, 2510)]
            fpairs = pairs if tier == "thorough" else [p for p in pairs if p[0] == "root.yaml" or p[0] == p[1] or p[1] == "root.yaml"]
            for a in firsts:
                for b in seconds:
                    for (f1, f2) in fpairs:
                        out.append(dict(cls="idsets", graph=gname, core=False, forms=[list(a) + [f1], list(b) + [f2]]))
        # names that nearly collide (case, suffix, prefix) never conflict
        if tier == "thorough" or gname in ("single", "diamond"):
            for (k1, k2) in itertools.product(KINDS, repeat=2):
                for n2 in ("DUP2", "Dup", "DUP_", "XDUP", "DU"):
                    for (f1, f2) in (pairs if tier == "thorough" else pairs[:3]):
                        out.append(dict(cls="nearname", graph=gname, core=False, items=[(k1, "DUP", 2001, f1), (k2, n2, 2002, f2)]))
        # a conflict among many unrelated definitions (every file carries its own bulk)
        if tier == "thorough":
            for (k1, k2) in itertools.product(KINDS, repeat=2):
                for (f1, f2) in pairs:
                    out.append(dict(cls="name-in-bulk", graph=gname, core=False, items=[(k1, "DUP", 2001, f1), (k2, "DUP", 2002, f2)]))
        # module / host ids
        for (f1, f2) in pairs:
            out.append(dict(cls="modid", graph=gname, core=False, files=[f1, f2]))
            out.append(dict(cls="hostid", graph=gname, core=False, files=[f1, f2]))
            out.append(dict(cls="modname", graph=gname, core=False, files=[f1, f2]))
        # the clashing pair among unrelated ids: every arrangement of {higher, lower} by-standers before / between / after the pair
        if tier == "thorough" or gname in ("single", "fan2", "diamond"):
            pats = sorted({"".join(p) for n in (3, 4) for p in itertools.permutations("ABHL"[:n] if n == 4 else "ABH") } | {"".join(p) for p in itertools.permutations("ABL")})
            for cls_ in ("modid-among", "hostid-among", "msgid-among"):
                for pat in pats:
                    for (f1, f2) in (pairs if tier == "thorough" else [p for p in pairs if p[0] == "root.yaml" or p[0] == p[1]]):
                        out.append(dict(cls=cls_, graph=gname, core=False, files=[f1, f2], pattern=pat))
                        if files[-1] not in (f1, f2):
                            out.append(dict(cls=cls_, graph=gname, core=False, files=[f1, f2], pattern=pat, bystander_file=files[-1]))
        # conflict-free placements
        defs = [("constant", "C_A"), ("alias", "AL_B"), ("struct", "ST_C"), ("message", "MS_D")]
        for k in range(1, 5):
            if tier == "quick" and k == 3:
                continue
            for placement in itertools.product(files, repeat=k):
                out.append(dict(cls="free", graph=gname, core=False, placement=list(placement), k=k))
    # range violations (root file), with and without the core import
    for core_on in (False, True):
        for what, val in (("msgid", -1), ("msgid", 10001), ("msgid", 2 ** 31), ("msgid-ok", 3 if core_on else 0), ("msgid-ok", 10000),
                          ("modid", 9), ("modid", 100), ("modid", 150), ("modid", 199), ("modid-ok", 10), ("modid-ok", 99), ("modid-ok", 200),
                          ("hostid", 0), ("hostid", 32768), ("hostid", -5), ("hostid-ok", 1), ("hostid-ok", 32766)):
            out.append(dict(cls="range", graph="single", core=core_on, what=what, val=val))
            if what.startswith("msgid"):
                out.append(dict(cls="range", graph="single", core=core_on, what=what, val=val, form="copy"))
                out.append(dict(cls="range", graph="single", core=core_on, what=what, val=val, form="message"))
    # with the core definitions: clashes against core ids / names, representatives of every class
    for gname in ("single", "diamond", "subdir", "samestring") if tier == "quick" else graphs:
        files = reachable(GRAPHS[gname])
        for f in files:
            out.append(dict(cls="core-msgid", graph=gname, core=True, file=f, form="message"))
            out.append(dict(cls="core-msgid", graph=gname, core=True, file=f, form="rdash"))
            out.append(dict(cls="core-name", graph=gname, core=True, file=f, kind="struct", name="RTMA_MSG_HEADER"))
            out.append(dict(cls="core-name", graph=gname, core=True, file=f, kind="constant", name="MAX_MODULES"))
            out.append(dict(cls="core-name", graph=gname, core=True, file=f, kind="message", name="CONNECT"))
            out.append(dict(cls="core-modid", graph=gname, core=True, file=f))
        for (f1, f2) in itertools.product(files, repeat=2):
            out.append(dict(cls="name", graph=gname, core=True, items=[("struct", "DUP", 2001, f1), ("message", "DUP", 2002, f2)]))
            out.append(dict(cls="msgid", graph=gname, core=True, forms=[("signal", f1), ("rto", f2)]))
            out.append(dict(cls="free", graph=gname, core=True, placement=[f1, f2], k=2))
    return out


def build(case) -> Tuple[Files, str, Optional[Dict[str, Any]]]:
    """returns (files, expected verdict, expected registry for conflict-free programs)"""
    g = GRAPHS[case["graph"]]
    fl = Files(g)
    cls = case["cls"]
    if cls == "name":
        (k1, n1, i1, f1), (k2, n2, i2, f2) = case["items"]
        fl.add(f1, SECTION[k1], item_lines(k1, n1, i1))
        fl.add(f2, SECTION[k2], item_lines(k2, n2, i2))
        same_mapping = f1 == f2 and SECTION[k1] == SECTION[k2]
        return fl, ("YAMLSyntaxError" if same_mapping else "DuplicateNameError"), None
    if cls == "msgid":
        exp = "MessageIDError"
        for i, (form, f) in enumerate(case["forms"]):
            nm = f"MSG{i}"
            if form in ("message", "signal"):
                fl.add(f, "message_defs", item_lines(form, nm, 2500))
            elif form == "copy":
                fl.add(f, "struct_defs", item_lines("struct", f"SRC_ST{i}", 0))
                fl.add(f, "message_defs", [f"  {nm}:", "    id: 2500", f"    fields: SRC_ST{i}"])
            elif form == "copymsg":
                fl.add(f, "message_defs", item_lines("message", f"SRC_MS{i}", 2590 + i) + [f"  {nm}:", "    id: 2500", f"    fields: SRC_MS{i}"])
            elif form == "rint":
                fl.add_reserved(f, "2500")
            elif form == "rdash":
                fl.add_reserved(f, "2498 - 2502")
            elif form == "rto":
                fl.add_reserved(f, "2500 to 2501")
        return fl, exp, None
    if cls == "idsets":
        sets = []
        for i, (form, lo, hi, f) in enumerate(case["forms"]):
            if form in ("message", "signal"):
                fl.add(f, "message_defs", item_lines(form, f"MSG{i}", lo))
            elif form == "rint":
                fl.add_reserved(f, str(lo))
            elif form == "rdash":
                fl.add_reserved(f, f"{lo} - {hi}")
            else:
                fl.add_reserved(f, f"{lo} to {hi}")
            sets.append(set(range(lo, hi + 1)))
        return fl, ("MessageIDError" if sets[0] & sets[1] else "ok"), None
    if cls == "nearname":
        (k1, n1, i1, f1), (k2, n2, i2, f2) = case["items"]
        fl.add(f1, SECTION[k1], item_lines(k1, n1, i1))
        fl.add(f2, SECTION[k2], item_lines(k2, n2, i2))
        return fl, "ok", None
    if cls == "name-in-bulk":
        (k1, n1, i1, f1), (k2, n2, i2, f2) = case["items"]
        for j, f in enumerate(reachable(g)):
            for q, kind in enumerate(KINDS):
                fl.add(f, SECTION[kind], item_lines(kind, f"BULK_{j}_{q}", 3000 + 10 * j + q))
            fl.add_reserved(f, f"{3200 + 10 * j} - {3200 + 10 * j + 3}")
        fl.add(f1, SECTION[k1], item_lines(k1, n1, i1))
        fl.add(f2, SECTION[k2], item_lines(k2, n2, i2))
        same_mapping = f1 == f2 and SECTION[k1] == SECTION[k2]
        return fl, ("YAMLSyntaxError" if same_mapping else "DuplicateNameError"), None
    if cls == "modid":
        f1, f2 = case["files"]
        fl.add(f1, "module_ids", ["  MOD_A: 42"])
        fl.add(f2, "module_ids", ["  MOD_B: 42"])
        return fl, "ModuleIDError", None
    if cls in ("modid-among", "hostid-among", "msgid-among"):
        # unrelated items with larger and smaller ids around the clashing pair, in every arrangement of the given pattern:
        # pattern is a string over {H (higher id), L (lower id), A, B (the pair)} giving the declaration order in ONE file, or the
        # by-standers live in the file imported first
        f1, f2 = case["files"]
        sec, fmt, lo, hi, dup = {"modid-among": ("module_ids", "  {n}: {v}", 20, 80, 42), "hostid-among": ("host_ids", "  {n}: {v}", 3, 90, 7),
                                 "msgid-among": ("message_defs", None, 2400, 2600, 2500)}[cls]
        k = 0
        for ch in case["pattern"]:
            k += 1
            if ch in "HL":
                val = (hi if ch == "H" else lo) + k
                tgt = case.get("bystander_file") or f1
                name = f"BY{k}"
            else:
                val, tgt, name = dup, (f1 if ch == "A" else f2), f"DUP_{ch}"
            fl.add(tgt, sec, item_lines("signal", name, val) if fmt is None else [fmt.format(n=name, v=val)])
        return fl, {"modid-among": "ModuleIDError", "hostid-among": "HostIDError", "msgid-among": "MessageIDError"}[cls], None
    if cls == "modname":
        f1, f2 = case["files"]
        fl.add(f1, "module_ids", ["  MOD_A: 42"])
        fl.add(f2, "module_ids", ["  MOD_A: 43"])
        return fl, ("YAMLSyntaxError" if f1 == f2 else "DuplicateNameError"), None
    if cls == "hostid":
        f1, f2 = case["files"]
        fl.add(f1, "host_ids", ["  HOST_A: 7"])
        fl.add(f2, "host_ids", ["  HOST_B: 7"])
        return fl, "HostIDError", None
    if cls == "free":
        defs = [("constant", "C_A", 0), ("alias", "AL_B", 0), ("struct", "ST_C", 0), ("message", "MS_D", 2600)][:case["k"]]
        reg = {"constants": [f"FILL_{zlib.crc32(f.encode()) % 9973}" for f in reachable(g)], "aliases": [], "struct_defs": [], "message_defs": []}
        for (kind, name, mid), f in zip(defs, case["placement"]):
            fl.add(f, SECTION[kind], item_lines(kind, name, mid))
            reg[SECTION[kind]].append(name)
        # unrelated, distinct ids everywhere: a signal and a reserved block in every file
        for j, f in enumerate(reachable(g)):
            fl.add(f, "message_defs", item_lines("signal", f"SIG_{j}", 2700 + j))
            fl.add_reserved(f, f"{2800 + 10 * j} - {2800 + 10 * j + 3}")
            fl.add(f, "module_ids", [f"  MOD_{j}: {20 + j}"])
            fl.add(f, "host_ids", [f"  HOST_{j}: {3 + j}"])
            reg["message_defs"].append(f"SIG_{j}")
            reg["message_defs"] += [f"_RESERVED_{2800 + 10 * j + q:06d}" for q in range(4)]
            reg.setdefault("module_ids", []).append(f"MOD_{j}")
            reg.setdefault("host_ids", []).append(f"HOST_{j}")
        return fl, "ok", reg
    if cls == "range":
        what, val = case["what"], case["val"]
        ok = what.endswith("-ok")
        base = what.replace("-ok", "")
        if base == "msgid":
            if case.get("form") == "copy":
                fl.add("root.yaml", "struct_defs", item_lines("struct", "SRC_ST", 0))
                fl.add("root.yaml", "message_defs", ["  EDGE:", f"    id: {val}", "    fields: SRC_ST"])
            elif case.get("form") == "message":
                fl.add("root.yaml", "message_defs", item_lines("message", "EDGE", val))
            else:
                fl.add("root.yaml", "message_defs", item_lines("signal", "EDGE", val))
            exp = "ok" if ok else "RTMASyntaxError"
        elif base == "modid":
            fl.add("root.yaml", "module_ids", [f"  EDGE: {val}"])
            exp = "ok" if (ok or not case["core"]) else "RTMASyntaxError"
        else:
            fl.add("root.yaml", "host_ids", [f"  EDGE: {val}"])
            exp = "ok" if (ok or not case["core"]) else "RTMASyntaxError"
        return fl, exp, None
    if cls == "core-msgid":
        if case["form"] == "message":
            fl.add(case["file"], "message_defs", item_lines("message", "MINE", 13))  # CONNECT
        else:
            fl.add_reserved(case["file"], "84 - 86")  # PAUSE_SUBSCRIPTION = 85
        return fl, "MessageIDError", None
    if cls == "core-name":
        fl.add(case["file"], SECTION[case["kind"]], item_lines(case["kind"], case["name"], 2900))
        return fl, "DuplicateNameError", None
    if cls == "core-modid":
        fl.add(case["file"], "module_ids", ["  MINE: 0"])  # the only core id a user file may legally write is refused as duplicate
        return fl, "ModuleIDError", None
    raise KeyError(cls)


def run_case(case, d: str) -> Optional[Dict[str, Any]]:
    from pyrtma import parser as PP

    fl, expect, reg = build(case)
    for name in os.listdir(d):
        p = os.path.join(d, name)
        shutil.rmtree(p) if os.path.isdir(p) else os.remove(p)
    root = fl.write(d)
    try:
        p = defx.parse_model(root, import_coredefs=case["core"])
        got = "ok"
    except PP.ParserError as e:
        got = type(e).__name__
        p = None
    except Exception as e:
        got = f"non-ParserError:{type(e).__name__}"
        p = None
    if got != expect:
        return {"kind": "verdict", "cls": case["cls"], "expected": expect, "got": got, "case": case}
    if reg is not None and p is not None:
        for sec, names in reg.items():
            have = [n for n, o in getattr(p, sec).items() if (not case["core"]) or "core_defs" not in str(getattr(o, "src", ""))]
            if sorted(have) != sorted(names):
                return {"kind": "registry", "section": sec, "expected": sorted(names), "got": sorted(have), "case": case}
        # a file reached by several import paths is read once
        inc = [str(x) for x in p.included_files]
        if len(inc) != len(set(inc)):
            return {"kind": "file-read-twice", "files": inc, "case": case}
    return None


def cli_exit_code(case, d: str) -> int:
    import pyrtma.compile as pc

    fl, expect, reg = build(case)
    root = fl.write(d)
    argv = sys.argv
    sys.argv = ["pyrtma.compile", "-i", root, "--python", "-o", d] + ([] if case["core"] else ["--no_core_import"])
    try:
        with contextlib.redirect_stdout(io.StringIO()), contextlib.redirect_stderr(io.StringIO()):
            import pyrtma.compilers.python as pyc
            from .. import valx

            old = pyc.subprocess
            pyc.subprocess = valx._Subprocess(False)
            try:
                pc.main()
            finally:
                pyc.subprocess = old
        return 0
    except SystemExit as e:
        return int(e.code or 0)
    finally:
        sys.argv = argv


def reused_parser(_=None) -> List[Optional[Dict[str, Any]]]:
    """one Parser object is used again after a parse that failed (and after one that succeeded): what the earlier parse had
    registered - items of every kind, ids, files already read - must not turn into conflicts of the next closure"""
    from pyrtma import parser as PP

    out: List[Optional[Dict[str, Any]]] = []
    d = core.scratch_dir("c12r")
    everything = {"constants": ["  KEEP_C: 5"], "string_constants": ['  KEEP_S: "txt"'], "aliases": ["  KEEP_A: int32"], "host_ids": ["  KEEP_H: 9"],
                  "module_ids": ["  KEEP_M: 44"], "struct_defs": ["  KEEP_ST:", "    fields:", "      a: int32"],
                  "message_defs": ["  KEEP_MS:", "    id: 2100", "    fields:", "      a: int32", "  KEEP_SIG:", "    id: 2101", "    fields: null"]}
    late_failures = {"MessageIDError": ["  CLASH_1:", "    id: 2200", "    fields: null", "  CLASH_2:", "    id: 2200", "    fields: null"],
                     "DuplicateNameError": ["  KEEP_C:", "    id: 2300", "    fields: null"],
                     "RTMASyntaxError": ["  TOO_BIG:", "    id: 10001", "    fields: null"]}

    def write(name, sections, imports=()):
        lines = []
        if imports:
            lines += ["imports:"] + [f"  - {p}" for p in imports]
        for sec in defx.SECTIONS:
            if sec in sections:
                lines += [f"{sec}:"] + sections[sec]
        p = os.path.join(d, name)
        os.makedirs(os.path.dirname(p), exist_ok=True)
        with open(p, "w") as fh:
            fh.write("\n".join(lines) + "\n")
        return p

    def parse(pr, path):
        try:
            with contextlib.redirect_stdout(io.StringIO()), contextlib.redirect_stderr(io.StringIO()):
                pr.parse(path)
            return "ok"
        except PP.ParserError as e:
            return type(e).__name__
        except Exception as e:
            return f"non-ParserError:{type(e).__name__}"

    try:
        for graph in ("single", "imported"):
            for fail, extra in late_failures.items():
                bad = {k: list(v) for k, v in everything.items()}
                bad["message_defs"] = bad["message_defs"] + extra
                if graph == "single":
                    bad_root = write("bad/root.yaml", bad)
                    good_root = write("good/root.yaml", everything)
                else:
                    write("bad/lib.yaml", {k: v for k, v in bad.items() if k != "message_defs"})
                    bad_root = write("bad/root.yaml", {"message_defs": bad["message_defs"]}, imports=["lib.yaml"])
                    write("good/lib.yaml", {k: v for k, v in everything.items() if k != "message_defs"})
                    good_root = write("good/root.yaml", {"message_defs": everything["message_defs"]}, imports=["lib.yaml"])
                pr = PP.Parser(import_coredefs=False)
                for h in list(pr.logger.handlers):
                    pr.logger.removeHandler(h)
                seq = []
                v1 = parse(pr, bad_root)
                seq.append(("conflict program", v1))
                if v1 != fail:
                    out.append({"kind": "verdict", "cls": "reused-parser", "expected": fail, "got": v1, "case": {"cls": "reused-parser", "graph": graph, "step": "first"}})
                    continue
                for step in ("after a failed parse", "after a successful parse", "after a second failure"):
                    if step == "after a second failure":
                        parse(pr, bad_root)
                    v = parse(pr, good_root)
                    if v != "ok":
                        out.append({"kind": "verdict", "cls": "reused-parser", "expected": "ok", "got": v,
                                    "case": {"cls": "reused-parser", "graph": graph, "first_failure": fail, "step": step}})
                        break
                    have = sorted(n for sec in ("constants", "string_constants", "aliases", "struct_defs", "message_defs", "module_ids", "host_ids") for n in getattr(pr, sec))
                    want = sorted(["KEEP_C", "KEEP_S", "KEEP_A", "KEEP_H", "KEEP_M", "KEEP_ST", "KEEP_MS", "KEEP_SIG"])
                    if have != want:
                        out.append({"kind": "registry", "section": "all", "expected": want, "got": have, "case": {"cls": "reused-parser", "graph": graph, "first_failure": fail, "step": step}})
                        break
                else:
                    out.append(None)
        # the options of a file are read first, then the file itself is parsed by the SAME Parser object (what a build script that
        # looks at AUTO_PAD / IMPORT_COREDEFS before compiling does): every conflict is still found, every definition still there
        for graph in ("single", "imported"):
            for fail, extra in list(late_failures.items()) + [("ok", [])]:
                secs = {k: list(v) for k, v in everything.items()}
                secs["message_defs"] = secs["message_defs"] + extra
                sub = f"opt_{graph}_{fail}"
                if graph == "single":
                    root = write(f"{sub}/root.yaml", secs)
                else:
                    write(f"{sub}/lib.yaml", {k: v for k, v in secs.items() if k != "message_defs"})
                    root = write(f"{sub}/root.yaml", {"message_defs": secs["message_defs"]}, imports=["lib.yaml"])
                for core_on in (False, True):
                    pr = PP.Parser(import_coredefs=core_on)
                    for h in list(pr.logger.handlers):
                        pr.logger.removeHandler(h)
                    try:
                        with contextlib.redirect_stdout(io.StringIO()), contextlib.redirect_stderr(io.StringIO()):
                            pr.parse_compiler_options(root)
                    except Exception as e:
                        out.append({"kind": "verdict", "cls": "options-then-parse", "expected": "options read", "got": type(e).__name__, "case": {"cls": "options-then-parse", "graph": graph}})
                        continue
                    v = parse(pr, root)
                    have = sorted(n for sec in ("constants", "string_constants", "aliases", "struct_defs", "message_defs", "module_ids", "host_ids") for n in getattr(pr, sec)
                                  if n.startswith("KEEP_")) if v == "ok" else None
                    want = sorted(["KEEP_C", "KEEP_S", "KEEP_A", "KEEP_H", "KEEP_M", "KEEP_ST", "KEEP_MS", "KEEP_SIG"]) if fail == "ok" else None
                    if v != fail or have != want:
                        out.append({"kind": "verdict" if v != fail else "registry", "cls": "options-then-parse", "expected": fail, "got": v, "section": "all", "have": have,
                                    "case": {"cls": "options-then-parse", "graph": graph, "conflict": fail, "core": core_on}})
                    else:
                        out.append(None)
    finally:
        core.rmtree(d)
    return out


def run_chunk(cs):
    d = core.scratch_dir("c12")
    out = []
    try:
        for c in cs:
            out.append(run_case(c, d))
    finally:
        core.rmtree(d)
    return out


def run(tier: str) -> int:
    chk = core.Check("C12", tier, "exploration",
                     "every import-graph shape x every ordered pair of files x every pair of conflicting kinds / id forms, plus every "
                     "conflict-free placement of k<=4 definitions; verdict and registry compared with set semantics. Distinct "
                     "non-trivial = distinct (class, graph, placement) cases whose two items live in different files.")
    cs = cases(tier)
    chunks = core.chunks(core.shuffled(cs, "c12"), 200)
    res = core.pmap(run_chunk, chunks)
    core.close_pool()
    flat = [c for ch in chunks for c in ch]
    i = 0
    classes: Dict[str, int] = {}
    nontrivial = 0
    for ch in res:
        for r in ch:
            case = flat[i]
            i += 1
            classes[case["cls"]] = classes.get(case["cls"], 0) + 1
            fs = [x[3] for x in case.get("items", [])] or [x[1] for x in case.get("forms", [])] or case.get("files", []) or case.get("placement", [])
            if len(set(fs)) > 1:
                nontrivial += 1
            if r is not None:
                chk.violation(f"C12:{r['kind']}:{r.get('cls', r.get('section', ''))}:{r.get('expected', '') if r['kind'] == 'verdict' else ''}", f"{r}", {"module": "vf.checks.c12", "case": case},
                              size=len(str(case)))
    # one Parser object used again
    rp = reused_parser()
    chk.count("reused_parser_sequences", len(rp))
    for r in rp:
        if r is not None:
            chk.violation(f"C12:{r['kind']}:reused-parser:{r.get('expected', '')}", f"{r}", {"module": "vf.checks.c12", "case": r["case"], "reused": True}, size=50)
    # the command line exits non-zero on a conflict and zero on a conflict-free program
    d = core.scratch_dir("c12cli")
    try:
        reps = {}
        for c in cs:
            reps.setdefault((c["cls"], c["core"]), c)
        for (cls, core_on), c in sorted(reps.items(), key=str):
            fl, expect, reg = build(c)
            code = cli_exit_code(c, d)
            chk.count("cli_runs")
            if (code == 0) != (expect == "ok"):
                chk.violation(f"C12:cli-exit:{cls}", f"CLI exit code {code} for a program expected to give {expect}: {c}", {"module": "vf.checks.c12", "case": c, "cli": True})
    finally:
        core.rmtree(d)
    chk.merge_counts({f"class_{k}": v for k, v in classes.items()})
    chk.sample(cs[0])
    chk.sample(cs[len(cs) // 2])
    chk.sample({"graphs": {k: v for k, v in list(GRAPHS.items())[:4]}})
    chk.assumptions += ["ruamel.yaml reports duplicate keys of one mapping (surfaces as YAMLSyntaxError)"]
    return chk.finish({"evaluations": len(cs), "distinct_nontrivial": nontrivial})


def replay(case) -> int:
    if case.get("reused"):
        hit = [r for r in reused_parser() if r is not None]
        for r in hit:
            print("  PROBLEM:", r)
        print("reproduced" if hit else "NOT reproduced")
        return 1 if hit else 0
    d = core.scratch_dir("c12r")
    try:
        c = case["case"]
        if "items" in c:
            c["items"] = [tuple(x) for x in c["items"]]
        if "forms" in c:
            c["forms"] = [tuple(x) for x in c["forms"]]
        r = run_case(c, d)
        fl, expect, reg = build(c)
        root = fl.write(d)
        for f in fl.graph:
            print(f"  --- {f}")
            print("  " + open(os.path.join(d, f)).read().replace("\n", "\n  "))
    finally:
        core.rmtree(d)
    print("  PROBLEM:", r)
    print("reproduced" if r else "NOT reproduced")
    return 1 if r else 0
