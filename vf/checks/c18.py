"""C18 - manager traffic statistics are exact.

Engine: the real MessageManager on the virtual network with the virtual clock; observer: a logger
module subscribed to ALL (always waited for, so it sees every forwarded frame in forwarding
order and every report).

Enumerated: every sequence of 2 (quick) / 3 (thorough) reporting intervals over the interval
contents {N distinct forwarded types, N in 0,1,2,63,64,65,127,128,129,300} x {all counts 1; one
type three times; one type 65535 times} x clock steps that fire TIMING only (0.95 s) or TIMING and
MESSAGE_TRAFFIC (1.05 s).

Oracle (reference = what the observer itself saw): each TIMING_MESSAGE's table equals the count,
by type, of the frames the observer received since the previous TIMING_MESSAGE (reports
themselves and ACK copies excluded); ModulePID holds the pid of every connected module with a
non-zero id. All MESSAGE_TRAFFIC sub-messages with one seqno, terminator and zero-count entries
ignored, list every type seen since the previous report exactly once with its exact count and no
other type.
"""
from __future__ import annotations

import itertools
import struct
from collections import Counter
from typing import Any, Dict, List, Tuple

from .. import core, mmx, proto as P

NS = (0, 1, 2, 63, 64, 65, 127, 128, 129, 300)
BASE = 2000  # first data type id used
FAILT = 1999  # Q's type: published while Q cannot accept data
POPULATION = ("dup-refused", "twin-join", "twin-one-leaves", "sender-leaves", "pid-change")
PIDS = {21: 777, 22: 888, 60: 999}


def contents(tier: str) -> List[Tuple[int, str]]:
    out = []
    for n in NS:
        out.append((n, "ones"))
        if n:
            out.append((n, "triple"))
    out.append((2, "odd"))
    out.append((0, "odd"))
    # the upper half of the type table and its middle; deliveries that fail (the manager's own FAILED_MESSAGE is traffic too)
    out.append((2, "high"))
    out.append((65, "high"))
    out.append((5, "edge"))
    out.append((2, "failed"))
    # the population changes between reports (the process-id table follows the modules that are connected)
    out.append((0, "dup-refused"))
    out.append((0, "twin-join"))
    out.append((0, "twin-one-leaves"))
    out.append((0, "sender-leaves"))
    out.append((0, "pid-change"))
    # a connection that never said CONNECT publishes (the manager forwards its messages like any others)
    out.append((3, "unregistered"))
    # a frame whose type id is the table's own end marker (-1) among ordinary ones, at the places where a sub-message fills up
    out.append((63, "minus1"))
    out.append((64, "minus1"))
    out.append((2, "minus1"))
    return out


def interval_frames(tc, n: int, pattern: str, salt: int) -> List[bytes]:
    frames = []
    if pattern == "high":
        return [P.mkframe(P.MAX_MESSAGE_TYPES - 1 - 3 * k - salt, b"", timecode=tc, src_mod_id=21) for k in range(n)]
    if pattern == "edge":
        half = P.MAX_MESSAGE_TYPES // 2
        return [P.mkframe(mt, b"", timecode=tc, src_mod_id=21) for mt in (half - 1, half, half + 1, P.MAX_MESSAGE_TYPES - 1, P.MAX_MESSAGE_TYPES - 2)]
    if pattern in POPULATION:
        return []
    if pattern == "failed":
        return [P.mkframe(FAILT, b"x" * 8, timecode=tc, src_mod_id=21) for k in range(n)]
    if pattern == "unregistered":
        return []
    if pattern == "minus1":
        fr_ = [P.mkframe(BASE + 400 + k + 70 * salt, b"", timecode=tc, src_mod_id=21) for k in range(n)]
        return fr_ + [P.mkframe(-1, b"", timecode=tc, src_mod_id=21)] + [P.mkframe(BASE + 600 + k, b"", timecode=tc, src_mod_id=21) for k in range(3)]
    for k in range(n):
        mt = BASE + ((k * 7 + salt * 13) % 997 if n < 900 else k)
        frames.append(P.mkframe(mt, b"", timecode=tc, src_mod_id=21))
    if n:
        types = sorted({P.hstruct(tc).unpack(f[:P.hstruct(tc).size])[0] for f in frames})
        # distinctness is part of the scenario: regenerate deterministically when the hash collides
        if len(types) != n:
            frames = [P.mkframe(BASE + k + salt, b"", timecode=tc, src_mod_id=21) for k in range(n)]
    if pattern == "triple" and n:
        frames += [frames[n // 2]] * 2
    if pattern == "odd":
        # type ids outside the TIMING table (negative, == MAX_MESSAGE_TYPES, large): counted by nobody's table entry
        for mt in (-2, -2, -10000, -9999, P.MAX_MESSAGE_TYPES, 70000, -2 ** 31, 2 ** 31 - 2):  # -1 is the table terminator
            frames.append(P.mkframe(mt, b"", timecode=tc, src_mod_id=21))
    return frames


GHOST = 4242


def execute_second(case) -> Dict[str, Any]:
    """a manager that runs after another manager of the same process (restarted in place, a test bench that starts one per case):
    its reports speak about its own traffic only. The first manager is stopped with counts it has not reported yet."""
    _tag, tc, how = case
    probs: List[Dict[str, Any]] = []
    reports = {"timing": 0, "traffic": 0}
    mmx.fresh_gc()
    w0 = mmx.World(timecode=tc)
    rounds = 0
    try:
        P0 = w0.client("P", 1).connect()
        w0.settle()
        P0.send(P.mkframe(P.MT_CONNECT, P.p_connect(), timecode=tc, src_mod_id=21))
        w0.settle()
        if how == "after-report":
            w0.tick(1.05)
            w0.step()
        P0.send(b"".join(P.mkframe(GHOST + (k % 2), b"", timecode=tc, src_mod_id=21) for k in range(5)))
        w0.settle()
    finally:
        w0.stop()
        rounds += w0.rounds
    w = mmx.World(timecode=tc)
    try:
        L = w.client("L", 1).connect()
        Pp = w.client("P", 2).connect()
        w.settle()
        L.send(P.mkframe(P.MT_CONNECT_V2, P.p_connect_v2(1, 0, 0, 60, 1, b"log"), timecode=tc, src_mod_id=60)
               + P.mkframe(P.MT_SUBSCRIBE, P.p_sub(P.ALL_MESSAGE_TYPES), timecode=tc, src_mod_id=60))
        Pp.send(P.mkframe(P.MT_CONNECT, P.p_connect(), timecode=tc, src_mod_id=21))
        w.settle()
        sent = 0
        for step in range(3):
            if step == 1:
                Pp.send(P.mkframe(GHOST, b"", timecode=tc, src_mod_id=21))
                sent = 1
                w.settle()
            w.tick(1.05)
            w.step()
            w.settle()
            seen = Counter()
            for f in L.drain():
                k = P.normalize(f)
                if k[0] == "timing":
                    counts, _pids = P.decode_timing(f.payload)
                    reports["timing"] += 1
                    for t in (GHOST, GHOST + 1):
                        want = sent if (t == GHOST and step == 1) else 0
                        if counts.get(t, 0) != want:
                            probs.append({"kind": "timing-counts-of-another-manager", "type": t, "got": counts.get(t, 0), "want": want, "report": step})
                elif k[0] == "traffic":
                    d = P.decode_traffic(f.payload)
                    reports["traffic"] += 1
                    for t, c in zip(d["types"], d["counts"]):
                        if t == -1:
                            break
                        if t in (GHOST, GHOST + 1) and c and not (t == GHOST and step == 1 and c == sent):
                            probs.append({"kind": "traffic-counts-of-another-manager", "type": t, "got": c, "report": step})
            if not w.alive:
                probs.append({"kind": "manager-" + (w.exit or ("?",))[0], "detail": str((w.exit or ("", ""))[1])[:300]})
                break
    finally:
        w.stop()
    return {"problems": probs, "reports": reports, "rounds": rounds + w.rounds}


def execute(case) -> Dict[str, Any]:
    if case[0] == "late":
        return execute_late(case)
    if case[0] == "second":
        return execute_second(case)
    tc, seq = case[:2]  # seq = list of (n, pattern, dt)
    timing = case[2] if len(case) > 2 else True
    level = case[3] if len(case) > 3 else mmx.SILENT
    mmx.fresh_gc()
    w = mmx.World(timecode=tc, send_msg_timing=timing, log_level=level)
    probs: List[Dict[str, Any]] = []
    reports = {"timing": 0, "traffic": 0}
    want_pids = dict(PIDS)  # module id -> pid of every module connected right now
    twins: List[Any] = []
    nconn = [10]

    def population_event(pattern):
        """connections come, are refused or go while the reporting goes on (nothing of it is forwarded traffic)"""
        nconn[0] += 1
        if pattern == "dup-refused":
            # a second connection asks for an id that is in use (21) and for one outside the range: both refused and closed
            for mid in (21, 150):
                X = w.client(f"X{nconn[0]}{mid}", None).connect()
                w.settle()
                X.send(P.mkframe(P.MT_CONNECT_V2, P.p_connect_v2(0, 0, 0, mid, 4242, b"dup"), timecode=tc, src_mod_id=mid))
                w.settle()
                X.fin()
                w.settle()
        elif pattern == "twin-join":
            for i in range(2):
                T = w.client(f"T{nconn[0]}{i}", None).connect()
                w.settle()
                T.send(P.mkframe(P.MT_CONNECT_V2, P.p_connect_v2(0, 0, 1, 23, 555, b"twin"), timecode=tc, src_mod_id=23))
                w.settle()
                twins.append(T)
            want_pids[23] = 555
        elif pattern == "sender-leaves":
            # a module connects, publishes and is gone again before the interval's reports: what it sent was forwarded and counts
            X = w.client(f"S{nconn[0]}", None).connect()
            w.settle()
            X.send(P.mkframe(P.MT_CONNECT, P.p_connect(), timecode=tc, src_mod_id=24))
            w.settle()
            X.send(b"".join(P.mkframe(BASE + 700 + (k % 2), b"bye", timecode=tc, src_mod_id=24) for k in range(5)))
            w.settle(limit=10 ** 6)
            how = nconn[0] % 3
            if how == 0:
                X.send(P.mkframe(P.MT_DISCONNECT, b"", timecode=tc, src_mod_id=24))
                w.settle()
                X.fin()
            elif how == 1:
                X.fin()
            else:
                X.rst()
            w.settle()
        elif pattern == "pid-change":
            # a connected module announces another process id (a program that forks after connecting)
            newpid = 888 + nconn[0]
            Q.send(P.mkframe(P.MT_MODULE_READY, P.P_READY.pack(newpid), timecode=tc, src_mod_id=22))
            w.settle()
            want_pids[22] = newpid
        elif pattern == "twin-one-leaves" and twins:
            T = twins.pop()
            T.send(P.mkframe(P.MT_DISCONNECT, b"", timecode=tc, src_mod_id=23))
            w.settle()
            T.fin()
            w.settle()
            if not twins:
                want_pids.pop(23, None)

    try:
        L = w.client("L", 1).connect()
        Pp = w.client("P", 2).connect()
        Q = w.client("Q", 3).connect()
        w.settle()
        L.send(P.mkframe(P.MT_CONNECT_V2, P.p_connect_v2(1, 0, 0, 60, PIDS[60], b"log"), timecode=tc, src_mod_id=60)
               + P.mkframe(P.MT_SUBSCRIBE, P.p_sub(P.ALL_MESSAGE_TYPES), timecode=tc, src_mod_id=60))
        Pp.send(P.mkframe(P.MT_CONNECT, P.p_connect(), timecode=tc, src_mod_id=21)
                + P.mkframe(P.MT_MODULE_READY, P.P_READY.pack(PIDS[21]), timecode=tc, src_mod_id=21))
        Q.send(P.mkframe(P.MT_CONNECT_V2, P.p_connect_v2(0, 0, 0, 22, PIDS[22], b"q"), timecode=tc, src_mod_id=22)
               + P.mkframe(P.MT_SUBSCRIBE, P.p_sub(FAILT), timecode=tc, src_mod_id=22))
        w.settle()
        # baseline: flush both reports once; from here on the observer sees everything that is counted
        w.tick(1.05)
        w.step()
        L.drain()
        L.inbox.clear()
        acc_t: Counter = Counter()
        acc_r: Counter = Counter()
        group: Dict[int, List[Dict[str, Any]]] = {}
        last_seq = None
        since_report: set = set()  # counted types seen since the last MESSAGE_TRAFFIC frame

        def close_group(seqno):
            nonlocal acc_r
            subs = group.pop(seqno, [])
            listed: List[Tuple[int, int]] = []
            for d in subs:
                for t, c in zip(d["types"], d["counts"]):
                    # an unused slot is (-1, 0) (or all zero); a slot (-1, n) with n > 0 is an entry like any other: a client did
                    # publish type id -1 n times
                    if c == 0:
                        continue
                    listed.append((t, c))
            lc = Counter(t for t, _ in listed)
            dup = sorted(t for t, k in lc.items() if k > 1)
            if dup:
                probs.append({"kind": "traffic-duplicate-entry", "seqno": seqno, "types": dup[:5], "interval_types": len(acc_r)})
            got = {}
            for t, c in listed:
                got.setdefault(t, c)
            want = {t: c & 0xFFFF for t, c in acc_r.items()}
            if got != want:
                miss = sorted(set(want) - set(got))[:5]
                extra = sorted(set(got) - set(want))[:5]
                wrong = sorted(t for t in set(got) & set(want) if got[t] != want[t])[:5]
                probs.append({"kind": "traffic-content", "seqno": seqno, "missing": miss, "not_seen": extra, "wrong_count": wrong,
                              "interval_types": len(acc_r)})
            ss = [d["sub_seqno"] for d in subs]
            acc_r = Counter()
            reports["traffic"] += 1

        def observe():
            nonlocal acc_t, last_seq
            for f in L.drain():
                k = P.normalize(f)
                if k[0] == "timing":
                    counts, pids = P.decode_timing(f.payload)
                    want = {t: c & 0xFFFF for t, c in acc_t.items() if 0 <= t < P.MAX_MESSAGE_TYPES}
                    if counts != want:
                        d = sorted(set(counts) ^ set(want))[:5] or sorted(t for t in counts if counts[t] != want.get(t))[:5]
                        probs.append({"kind": "timing-content", "differs_at": d, "got": {t: counts.get(t) for t in d}, "want": {t: want.get(t) for t in d}})
                    for mid, pid in want_pids.items():
                        if pids.get(mid) != pid:
                            probs.append({"kind": "timing-pid", "mod_id": mid, "want": pid, "got": pids.get(mid)})
                    for mid in pids:
                        if mid not in want_pids and mid != 0:
                            probs.append({"kind": "timing-pid-phantom", "mod_id": mid, "got": pids[mid]})
                    acc_t = Counter()
                    reports["timing"] += 1
                elif k[0] == "traffic":
                    d = P.decode_traffic(f.payload)
                    if last_seq is not None and d["seqno"] != last_seq:
                        close_group(last_seq)
                    last_seq = d["seqno"]
                    group.setdefault(d["seqno"], []).append(d)
                    since_report.clear()
                elif k[0] == "ack":
                    pass
                else:
                    if last_seq is not None and last_seq in group:
                        close_group(last_seq)
                        last_seq = None
                    acc_t[f.msg_type] += 1
                    acc_r[f.msg_type] += 1
                    since_report.add(f.msg_type)

        for i, (n, pattern, dt) in enumerate(seq):
            frames = interval_frames(tc, n, pattern, i)
            if pattern == "max" and n:
                Pp.send(b"".join(frames))
                w.settle(limit=10 ** 6)
                big = frames[0]
                for _ in range(13):
                    Pp.send(big * 5041)  # 13 * 5041 = 65533 more: 65534 in total... plus one below
                    w.settle(limit=10 ** 6)
                    observe()
                Pp.send(big)
                w.settle()
            elif pattern in POPULATION:
                population_event(pattern)
                observe()
            elif pattern == "unregistered":
                U = w.client(f"U{i}", None).connect()
                w.settle()
                U.send(b"".join(P.mkframe(BASE + 800 + (k % 2), b"anon", timecode=tc, src_mod_id=0) for k in range(n + 2)))
                w.settle(limit=10 ** 6)
            elif pattern == "failed":
                Pp.send(b"".join(frames))
                w.step(0, nonwritable=["Q"])
                w.settle(limit=10 ** 6)
            else:
                Pp.send(b"".join(frames))
                w.settle(limit=10 ** 6)
            observe()
            pending_types = len(since_report)
            before_reports = reports["traffic"] + len(group)
            w.tick(dt)
            w.step()
            if not w.alive:
                probs.append({"kind": "manager-" + (w.exit or ("?",))[0], "detail": str((w.exit or ("", ""))[1])[:300]})
                break
            observe()
            if dt > 1.0 and pending_types and reports["traffic"] + len(group) == before_reports:
                probs.append({"kind": "traffic-report-missing", "interval_types": pending_types})
        if w.alive:
            # one final pair of reports closes the last traffic group
            w.tick(1.05)
            w.step()
            observe()
            if last_seq is not None and last_seq in group:
                close_group(last_seq)
    finally:
        w.stop()
    return {"problems": probs, "reports": reports, "rounds": w.rounds}


def execute_late(case) -> Dict[str, Any]:
    """a MESSAGE_TRAFFIC listener that appears late (or pauses): the first report it sees covers one interval only.
    Observer W is a logger subscribed to the few data types individually, so it sees every counted frame of those types."""
    _tag, tc, variant = case
    mmx.fresh_gc()
    w = mmx.World(timecode=tc)
    probs: List[Dict[str, Any]] = []
    T = [BASE + 1, BASE + 2, BASE + 3]
    try:
        W = w.client("W", 1).connect()
        Pp = w.client("P", 2).connect()
        w.settle()
        W.send(P.mkframe(P.MT_CONNECT_V2, P.p_connect_v2(1, 0, 0, 60, 1, b"late"), timecode=tc, src_mod_id=60))
        Pp.send(P.mkframe(P.MT_CONNECT, P.p_connect(), timecode=tc, src_mod_id=21))
        w.settle()
        sub = lambda t, mt=P.MT_SUBSCRIBE: W.send(P.mkframe(mt, P.p_sub(t), timecode=tc, src_mod_id=60))
        if variant == "pause":
            sub(P.MT_MESSAGE_TRAFFIC)
            w.settle()
            sub(P.MT_MESSAGE_TRAFFIC, P.MT_PAUSE_SUBSCRIPTION)
        w.settle()
        pub = lambda mt, k: Pp.send(b"".join(P.mkframe(mt, b"", timecode=tc, src_mod_id=21) for _ in range(k)))
        # interval 1 and 2: nobody listens to MESSAGE_TRAFFIC (or ALL)
        pub(T[0], 7)
        pub(T[1], 3)
        w.settle()
        w.tick(1.05)
        w.step()
        pub(T[1], 2)
        w.settle()
        w.tick(1.05)
        w.step()
        # the listener (re)appears
        sub(P.MT_MESSAGE_TRAFFIC, P.MT_RESUME_SUBSCRIPTION if variant == "pause" else P.MT_SUBSCRIBE)
        w.settle()
        W.drain()
        W.inbox.clear()
        pub(T[2], 5)
        w.settle()
        w.tick(1.05)
        w.step()
        if not w.alive:
            probs.append({"kind": "manager-" + (w.exit or ("?",))[0], "detail": str((w.exit or ("", ""))[1])[:200]})
        W.drain()
        reports = [P.decode_traffic(f.payload) for f in W.inbox if P.normalize(f)[0] == "traffic"]
        listed = {}
        for d in reports:
            for t, c in zip(d["types"], d["counts"]):
                if t == -1:
                    break
                if c:
                    listed[t] = listed.get(t, 0) + c
        want = {T[2]: 5}
        got = {t: c for t, c in listed.items() if t in T}
        if got != want or not reports:
            probs.append({"kind": "traffic-late-listener", "variant": variant, "reported": got, "forwarded_in_interval": want, "reports": len(reports)})
    finally:
        w.stop()
    return {"problems": probs, "reports": {"timing": 0, "traffic": 1}, "rounds": w.rounds}


def run_chunk(cases):
    return [execute(c) for c in cases]


def plan(tier: str):
    cs = contents(tier)
    k = 2 if tier == "quick" else 3
    cases = []
    for tc in ((False,) if tier == "quick" else (False, True)):
        for combo in itertools.product(cs, repeat=k):
            if tier == "thorough" and tc and sum(c[0] for c in combo) > 500:
                continue
            for dts in itertools.product((0.95, 1.05), repeat=k):
                if tier == "thorough" and k == 3 and dts[1] == 0.95 and dts[2] == 0.95:
                    continue
                cases.append((tc, [(n, p, dt) for (n, p), dt in zip(combo, dts)]))
    # TIMING_MESSAGE switched off (-T): the traffic reports must not depend on it
    for combo in itertools.product([c for c in cs if c[0] in (0, 1, 2, 64, 65)], repeat=2):
        cases.append((False, [(n, p, 1.05) for (n, p) in combo], False))
    # a MESSAGE_TRAFFIC listener that subscribes late / pauses and resumes
    for tc in (False, True):
        for variant in ("late", "pause"):
            cases.append(("late", tc, variant))
    # the 5-second ACTIVE_CLIENTS / CLIENT_INFO broadcast falls into an interval: what the manager publishes then is traffic too
    small = [(0, "ones"), (2, "ones"), (65, "ones"), (0, "twin-join")]
    for tc in ((False,) if tier == "quick" else (False, True)):
        for combo in itertools.product(small, repeat=2):
            for dts in ((5.1, 1.05), (1.05, 5.1), (5.1, 5.1)):
                cases.append((tc, [(n, p, dt) for (n, p), dt in zip(combo, dts)]))
    # the manager's own log records are published as messages: with logging on they are traffic like any other (and some are
    # written while a report is being put together)
    noisy = [(0, "odd"), (2, "odd"), (2, "ones"), (65, "ones"), (2, "failed"), (0, "dup-refused"), (0, "sender-leaves")]
    for level in (20, 30):
        for combo in itertools.product(noisy, repeat=2):
            for dts in ((1.05, 1.05), (0.95, 1.05)):
                cases.append((False, [(n, p, dt) for (n, p), dt in zip(combo, dts)], True, level))
    # a second manager in a process that has run one before
    for tc in (False, True):
        for how in ("mid-interval", "after-report"):
            cases.append(("second", tc, how))
    # counts up to 65535 / 65536
    cases.append((False, [(2, "max", 1.05), (1, "ones", 1.05)]))
    if tier == "thorough":
        cases.append((True, [(65, "max", 0.95), (2, "max", 1.05)]))
    return cases


def run(tier: str) -> int:
    chk = core.Check("C18", tier, "model_checking",
                     "every sequence of reporting intervals over the interval-content alphabet x timer steps, executed on the "
                     "real MessageManager with a virtual clock; TIMING_MESSAGE / MESSAGE_TRAFFIC contents compared with what the "
                     "always-served logger observer saw forwarded in the same interval. A state is one executed interval "
                     "sequence; a transition is one manager round.")
    cases = plan(tier)
    chunks = core.chunks(core.shuffled(cases, "c18"), 6)
    res = core.pmap(run_chunk, chunks)
    core.close_pool()
    flat = [c for ch in chunks for c in ch]
    i = 0
    rounds = nt = nr = 0
    for ch in res:
        for r in ch:
            case = flat[i]
            i += 1
            rounds += r["rounds"]
            nt += r["reports"]["timing"]
            nr += r["reports"]["traffic"]
            for p in r["problems"]:
                chk.violation(f"C18:{p['kind']}", f"intervals {case[1]}: {p}", {"module": "vf.checks.c18", "case": list(case)},
                              size=(sum(x[0] for x in case[1]) + len(case[1])) if case[0] not in ("late", "second") else 1)
    chk.sample({"timecode": cases[0][0], "intervals": cases[0][1]})
    chk.sample({"timecode": cases[-1][0], "intervals": cases[-1][1]})
    chk.assumptions += ["virtual TCP model and virtual clock", "observer is a logger (never skipped), so it sees every forwarded frame",
                        "only valid destination ids are published"]
    return chk.finish({"states": len(cases), "transitions": rounds, "traces_validated_against_impl": len(cases),
                       "timing_reports_checked": nt, "traffic_reports_checked": nr})


def replay(case) -> int:
    c = case["case"]
    cc = tuple(c) if c[0] in ("late", "second") else (c[0], [tuple(x) for x in c[1]]) + tuple(c[2:])
    r1 = execute(cc)
    r2 = execute(cc)
    if str(r1["problems"]) != str(r2["problems"]):
        print("HARNESS-ERROR: non-deterministic replay")
        return 2
    print("  intervals:", cc[1], "timecode:", cc[0])
    for p in r1["problems"][:10]:
        print("  PROBLEM:", p)
    print("reproduced" if r1["problems"] else "NOT reproduced")
    return 1 if r1["problems"] else 0
