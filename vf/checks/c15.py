"""C15 - accepted definitions always yield outputs that load in their language.

Engine DEFX. Enumerated: every program of <= 3 (quick) / <= 4 (thorough) definitions in which each
definition is an alias / struct / message / signal / field-list reuse and refers to a native type
or to ANY earlier definition in every way the grammar permits (scalar field, array field, alias
target, field-list source), with every placement of each definition in the root file or in an
imported file for which the references are resolvable at parse time; plus one program per
remaining documented construct. One program per case (no packing).

Oracle: compile() raises nothing; the Python module imports and get_msg_cls(id) returns a class of
the recorded size for every message; gcc accepts the header; the JavaScript module imports, every
factory returns, two calls give distinct objects and array elements are distinct objects; the
MATLAB script (interpreted by a subset interpreter) never reads a field it has not defined.
"""
from __future__ import annotations

import itertools
import os
import subprocess
from typing import Any, Dict, List, Optional, Tuple

from .. import core, defx

SEC_ORDER = {"alias": 0, "struct": 1, "message": 2, "signal": 2}


def refs_for(kind: str, earlier: List[Dict[str, Any]]) -> List[Optional[int]]:
    """what a new definition of this kind may refer to: None = native type, or index of an earlier definition"""
    out: List[Optional[int]] = [None]
    for j, e in enumerate(earlier):
        if kind == "alias" and e["kind"] in ("alias", "struct"):
            out.append(j)
        elif kind in ("struct", "message") and e["kind"] in ("alias", "struct", "message"):
            out.append(j)
        elif kind in ("rstruct", "rmessage") and e["kind"] in ("struct", "message", "rstruct", "rmessage"):
            out.append(j)
    return out


def programs(k: int) -> List[List[Dict[str, Any]]]:
    """all definition lists of length k (kinds x reference x array-ness); names are positional"""
    out: List[List[Dict[str, Any]]] = []

    def rec(prefix):
        if len(prefix) == k:
            out.append(prefix)
            return
        i = len(prefix)
        for kind in ("alias", "struct", "message", "signal", "rstruct", "rmessage"):
            if kind == "signal":
                rec(prefix + [dict(kind="signal", ref=None, arr=False)])
                continue
            for ref in refs_for(kind, prefix):
                if kind in ("rstruct", "rmessage") and ref is None:
                    continue
                arrs = (False, True) if kind in ("struct", "message") else (False,)
                for arr in arrs:
                    rec(prefix + [dict(kind=kind, ref=ref, arr=arr)])

    rec([])
    return out


def base_kind(kind: str) -> str:
    return {"rstruct": "struct", "rmessage": "message"}.get(kind, kind)


def name_of(i: int, d: Dict[str, Any]) -> str:
    return {"alias": "AL", "struct": "ST", "message": "MS", "signal": "SG", "rstruct": "RS", "rmessage": "RM"}[d["kind"]] + str(i)


def resolvable(defs: List[Dict[str, Any]], placement: Tuple[int, ...]) -> bool:
    """placement[i] = 0 (imported lib.yaml, parsed first) or 1 (root.yaml). A reference resolves when the
    target is registered before the referring definition is handled."""
    for i, d in enumerate(defs):
        j = d["ref"]
        if j is None:
            continue
        fi, fj = placement[i], placement[j]
        if fj > fi:
            return False  # target lives in the importing file
        if fj == fi:
            si, sj = SEC_ORDER[base_kind(d["kind"])], SEC_ORDER[base_kind(defs[j]["kind"])]
            if sj > si:
                return False
            if sj == si and j > i:
                return False
    return True


def build(defs: List[Dict[str, Any]], placement: Tuple[int, ...]) -> defx.Program:
    files = {0: {"aliases": {}, "struct_defs": {}, "message_defs": {}}, 1: {"aliases": {}, "struct_defs": {}, "message_defs": {}}}
    names = [name_of(i, d) for i, d in enumerate(defs)]
    for i, d in enumerate(defs):
        f = files[placement[i]]
        tname = "int32" if d["ref"] is None else names[d["ref"]]
        if d["kind"] == "alias":
            f["aliases"][names[i]] = tname
        elif d["kind"] == "signal":
            f["message_defs"][names[i]] = {"id": 4000 + i, "fields": None}
        elif d["kind"] in ("struct", "message"):
            fields = {"x": "int16", "r": f"{tname}[3]" if d["arr"] else tname}
            if d["kind"] == "struct":
                f["struct_defs"][names[i]] = {"fields": fields}
            else:
                f["message_defs"][names[i]] = {"id": 4000 + i, "fields": fields}
        elif d["kind"] == "rstruct":
            f["struct_defs"][names[i]] = {"fields": tname}
        elif d["kind"] == "rmessage":
            f["message_defs"][names[i]] = {"id": 4000 + i, "fields": tname}
    out = {}
    uses_lib = any(p == 0 for p in placement)
    root = {k: v for k, v in files[1].items() if v}
    if uses_lib:
        root = {"imports": ["lib.yaml"], **root}
        out["lib.yaml"] = {k: v for k, v in files[0].items() if v}
    if not root:
        root = {"constants": {"EMPTY_ROOT": 1}}
    elif list(root) == ["imports"]:
        root["constants"] = {"ROOT_MARK": 1}
    out["root.yaml"] = root
    return defx.Program(out)


def features(defs: List[Dict[str, Any]], placement=None) -> List[str]:
    """structural features used to fingerprint failures"""
    fs = set()
    for i, d in enumerate(defs):
        j = d["ref"]
        if j is None:
            continue
        tk = base_kind(defs[j]["kind"])
        k = base_kind(d["kind"])
        if d["kind"] == "alias" and tk in ("struct", "message"):
            fs.add("alias-of-struct")
        if d["kind"] == "alias" and tk == "alias" and "alias-of-struct" in features(defs[:j + 1]):
            fs.add("alias-of-struct")
        if k == "struct" and tk == "message":
            fs.add("struct-uses-message")
        if k in ("struct", "message") and tk == "alias" and "alias-of-struct" in features(defs[:j + 1]):
            fs.add("field-via-alias-of-struct")
    return sorted(fs)


EXTRA_PROGRAMS: Dict[str, Dict[str, Any]] = {
    "constants-and-expressions": {"root.yaml": {"constants": {"N": 3, "F": 2.5, "M2": "N * 2 + 1", "NEG": -4, "HEXV": "0x10", "EXPR": "(N + M2) * 2"},
                                                "struct_defs": {"ST": {"fields": {"a": "int32[N]", "b": "double[M2]", "c": "char[EXPR]", "d": "uint8[N*2]"}}},
                                                "message_defs": {"MS": {"id": 4100, "fields": {"s": "ST[N]", "t": "int16[2 * N]"}}}}},
    "overlapping-constant-names": {"root.yaml": {"imports": ["k.yaml"], "constants": {"TOTAL": "CHANS * CHANS_PER_BANK", "REV": "CHANS_PER_BANK * CHANS", "SUM": "N + N2 + N10",
                                                                                   "MIX": "N2 - N", "AREA": "W * W_H + W"},
                                                 "struct_defs": {"ST": {"fields": {"a": "int16[TOTAL]", "b": "uint8[SUM]", "c": "char[N10 - N]"}}},
                                                 "message_defs": {"MS": {"id": 4109, "fields": {"s": "ST", "d": "double[MIX]"}}}},
                                   "k.yaml": {"constants": {"CHANS": 4, "CHANS_PER_BANK": 8, "N": 3, "N2": 7, "N10": 11, "W": 2, "W_H": 5}}},
    "string-constants": {"root.yaml": {"string_constants": {"GREETING": "hello world", "PATHLIKE": "a/b_c-d.e"}, "message_defs": {"MS": {"id": 4101, "fields": {"a": "int32"}}}}},
    # punctuation inside string constants: apostrophes, percent signs, brackets, separators
    "string-constants-with-punctuation": {"root.yaml": {"string_constants": {"READY_TEXT": "it's ready", "BOTH": "don't say 'no'", "FMT": "%d of %s (100%)", "SEP": "a, b; c & d | e",
                                                                             "URLISH": "tcp://host:7111/?x=1#frag", "BRACKETS": "[a]{b}<c>"},
                                                        "message_defs": {"MS": {"id": 4123, "fields": {"a": "int32"}}}}},
    # the project's root file lives in its own directory and imports shared definitions from a sibling directory
    "import-from-a-sibling-directory": {"root.yaml": {"imports": ["../shared/base.yaml", "local.yaml"], "message_defs": {"MS": {"id": 4124, "fields": {"p": "SH_POSE", "q": "SH_DEEP", "l": "LOC"}}}},
                                        "../shared/base.yaml": {"imports": ["more/deep.yaml"], "struct_defs": {"SH_POSE": {"fields": {"q": "double[4]"}}},
                                                                "message_defs": {"SH_CMD": {"id": 4125, "fields": {"p": "SH_POSE"}}}},
                                        "../shared/more/deep.yaml": {"struct_defs": {"SH_DEEP": {"fields": {"v": "int32[2]"}}}},
                                        "local.yaml": {"imports": ["../shared/base.yaml"], "struct_defs": {"LOC": {"fields": {"p": "SH_POSE"}}}}},
    "reserved-ids": {"root.yaml": {"message_defs": {"_RESERVED_": {"id": [4200, "4202 - 4204", "4210 to 4211"]}, "MS": {"id": 4201, "fields": {"a": "int8"}}}}},
    "reserved-in-two-files": {"root.yaml": {"imports": ["lib.yaml"], "message_defs": {"_RESERVED_": {"id": [4300, "4302 - 4303", "4330 - 4331", 4340, "4350 to 4352", "4360 - 4360"]},
                                                                                  "MS": {"id": 4301, "fields": {"a": "int8"}}}},
                              "lib.yaml": {"message_defs": {"_RESERVED_": {"id": ["4310 to 4312", "4370 - 4372", 4380, "4390 to 4391", "4395 - 4396"]}, "LM": {"id": 4320, "fields": None}}}},
    "repeated-import-other-dir": {"root.yaml": {"imports": ["sub/types.yaml", "a.yaml", "sub/types.yaml", "b.yaml"], "message_defs": {"MS": {"id": 4110, "fields": {"t": "TT", "x": "XA", "y": "YB"}}}},
                                  "sub/types.yaml": {"struct_defs": {"TT": {"fields": {"v": "int32"}}}}, "a.yaml": {"imports": ["sub/types.yaml"], "struct_defs": {"XA": {"fields": {"t": "TT"}}}},
                                  "b.yaml": {"struct_defs": {"YB": {"fields": {"w": "double"}}}}},
    "ids-not-in-definition-order": {"root.yaml": {"message_defs": {"LATE": {"id": 4190, "fields": {"a": "int32", "b": "float"}}, "MID_MSG": {"id": 4150, "fields": {"l": "LATE", "n": "int16"}},
                                                                   "EARLY": {"id": 4120, "fields": {"m": "MID_MSG", "ls": "LATE[2]"}}}}},
    "module-and-host-ids": {"root.yaml": {"host_ids": {"LAB_PC": 12, "RIG": 300}, "module_ids": {"PRODUCER": 10, "CONSUMER": 99, "EXTRA": 200},
                                          "message_defs": {"MS": {"id": 4102, "fields": None}}}},
    "all-native-types": {"root.yaml": {"message_defs": {"MS": {"id": 4103, "fields": {f"f{i}": t for i, t in enumerate(defx.NATIVE_NAMES)}}},
                                       "struct_defs": {"ST": {"fields": {f"a{i}": f"{t}[2]" for i, t in enumerate(defx.NATIVE_NAMES)}}}}},
    # arrays whose length is (or evaluates to) exactly one, of every native type, of a struct and of a message
    "length-one-arrays": {"root.yaml": {"constants": {"N_CHAN": 6, "N_MASK": "(N_CHAN + 7) // 8", "ONE": 1},
                                        "struct_defs": {"P1": {"fields": {"v": "int16"}},
                                                        "ST1": {"fields": {**{f"a{i}": f"{t}[1]" for i, t in enumerate(defx.NATIVE_NAMES)}, "p": "P1[1]"}}},
                                        "message_defs": {"IN1": {"id": 4111, "fields": {"a": "int32"}},
                                                         "MS1": {"id": 4112, "fields": {**{f"m{i}": f"{t}[N_MASK]" for i, t in enumerate(defx.NATIVE_NAMES)},
                                                                                        "s": "ST1[ONE]", "k": "IN1[1]"}}}}},
    # lengths given by expressions whose value is a float with an integral value (true division)
    "float-valued-lengths": {"root.yaml": {"constants": {"N_SAMPLES": 16, "N_HALF": "N_SAMPLES / 2", "N_Q": "N_SAMPLES / 4.0"},
                                           "struct_defs": {"FV": {"fields": {"a": "int16[N_HALF]", "b": "double[N_SAMPLES / 8]"}}},
                                           "message_defs": {"FM": {"id": 4113, "fields": {"v": "FV[N_Q]", "c": "char[N_SAMPLES / 2]", "d": "int32[N_HALF]"}}}}},
    # very small and very large float constants (written in positional notation) that other expressions refer to
    "small-and-large-floats": {"root.yaml": {"constants": {"TICK_S": "0.00005", "FRAME_S": "TICK_S * 400", "N_TICKS": 20000, "SPAN_S": "N_TICKS * TICK_S", "EPS": "0.000000125",
                                                           "EPS2": "EPS + EPS", "BIG": "12000000000000000.0", "BIG_HALF": "BIG / 2", "N_BINS": "SPAN_S * 8"},
                                             "message_defs": {"SF": {"id": 4114, "fields": {"a": "double[N_BINS]", "b": "int16[FRAME_S * 100]"}}}}},
    # files of one name in different directories (one per device, each called defs.yaml; a project file that happens to carry the
    # name of a core file)
    "same-file-name-in-two-directories": {"root.yaml": {"imports": ["arm/defs.yaml", "hand/defs.yaml", "data_logger.yaml"],
                                                        "message_defs": {"MS": {"id": 4115, "fields": {"a": "ARM_POSE", "h": "HAND_POSE", "n": "LOG_NOTE"}}}},
                                          "arm/defs.yaml": {"struct_defs": {"ARM_POSE": {"fields": {"q": "double[4]"}}}, "message_defs": {"ARM_CMD": {"id": 4116, "fields": {"p": "ARM_POSE"}}}},
                                          "hand/defs.yaml": {"struct_defs": {"HAND_POSE": {"fields": {"f": "float[2]"}}}, "message_defs": {"HAND_CMD": {"id": 4117, "fields": {"p": "HAND_POSE"}}}},
                                          "data_logger.yaml": {"struct_defs": {"LOG_NOTE": {"fields": {"t": "char[8]"}}}, "message_defs": {"LOG_MARK": {"id": 4118, "fields": None}}}},
    # one expression that mentions many constants (a sum over a dozen channel counts), also as an array length
    "expression-with-many-constants": {"root.yaml": {"constants": {**{f"N_CH{i}": i + 1 for i in range(14)}, "N_TOTAL": " + ".join(f"N_CH{i}" for i in range(14)),
                                                                   "N_ELEVEN": " + ".join(f"N_CH{i}" for i in range(11)), "N_TWICE": "N_TOTAL * 2"},
                                                     "message_defs": {"MC": {"id": 4119, "fields": {"a": "int16[N_TOTAL]", "b": "char[" + " + ".join(f"N_CH{i}" for i in range(12)) + "]"}}}}},
    # sections written out but left empty (`name: null`, as in the README's template), in the root file and in an imported one
    "explicit-null-sections": {"root.yaml": "imports:\n  - lib/types.yaml\nconstants: null\nstring_constants: null\naliases: null\nhost_ids: null\nmodule_ids: null\nstruct_defs: null\n"
                                            "message_defs:\n  NS_MSG:\n    id: 4121\n    fields:\n      t: NS_T\n      n: int32[NS_N]\n",
                               "lib/types.yaml": "imports: null\nconstants:\n  NS_N: 3\nstring_constants: null\naliases: null\nhost_ids: null\nmodule_ids: null\n"
                                                 "struct_defs:\n  NS_T:\n    fields:\n      a: int32\nmessage_defs: null\n"},
    # a long chain of aliases (each names the one before), spanning an imported and the importing file
    "long-alias-chain": {"root.yaml": {"imports": ["base_types.yaml"], "aliases": {f"LA{i}": f"LA{i - 1}" for i in range(8, 15)},
                                       "message_defs": {"LAM": {"id": 4122, "fields": {"a": "LA14", "b": "LA7[2]", "c": "LA1", "d": "LA11[3]"}}}},
                         "base_types.yaml": {"aliases": {"LA0": "uint16", **{f"LA{i}": f"LA{i - 1}" for i in range(1, 8)}}}},
    "nested-depth": {"root.yaml": {"struct_defs": {"L1": {"fields": {"a": "int32"}}, "L2": {"fields": {"l": "L1[2]", "b": "int32"}}, "L3": {"fields": {"l": "L2[2]", "c": "int32"}}},
                                   "message_defs": {"MS": {"id": 4104, "fields": {"l": "L3[2]", "m": "L1"}}}}},
    "imports-chain": {"root.yaml": {"imports": ["a.yaml"], "message_defs": {"MS": {"id": 4105, "fields": {"s": "SB", "t": "ALB"}}}},
                      "a.yaml": {"imports": ["sub/b.yaml"], "struct_defs": {"SA": {"fields": {"b": "SB"}}}},
                      "sub/b.yaml": {"aliases": {"ALB": "uint16"}, "struct_defs": {"SB": {"fields": {"v": "ALB[4]"}}}}},
    "aliases-of-core-types": {"root.yaml": {"aliases": {"MY_ID": "MODULE_ID", "MY_HDR": "RTMA_MSG_HEADER"},
                                            "message_defs": {"MS": {"id": 4106, "fields": {"who": "MY_ID", "hdr": "RTMA_MSG_HEADER", "h2": "MY_HDR", "t": "MSG_TYPE[2]"}}}}},
    "message-as-field": {"root.yaml": {"imports": ["m.yaml"], "message_defs": {"OUTER": {"id": 4107, "fields": {"inner": "INNER", "many": "INNER[2]"}}}},
                         "m.yaml": {"message_defs": {"INNER": {"id": 4108, "fields": {"a": "int32", "b": "float"}}}}},
}


# constant values computed independently of the compiler (name -> value)
EXTRA_CONSTANTS = {
    "overlapping-constant-names": {"TOTAL": 32, "REV": 32, "SUM": 21, "MIX": 4, "AREA": 12, "CHANS": 4, "N10": 11},
    "constants-and-expressions": {"N": 3, "F": 2.5, "M2": 7, "NEG": -4, "HEXV": 16, "EXPR": 20},
    "expression-with-many-constants": {"N_TOTAL": 105, "N_ELEVEN": 66, "N_TWICE": 210},
    "small-and-large-floats": {"TICK_S": 0.00005, "FRAME_S": 0.00005 * 400, "SPAN_S": 20000 * 0.00005, "EPS2": 0.000000125 + 0.000000125, "BIG_HALF": 12000000000000000.0 / 2, "N_BINS": 20000 * 0.00005 * 8},
}
EXTRA_SIZES = {"overlapping-constant-names": {"ST": 2 * 32 + 21 + 8 + 1, "MS": 2 * 32 + 21 + 8 + 1 + 2 + 4 * 8}}
EXTRA_FEATURES = {"aliases-of-core-types": ["alias-of-struct"], "message-as-field": ["message-as-field"]}


def _error_class(p) -> str:
    exc = p.get("exc", "")
    if p["kind"] == "c-header":
        return "unknown-type" if "unknown type name" in exc else "other"
    if p["kind"] == "matlab":
        return "undefined-field" if "reference to undefined field" in exc else "other"
    if p["kind"].startswith("js") and "Cannot read properties of undefined" in exc:
        return "TypeError-undefined"
    return exc.split(":")[0][:40]


def check_program(prog: defx.Program, d: str, core_on: bool, extra: str = "") -> List[Dict[str, Any]]:
    from pyrtma.parser import ParserError

    problems: List[Dict[str, Any]] = []
    try:
        paths = defx.compile_program(prog, d, name="gen", import_coredefs=core_on)
    except ParserError as e:
        return [{"kind": "compile-ParserError", "exc": f"{type(e).__name__}: {str(e)[:160]}"}]
    except BaseException as e:
        if isinstance(e, (KeyboardInterrupt, core.HarnessError)):
            raise
        return [{"kind": "compile-internal-error", "exc": f"{type(e).__name__}: {str(e)[:160]}"}]
    # python
    try:
        py = defx.sig_python(paths["python"])
        for name, dd in py["defs"].items():
            if dd["msg"]:
                reg = py["registry"].get(name)
                if not reg or reg[0] != name or reg[1] != dd["recorded_size"]:
                    problems.append({"kind": "python-registry", "message": name, "got": reg, "recorded_size": dd["recorded_size"]})
            if dd["size"] != dd["recorded_size"]:
                problems.append({"kind": "python-size", "name": name, "ctypes": dd["size"], "recorded": dd["recorded_size"]})
        for cname, want in EXTRA_CONSTANTS.get(extra, {}).items():
            if py["names"].get(cname) != want:
                problems.append({"kind": "constant-value", "name": cname, "got": py["names"].get(cname), "want": want})
    except BaseException as e:
        if isinstance(e, (KeyboardInterrupt, core.HarnessError)):
            raise
        problems.append({"kind": "python-import", "exc": f"{type(e).__name__}: {str(e)[:160]}"})
    # C
    pre = ["-include", defx.core_header(os.path.dirname(d.rstrip("/")) if False else d)] if core_on else []
    rc, err = defx.gcc(["-std=c11", "-fsyntax-only", "-x", "c"] + pre + [paths["c_lang"]], d)
    if rc != 0:
        first = next((l for l in err.splitlines() if "error" in l), err[:200])
        problems.append({"kind": "c-header", "exc": first[-200:]})
    # MATLAB
    ml = defx.run_matlab(paths["matlab"])
    if ml["error"] and not (not core_on and "RTMA_MSG_HEADER" in ml["error"]):
        problems.append({"kind": "matlab", "exc": ml["error"][:200]})
    return problems, paths["javascript"]


def js_problems(res: Dict[str, Any]) -> List[Dict[str, Any]]:
    out = []
    if res.get("error"):
        return [{"kind": "js-import", "exc": res["error"][:200]}]
    for sec in ("MDF", "SDF"):
        for name, e in res[sec].items():
            if e["error"]:
                out.append({"kind": "js-factory", "name": name, "exc": e["error"][:160]})
                continue
            if e["fresh"] is False:
                out.append({"kind": "js-not-fresh", "name": name})

            def walk(s):
                if s["k"] == "arr":
                    if s.get("distinct") is False:
                        return True
                    return walk(s["el"]) if s["el"] else False
                if s["k"] == "obj":
                    return any(walk(x) for _, x in s["fields"])
                return False

            if e["shape"] and walk(e["shape"]):
                out.append({"kind": "js-shared-array-elements", "name": name})
    return out


def run_chunk(items) -> List[Dict[str, Any]]:
    """items: list of (case_id, program-json, core_on). All JS modules of the chunk share one node process."""
    out = []
    base = core.scratch_dir("c15")
    try:
        jsfiles = {}
        for n, (cid, files, core_on) in enumerate(items):
            d = os.path.join(base, f"p{n}")
            os.makedirs(d)
            prog = defx.Program(files)
            r = check_program(prog, d, core_on, extra=cid[1] if isinstance(cid, tuple) else "")
            if isinstance(r, tuple):
                probs, js = r
                jsfiles[cid] = js
            else:
                probs = r
            out.append({"id": cid, "problems": probs})
        if jsfiles:
            res = defx.sig_js(list(jsfiles.values()), base)
            for o in out:
                if o["id"] in jsfiles:
                    o["problems"] += js_problems(res[jsfiles[o["id"]]])
    finally:
        defx._CORE_H.clear()
        core.rmtree(base)
    return out


def all_cases(tier: str):
    cases = []
    ks = (1, 2, 3) if tier == "quick" else (1, 2, 3, 4)
    for k in ks:
        for defs in programs(k):
            if k == 4 and sum(1 for d in defs if d["kind"] == "signal") > 1:
                continue
            if k == 4 and sum(1 for d in defs if d["arr"]) > 1:
                continue
            for placement in itertools.product((0, 1), repeat=k):
                if not resolvable(defs, placement):
                    continue
                if k >= 3 and tier == "quick" and sum(placement) not in (0, k) and placement not in ((0, 0, 1), (0, 1, 1)):
                    continue
                if k == 4 and placement not in ((1, 1, 1, 1), (0, 0, 1, 1), (0, 1, 1, 1), (0, 0, 0, 1)):
                    continue
                cases.append({"defs": defs, "placement": list(placement), "core": False})
    for name, files in EXTRA_PROGRAMS.items():
        cases.append({"extra": name, "core": True})
    # with the (default) core import: the shapes that interact with emission order
    for defs in programs(2):
        for placement in ((1, 1), (0, 1)):
            if resolvable(defs, placement):
                cases.append({"defs": defs, "placement": list(placement), "core": True})
    return cases


def case_files(c) -> Dict[str, Any]:
    if "extra" in c:
        return EXTRA_PROGRAMS[c["extra"]]
    return build(c["defs"], tuple(c["placement"])).files


def run(tier: str) -> int:
    chk = core.Check("C15", tier, "exploration",
                     "every program of <= 3/4 definitions (alias / struct / message / signal / reuse) x every reference to a native or "
                     "earlier definition x every resolvable root/imported placement, one program per case, compiled to all outputs "
                     "and loaded in Python (import), C (gcc), JavaScript (node), MATLAB (subset interpreter). Distinct non-trivial "
                     "= programs with at least one cross-definition reference.")
    cases = all_cases(tier)
    items = [((i, c["extra"]) if "extra" in c else i, case_files(c), c["core"]) for i, c in enumerate(cases)]
    chunks = core.chunks(core.shuffled(items, "c15"), 40)
    res = core.pmap(run_chunk, chunks)
    core.close_pool()
    nontrivial = 0
    for ch in res:
        for r in ch:
            c = cases[r["id"][0] if isinstance(r["id"], tuple) else r["id"]]
            feats = features(c["defs"]) if "defs" in c else EXTRA_FEATURES.get(c["extra"], [c["extra"]])
            if "defs" in c and any(d["ref"] is not None for d in c["defs"]):
                nontrivial += 1
            for p in r["problems"]:
                exc = p.get("exc", "")
                cls = _error_class(p)
                order_feats = [f for f in feats if f in ("alias-of-struct", "struct-uses-message", "field-via-alias-of-struct")]
                # root cause classification: a failure of the expected class on a program that contains a type emitted before
                # its target is the (known) emission-order defect; anything else keeps its own identity
                if order_feats and cls in ("NameError", "unknown-type", "undefined-field", "TypeError-undefined"):
                    key = f"C15:{p['kind']}:{cls}:emission-order"
                else:
                    key = f"C15:{p['kind']}:{cls}:{'+'.join(feats) if feats else 'plain'}"
                size = len(c.get("defs", [])) * 100 + sum(c.get("placement", [])) + (50 if c["core"] else 0)
                chk.violation(key, f"{p} in {_describe(c)}", {"module": "vf.checks.c15", "case": c, "files": defx.Program(case_files(c)).to_json()}, size=size)
    chk.sample({"definitions": _describe(cases[len(cases) // 3])})
    chk.sample({"definitions": _describe(cases[len(cases) // 2])})
    chk.sample({"extra_programs": list(EXTRA_PROGRAMS)})
    chk.assumptions += ["MATLAB is checked by a subset interpreter (definition-before-use and structure only)", "node 20, gcc -std=c11",
                        "bulk programs are compiled without the core import (3 ms instead of 150 ms); the 2-definition programs and the extras also with it"]
    return chk.finish({"evaluations": len(cases), "distinct_nontrivial": nontrivial})


def _describe(c) -> str:
    if "extra" in c:
        return f"extra program '{c['extra']}'"
    names = [name_of(i, d) for i, d in enumerate(c["defs"])]
    parts = []
    for i, d in enumerate(c["defs"]):
        t = "native" if d["ref"] is None else names[d["ref"]]
        parts.append(f"{names[i]}@{'root' if c['placement'][i] else 'lib'}({d['kind']}->{t}{'[3]' if d['arr'] else ''})")
    return " ".join(parts) + (" +core" if c["core"] else "")


def replay(case) -> int:
    c = case["case"]
    r = run_chunk([((0, c["extra"]) if "extra" in c else 0, case_files(c), c["core"])])
    print("  program:", _describe(c))
    for f, t in case.get("files", {}).get("files", {}).items():
        print(f"  --- {f}\n  " + t.replace("\n", "\n  "))
    for p in r[0]["problems"]:
        print("  PROBLEM:", p)
    print("reproduced" if r[0]["problems"] else "NOT reproduced")
    return 1 if r[0]["problems"] else 0
