"""C14 - undeliverable messages are reported, not silently lost.

Engine: lock-step execution of the real manager and the reference hub over every readiness
schedule of one delivery: publisher P; subscribers S1, S2 of the published type; logger L
(subscribed to ALL); F subscribed to FAILED_MESSAGE; A subscribed to ALL. For each published kind
(broadcast, addressed to S1, addressed to nobody present, a FAILED_MESSAGE-typed message, every
RTMA_LOG* type, a CLIENT_CLOSED caused by a departure): every subset of {S1,S2,L,F,A} reported
not writable x every subset of {S1,S2,L} dead at send time (FIN or RST; kernel knows at the header
send or only at the payload send) x every service order x both hash orders.

Oracle: (a) lock step with the reference; (b) reference-independent: every eligible subscriber
either gets the message exactly once or - unless the message is a FAILED_MESSAGE / RTMA_LOG* - a
FAILED_MESSAGE naming it with the original type/source/destination reaches every live, writable
FAILED_MESSAGE subscriber exactly once; a non-writable logger is waited for and served; a
FAILED_MESSAGE or RTMA_LOG* that cannot be delivered produces no notice at all.
"""
from __future__ import annotations

import itertools
from typing import Any, Dict, List, Tuple

from .. import core, lock, mmx, proto as P
from ..hub import ev_send

T = 1001
ALL = P.ALL_MESSAGE_TYPES
IDS = {"P": 21, "S1": 31, "S2": 32, "L": 60, "F": 90, "A": 91, "E": 45}
SUBS = {"S1": [T, 40, 44, P.MT_CLIENT_CLOSED, P.MT_FAILED_MESSAGE], "S2": [T, 40, 41, 42, 43, 44, 45, P.MT_CLIENT_CLOSED],
        "L": [ALL], "F": [P.MT_FAILED_MESSAGE], "A": [ALL], "E": [T]}
SLOTS = ["P", "S1", "S2", "L", "F", "A", "E"]


def fr(tc, mt, payload=b"", **kw):
    return P.mkframe(mt, payload, timecode=tc, **kw)


def setup_events(tc, with_e: bool, pop: str = "full") -> List[List]:
    ev = []
    for s in SLOTS:
        if s == "E" and not with_e:
            continue
        if pop == "all-only" and s in ("L", "F"):
            continue  # nobody names FAILED_MESSAGE and no logger is connected: the only observer of notices is A (subscribed to everything)
        lg = 1 if s == "L" else 0
        if pop == "v1-logger" and s == "L":
            # a logger that speaks the old handshake only: CONNECT with the logger flag, the id in the frame header
            ev += [["conn", s], ev_send(s, fr(tc, P.MT_CONNECT, P.p_connect(1, 0), src_mod_id=IDS[s])), ["settle"]]
        else:
            ev += [["conn", s], ev_send(s, fr(tc, P.MT_CONNECT_V2, P.p_connect_v2(lg, 0, 0, IDS[s], 0, s.encode()), src_mod_id=IDS[s])), ["settle"]]
        for t in SUBS.get(s, []) + ([P.MT_CLIENT_INFO] if (pop == "info" and s in ("S1", "S2")) else []):
            if pop == "all-only" and t == P.MT_FAILED_MESSAGE:
                continue
            ev.append(ev_send(s, fr(tc, P.MT_SUBSCRIBE, P.p_sub(t), src_mod_id=IDS[s])))
        ev.append(["settle"])
    return ev


def kinds(tc) -> List[Tuple[str, bytes, Dict[str, Any]]]:
    """(label, bytes P writes, description of the original message for the independent oracle)"""
    out = []
    out.append(("broadcast", fr(tc, T, b"payload!", src_mod_id=IDS["P"]), dict(mt=T, dest=0, notice=True)))
    out.append(("to-S1", fr(tc, T, b"payload!", src_mod_id=IDS["P"], dest_mod_id=IDS["S1"]), dict(mt=T, dest=IDS["S1"], notice=True)))
    out.append(("to-nobody", fr(tc, T, b"payload!", src_mod_id=IDS["P"], dest_mod_id=77), dict(mt=T, dest=77, notice=True)))
    failed_payload = P.P_FAILED_HEAD.pack(5, 0, 0, 0, 1.0) + P.mkheader(False, msg_type=7)
    out.append(("failed-typed", fr(tc, P.MT_FAILED_MESSAGE, failed_payload, src_mod_id=IDS["P"]), dict(mt=P.MT_FAILED_MESSAGE, dest=0, notice=False)))
    for lt in P.LOG_TYPES:
        out.append((f"log-{lt}", fr(tc, lt, b"\0" * P.LOG_SIZE, src_mod_id=IDS["P"]), dict(mt=lt, dest=0, notice=False)))
    return out


def scenarios(tier: str) -> List[Dict[str, Any]]:
    out = []
    envs = [(False, 0, False), (False, 1, True), (True, 0, False)] if tier == "quick" else [(False, 0, False), (False, 1, True), (True, 0, True), (True, 1, False), (False, 2, False)]
    nw_universe = ["S1", "S2", "L", "F", "A"]
    dead_universe = ["S1", "S2", "L"]
    for tc, grace, flip in envs:
        lite = tier == "quick" and tc  # the timecode header layout in the quick tier: the two main kinds, at most one deviation of each sort
        for label, data, desc in kinds(tc):
            if lite and label not in ("broadcast", "to-S1"):
                continue
            full = (tier == "thorough" or label in ("broadcast", "to-S1", "failed-typed", "log-44")) and not lite
            for k in range(len(nw_universe) + 1):
                for nw in itertools.combinations(nw_universe, k):
                    if not full and k > (1 if lite else 2):
                        continue
                    for kd in range(len(dead_universe) + 1):
                        for dead in itertools.combinations(dead_universe, kd):
                            if set(dead) & set(nw):
                                continue
                            if not full and kd > 1:
                                continue
                            for how in (("fin", "rst") if dead else ("-",)):
                                out.append(dict(tc=tc, grace=grace, flip=flip, label=label, data=data.hex(), desc=desc, nw=list(nw),
                                                dead=list(dead), how=how, departure=False))
        # the logger is not writable, the manager waits for it - and the logger goes away during that wait: the write after the wait
        # fails (both deviations in one delivery, at one subscriber)
        for label, data, desc in kinds(tc):
            if label not in ("broadcast", "to-S1", "to-nobody", "failed-typed", "log-44"):
                continue
            for extra in ((), ("S1",), ("F",), ("A",), ("S2", "F")):
                for how in ("fin", "rst"):
                    out.append(dict(tc=tc, grace=grace, flip=flip, label=label + "/logger-lost-while-waited-for", data=data.hex(), desc=desc, nw=["L"] + list(extra),
                                    dead=[], wait_dead=["L"], how=how, departure=False))
        # two frames of the publisher in one round, and a second delivery after the first one's failures (state left behind
        # by a delivery: deferred notices, removed modules, the recursion guard): lock step only
        if lite:
            continue
        b1 = fr(tc, T, b"first!!!", src_mod_id=IDS["P"])
        b2 = fr(tc, T, b"second!!", src_mod_id=IDS["P"], dest_mod_id=IDS["S1"])
        b3 = fr(tc, 44, b"\0" * P.LOG_SIZE, src_mod_id=IDS["P"])
        multi = dict(mt=T, dest=0, notice=True, multi=True)
        small_nw = [c for k in range(3) for c in itertools.combinations(nw_universe, k)]
        for nw in (small_nw if tier == "thorough" else [c for c in small_nw if len(c) <= 1 or c in (("S1", "S2"), ("S1", "F"), ("S2", "L"))]):
            for dead in ([], ["S1"], ["S2"], ["L"], ["S1", "S2"]):
                if set(dead) & set(nw):
                    continue
                for how in (("fin", "rst") if dead else ("-",)):
                    for lab, data in (("two-frames", b1 + b2), ("log-then-data", b3 + b1), ("data-then-log", b1 + b3)):
                        out.append(dict(tc=tc, grace=grace, flip=flip, label=lab, data=data.hex(), desc=multi, nw=list(nw), dead=list(dead), how=how, departure=False))
                    for nw2 in ((), ("S2",), ("F",), ("S1", "A")) if tier == "thorough" else ((), ("S2",)):
                        out.append(dict(tc=tc, grace=grace, flip=flip, label="then-second-delivery", data=b1.hex(), desc=multi, nw=list(nw), dead=list(dead), how=how,
                                        departure=False, follow=[[b2.hex(), list(nw2)], [b1.hex(), []]]))
        # the only observer of notices is subscribed to everything (nobody names FAILED_MESSAGE, no logger connected)
        for label, data, desc in kinds(tc)[:2]:
            for nw in ([], ["S1"], ["S2"], ["S1", "S2"]):
                for dead in ([], ["S1"], ["S2"]):
                    if set(dead) & set(nw) or not (nw or dead):
                        continue
                    for how in (("fin", "rst") if dead else ("-",)):
                        out.append(dict(tc=tc, grace=grace, flip=flip, label=label + "/observers-by-ALL-only", data=data.hex(), desc=dict(desc, multi=True), nw=nw, dead=dead, how=how,
                                        departure=False, pop="all-only"))
        # the logger connected with the old handshake: it is waited for like any logger
        for label, data, desc in kinds(tc)[:2]:
            for nw in (["L"], ["L", "S1"], ["L", "A"]):
                out.append(dict(tc=tc, grace=grace, flip=flip, label=label + "/v1-logger", data=data.hex(), desc=dict(desc, multi=True), nw=nw, dead=[], how="-",
                                departure=False, pop="v1-logger"))
        # a message the manager originates itself (CLIENT_INFO after P's MODULE_READY / CLIENT_SET_NAME) cannot be delivered to
        # some of its subscribers; a second one follows (what one publication leaves behind must not leak into the next)
        infos = fr(tc, P.MT_MODULE_READY, P.P_READY.pack(4321), src_mod_id=IDS["P"])
        names = fr(tc, P.MT_CLIENT_SET_NAME, P.P_NAME.pack(b"pee"), src_mod_id=IDS["P"])
        for nw in ([], ["S1"], ["A"], ["S1", "L"]):
            for dead in ([], ["S1"], ["S2"], ["S1", "S2"], ["L"]):
                if set(dead) & set(nw) or not (nw or dead):
                    continue
                for how in (("fin", "rst") if dead else ("-",)):
                    out.append(dict(tc=tc, grace=grace, flip=flip, label="client-info", data=infos.hex(), desc=dict(mt=P.MT_CLIENT_INFO, dest=0, notice=True, multi=True),
                                    nw=nw, dead=dead, how=how, departure=False, pop="info", follow=[[names.hex(), []]]))
        # a CLIENT_CLOSED caused by a departure, undeliverable to some of its subscribers
        for k in range(3):
            for nw in itertools.combinations(["S1", "S2", "F", "A", "L"], k):
                for dead in ([], ["S2"]) if "S2" not in nw else ([],):
                    out.append(dict(tc=tc, grace=grace, flip=flip, label="client-closed", data="", desc=dict(mt=P.MT_CLIENT_CLOSED, dest=0, notice=True),
                                    nw=list(nw), dead=list(dead), how="rst" if dead else "-", departure=True))
    return out


def execute(args) -> Dict[str, Any]:
    sc, order = args
    tc = sc["tc"]
    mmx.fresh_gc()
    hv = list(range(1, len(SLOTS) + 1))
    if sc["flip"]:
        hv.reverse()
    env = lock.Env(timecode=tc, fin_grace=sc["grace"], hids=dict(zip(SLOTS, hv)))
    probs: List[Dict[str, Any]] = []
    nready = 0
    try:
        for ev in setup_events(tc, sc["departure"], sc.get("pop", "full")):
            env.apply(ev)
        mark = {s: len(env.received[s]) for s in env.received}
        for d in sc["dead"]:
            env.apply([sc["how"], d])
        for d in sc.get("wait_dead", []):
            env.apply(["waitdeath", d, sc["how"]])
        if sc["departure"]:
            env.apply(ev_send("E", fr(tc, P.MT_DISCONNECT, src_mod_id=IDS["E"])))
        else:
            env.apply(ev_send("P", bytes.fromhex(sc["data"])))
        nready = env.nready()
        if order >= mmx.factorial(nready):
            return {"skipped": True, "problems": [], "nready": nready}
        env.round(order, sc["nw"])
        waits = [getattr(s, "tag", None) for s in env.w.round.logger_waits] if not env.dead else []
        first_round = {s: list(v) for s, v in env.last_round.items()}
        env.settle()
        if sc["departure"]:
            env.apply(["fin", "E"])
            env.settle()
        for data2, nw2 in sc.get("follow", []):
            if env.dead:
                break
            env.apply(ev_send("P", bytes.fromhex(data2)))
            env.round(0, nw2)
            env.settle()
        probs += [dict(p) for p in env.problems]
        if not env.dead and not sc["desc"].get("multi"):
            probs += independent_oracle(sc, env, mark, waits, first_round, order)
    finally:
        env.close()
    return {"skipped": False, "problems": probs, "nready": nready, "rounds": env.rounds}


def independent_oracle(sc, env, mark, waits, first_round, order) -> List[Dict[str, Any]]:
    """does not consult the reference hub's output"""
    probs = []
    desc = sc["desc"]
    mt, dest = desc["mt"], desc["dest"]
    if sc["departure"]:
        return probs  # covered by lock step; the independent part below speaks about P's message
    # was the publisher served before the dead connections were noticed on the read side?
    # ready list order = connection order: P first, then the dead ones in slot order
    ready = ["P"] + [s for s in SLOTS if s in sc["dead"]]
    served = mmx.nth_permutation(ready, order)
    removed_before = set(served[:served.index("P")])
    subs = [s for s in ("S1", "S2", "L", "A", "F") if (mt in SUBS[s] or ALL in SUBS[s])]
    eligible = [s for s in subs if s not in removed_before and (dest == 0 or IDS[s] == dest or s == "L")]
    got_msg = {s: sum(1 for k in env.received[s][mark[s]:] if k[0] == "fwd" and k[1] == mt) for s in SLOTS if s in env.received}
    notices = {s: [k for k in env.received[s][mark[s]:] if k[0] == "failed" and k[2] == mt] for s in env.received}
    # who should hold the notices: live, writable FAILED_MESSAGE subscribers (F, S1 by subscription; A, L via ALL)
    wdead = sc.get("wait_dead", [])
    holders = [s for s in ("F", "S1", "A", "L") if s not in sc["dead"] and s not in wdead and (s not in sc["nw"] or s == "L")]
    # a peer that has closed makes a send fail only once the kernel knows: after a FIN the first `grace` send calls
    # still succeed (into the void) - with grace >= 2 both sends of this frame do and nothing can be noticed yet
    send_fails = sc["how"] == "rst" or sc["grace"] < 2
    for s in eligible:
        if (s in sc["dead"] or s in wdead) and not send_fails:
            continue
        undeliverable = (s in sc["dead"]) or (s in wdead) or (s in sc["nw"] and s != "L")
        if not undeliverable:
            if got_msg.get(s, 0) != 1:
                probs.append({"prop": "C14", "kind": "eligible-not-served", "slot": s, "got": got_msg.get(s, 0)})
            continue
        if s in sc["nw"] and s not in wdead and got_msg.get(s, 0) != 0:
            probs.append({"prop": "C14", "kind": "skipped-but-delivered", "slot": s})
        counts = {}
        for h in holders:
            if h == s:
                continue
            counts[h] = sum(1 for k in notices.get(h, []) if k[1] == IDS[s] and k[3] == IDS["P"] and k[4] == dest)
        want = 1 if desc["notice"] else 0
        # A dead subscriber may be uncovered (and removed) by a nested delivery - e.g. of the failure notice
        # about another subscriber - before its own turn; the statement does not say whether a notice is
        # then due. Only when it is the sole deviation is the count exact; otherwise 0 or 1, consistently.
        sole = len(sc["dead"]) + len(sc["nw"]) == 1 or (s in wdead and sc["nw"] == wdead)
        for h, n in counts.items():
            ok = n == want if (sole or s not in sc["dead"] + wdead) else (n in (0, want) and len(set(counts.values())) == 1)
            if not ok:
                probs.append({"prop": "C14", "kind": "notice-count", "about": s, "holder": h, "expected": want, "got": n})
    if not desc["notice"]:
        for h, ns in notices.items():
            if ns:
                probs.append({"prop": "C14", "kind": "notice-about-notice-or-log", "holder": h, "got": [list(k) for k in ns][:3]})
    if "L" in sc["nw"] and "L" in eligible and "L" not in sc["dead"]:
        if "L" not in waits:
            probs.append({"prop": "C14", "kind": "logger-not-waited-for", "waits": waits})
    return probs


def periodic_case(args) -> Dict[str, Any]:
    """the manager's own periodic reports (TIMING_MESSAGE, MESSAGE_TRAFFIC) and a subscriber that cannot take them: each report the
    logger sees either reaches the subscriber or is answered by a notice naming subscriber and report type (no reference model)"""
    tc, sub, traffic_first, nw = args
    mmx.fresh_gc()
    w = mmx.World(timecode=tc)
    probs: List[Dict[str, Any]] = []
    try:
        def join(slot, hid, mid, logger=0, subs=()):
            c = w.client(slot, hid).connect()
            w.settle()
            c.send(fr(tc, P.MT_CONNECT_V2, P.p_connect_v2(logger, 0, 0, mid, 0, slot.encode()), src_mod_id=mid))
            w.settle()
            for t in subs:
                c.send(fr(tc, P.MT_SUBSCRIBE, P.p_sub(t), src_mod_id=mid))
            w.settle()
            return c

        L = join("L", 1, 60, logger=1, subs=(ALL,))
        F = join("F", 2, 90, subs=(P.MT_FAILED_MESSAGE,))
        S = join("S", 3, 31, subs=(sub,))
        Pp = join("P", 4, 21)
        w.tick(1.05)
        w.step()
        w.settle()
        for c in (L, F, S):
            c.drain()
        # the round under test
        if traffic_first:
            Pp.send(fr(tc, T, b"traffic", src_mod_id=21))
        w.tick(1.05)
        w.step(0, nonwritable=["S"] if nw else [])
        w.settle()
        if not w.alive:
            probs.append({"prop": "C03", "kind": "manager-died", "detail": str((w.exit or ("", ""))[1])[:200]})
        else:
            seen_l = [P.normalize(f) for f in L.drain()]
            got_s = [P.normalize(f) for f in S.drain()]
            notices = [k for k in [P.normalize(f) for f in F.drain()] if k[0] == "failed" and k[1] == 31]
            for kind, mt in (("timing", P.MT_TIMING_MESSAGE), ("traffic", P.MT_MESSAGE_TRAFFIC)):
                if sub not in (mt, ALL):
                    continue
                published = sum(1 for k in seen_l if k[0] == kind)
                delivered = sum(1 for k in got_s if k[0] == kind)
                noticed = sum(1 for k in notices if k[2] == mt)
                if published and delivered + noticed != published:
                    probs.append({"prop": "C14", "kind": "report-neither-delivered-nor-noticed", "report": kind, "published": published, "delivered": delivered,
                                  "notices_naming_the_subscriber": noticed})
    finally:
        w.stop()
    return {"problems": probs, "rounds": w.rounds}


def run_periodic_chunk(items):
    return [periodic_case(a) for a in items]


def periodic_cases(tier: str):
    return [(tc, sub, tf, nw) for tc in ((False,) if tier == "quick" else (False, True)) for sub in (P.MT_TIMING_MESSAGE, P.MT_MESSAGE_TRAFFIC, ALL)
            for tf in (False, True) for nw in (False, True)]


def run_case(sc) -> List[Dict[str, Any]]:
    res = []
    k, n = 0, 1
    while k < n:
        r = execute((sc, k))
        if r["skipped"]:
            break
        n = mmx.factorial(r["nready"])
        r["order"] = k
        res.append(r)
        k += 1
    return res


def run_chunk(scs):
    return [run_case(sc) for sc in scs]


def run(tier: str) -> int:
    chk = core.Check("C14", tier, "model_checking",
                     "every (published kind) x (non-writable subset) x (dead subset, FIN/RST, fin_grace) x (service order) x "
                     "(hash order) of one delivery, executed on the real MessageManager in lock step with the reference hub, "
                     "plus a reference-independent count of deliveries and FAILED_MESSAGE notices. A state is one executed "
                     "readiness schedule.")
    scs = scenarios(tier)
    chunks = core.chunks(core.shuffled(scs, "c14"), 16)
    res = core.pmap(run_chunk, chunks)
    pcs = periodic_cases(tier)
    pres = core.pmap(run_periodic_chunk, core.chunks(pcs, 4))
    core.close_pool()
    flat = [s for ch in chunks for s in ch]
    i = 0
    execs = rounds = 0
    nontrivial = 0
    for ch in res:
        for rs in ch:
            sc = flat[i]
            i += 1
            for r in rs:
                execs += 1
                rounds += r.get("rounds", 0)
                if sc["nw"] or sc["dead"]:
                    nontrivial += 1
                for p in r["problems"]:
                    if p["prop"] not in ("C14", "C03"):
                        chk.count(f"other_property_{p['prop']}_{p['kind']}")
                        continue
                    fk = p.get("frame", [""])[0] if isinstance(p.get("frame"), list) else ""
                    chk.violation(f"{p['prop']}:{p['kind']}:{fk}", f"{sc['label']} nw={sc['nw']} dead={sc['dead']}/{sc['how']} order={r['order']}: {p}",
                                  {"module": "vf.checks.c14", "scenario": sc, "order": r["order"]},
                                  size=len(sc["nw"]) * 10 + len(sc["dead"]) * 10 + r["order"])
    for a, r in zip(pcs, [r for ch in pres for r in ch]):
        execs += 1
        rounds += r["rounds"]
        for p in r["problems"]:
            chk.violation(f"{p['prop']}:{p['kind']}:periodic", f"periodic reports, subscriber of {a[1]} (traffic in the round: {a[2]}, not writable: {a[3]}): {p}",
                          {"module": "vf.checks.c14", "periodic": list(a)}, size=30)
    chk.count("periodic_report_cases", len(pcs))
    chk.sample({k: scs[0][k] for k in ("label", "nw", "dead", "how", "grace", "flip")})
    chk.sample({k: scs[len(scs) // 2][k] for k in ("label", "nw", "dead", "how", "grace", "flip")})
    chk.assumptions += ["virtual TCP model (vf.net)", "reference hub (vf/spec.py)"]
    return chk.finish({"states": execs, "transitions": rounds, "traces_validated_against_impl": execs,
                       "schedules_with_a_deviation": nontrivial, "scenarios": len(scs)})


def replay(case) -> int:
    if "periodic" in case:
        r = periodic_case(tuple(case["periodic"]))
        for p in r["problems"]:
            print("  PROBLEM:", p)
        print("reproduced" if r["problems"] else "NOT reproduced")
        return 1 if r["problems"] else 0
    sc, order = case["scenario"], case["order"]
    r1 = execute((sc, order))
    r2 = execute((sc, order))
    if str(r1["problems"]) != str(r2["problems"]):
        print("HARNESS-ERROR: non-deterministic replay")
        return 2
    print("  scenario:", {k: v for k, v in sc.items() if k != "data"}, "order", order)
    for p in r1["problems"]:
        print("  PROBLEM:", p)
    print("reproduced" if r1["problems"] else "NOT reproduced")
    return 1 if r1["problems"] else 0
