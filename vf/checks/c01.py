"""C01 - pub/sub routing is exact (engine: vf.hub BFS in lock step with the reference hub).
C19 shares the configuration builder (control-heavy projection of the same exploration)."""
from __future__ import annotations

from typing import Any, Dict, List, Tuple

from .. import core, hub, proto as P
from ..hub import T1, T2, T3, ALL, HubConfig

# P and Q are two instances of one module id (both allow multiple instances)
IDS = {"A": (11, 0), "B": (12, 0), "C": (13, 0), "G": (60, 1), "H": (61, 1), "M": (90, 0), "P": (70, 0), "Q": (70, 0),
       # D and E ask for a dynamic id: their trailing v1 CONNECT still carries source id 0
       "D": (0, 0), "E": (0, 0)}
SIBLINGS = "PQ"


def _ops(cfg: HubConfig, info) -> List[Tuple[str, List[List]]]:
    a = cfg.alpha
    live = {s for s, _ in info["live"]}
    present = set(info["present"])
    out = []
    for s in cfg.subscribers:
        if s not in present:
            if s in cfg.churn:
                out.append((f"connect2({s})", a.connect_v2(s, name=s.encode(), allow_multiple=int(s in SIBLINGS)))) if s != "B" else out.append(
                    (f"connect1({s})", a.connect_v1(s)))
        elif s in live:
            if s in cfg.ctl:
                for t in cfg.types:
                    out.append((f"sub({s},{t})", a.ctl(s, P.MT_SUBSCRIBE, t)))
                for t in (T1, ALL):
                    out.append((f"unsub({s},{t})", a.ctl(s, P.MT_UNSUBSCRIBE, t)))
                out.append((f"pause({s},T1)", a.ctl(s, P.MT_PAUSE_SUBSCRIPTION, T1)))
                out.append((f"resume({s},T1)", a.ctl(s, P.MT_RESUME_SUBSCRIPTION, T1)))
                if cfg.tier == "thorough":
                    out.append((f"pause({s},ALL)", a.ctl(s, P.MT_PAUSE_SUBSCRIPTION, ALL)))
                    out.append((f"resume({s},ALL)", a.ctl(s, P.MT_RESUME_SUBSCRIPTION, ALL)))
                    out.append((f"unsub({s},T2)", a.ctl(s, P.MT_UNSUBSCRIBE, T2)))
            out.append((f"pub({s},T1)", a.data(s, T1, b"\x01\x02\x03\x04")))
            if s in cfg.churn:
                out.append((f"disconnect({s})", a.disconnect(s)))
                out.append((f"close({s})", a.close(s)))
                out.append((f"reset({s})", a.reset(s)))
    for s in cfg.loggers:
        if s not in present:
            if s in cfg.churn:
                out.append((f"connect2({s})", a.connect_v2(s, name=s.encode())))
        elif s in live:
            if s in cfg.ctl:
                out.append((f"sub({s},ALL)", a.ctl(s, P.MT_SUBSCRIBE, ALL)))
                out.append((f"sub({s},T1)", a.ctl(s, P.MT_SUBSCRIBE, T1)))
                out.append((f"unsub({s},ALL)", a.ctl(s, P.MT_UNSUBSCRIBE, ALL)))
            out.append((f"pub({s},T1)", a.data(s, T1, b"gggg")))
            if s in cfg.churn:
                out.append((f"disconnect({s})", a.disconnect(s)))
    return out


def build(tier="quick", tc=False, flip=False, subscribers="AB", loggers="G", pairs="publish", nonwritable=1,
          props=("C01",), sizes=(0, 4), churn="", ctl="", pre="", types=(T1, T2, ALL), presub=False) -> HubConfig:
    slots = list(subscribers) + list(loggers) + ["M"]
    hid_vals = list(range(1, len(slots) + 1))
    if flip:
        hid_vals.reverse()
    hids = dict(zip(slots, hid_vals))
    ids = {s: IDS[s] for s in slots}
    a = hub.Alphabet(tc, ids)
    init = a.connect_v1("M") + [["settle"]]
    for t in (P.MT_CLIENT_INFO, P.MT_CLIENT_CLOSED, P.MT_FAILED_MESSAGE):
        init += a.ctl("M", P.MT_SUBSCRIBE, t)
    init += [["settle"]]
    for s in pre:
        init += (a.connect_v1(s) if s == "B" else a.connect_v2(s, name=s.encode(), allow_multiple=int(s in SIBLINGS))) + [["settle"]]
        if presub:  # everybody subscribed to T1 from the start (A also to ALL-less individual set, C via ALL)
            init += a.ctl(s, P.MT_SUBSCRIBE, ALL if s == "C" else T1) + [["settle"]]
    cfg = HubConfig(name=f"routing-{int(presub)}-{tier}-tc{int(tc)}-flip{int(flip)}-{subscribers}-{loggers}-{pairs}-{nonwritable}-{churn}-{ctl}-{pre}-{len(types)}-{max(sizes)}",
                    tc=tc, ids=ids, hids=hids, init=init, ops=_ops, probes=True, sizes=tuple(sizes), pairs=pairs,
                    nonwritable=nonwritable, props=tuple(props))
    cfg.subscribers = list(subscribers)
    cfg.loggers = list(loggers)
    cfg.churn, cfg.ctl, cfg.types = set(churn), set(ctl), tuple(types)
    cfg.tier = tier
    return cfg


def builder(**kw):
    kw["sizes"] = tuple(kw.get("sizes", (0, 4)))
    kw["props"] = tuple(kw.get("props", ("C01",)))
    if "types" in kw:
        kw["types"] = tuple(kw["types"])
    return ("vf.checks.c01", "build", tuple(sorted(kw.items())))


def configs(tier: str, props) -> List[Any]:
    if tier == "quick":
        return [
            # fixed population, every joint subscription state, probes + non-writable subsets + pairs
            builder(tier=tier, subscribers="AB", loggers="G", pre="ABG", ctl="ABG", pairs="publish", nonwritable=2,
                    props=props),
            # connects / disconnects / closes interleaved with subscriptions; timecode header, reversed hash order
            builder(tier=tier, tc=True, flip=True, subscribers="AB", loggers="", churn="AB", ctl="AB", pairs="none",
                    nonwritable=1, props=props, types=(T1, ALL), sizes=(0, 4, 65535)),
            # a subscriber closes / resets in the same round in which another client publishes (both service orders, both hash orders)
            builder(tier=tier, subscribers="ABC", loggers="", pre="ABC", churn="AB", ctl="", pairs="publish", nonwritable=0, props=props,
                    types=(T1,), presub=True, flip=False),
            builder(tier=tier, subscribers="ABC", loggers="", pre="ABC", churn="AB", ctl="", pairs="publish", nonwritable=0, props=props,
                    types=(T1,), presub=True, flip=True),
            # two instances of one module id (allow_multiple): both are subscribers in their own right, addressed messages reach both
            builder(tier=tier, subscribers="APQ", loggers="", pre="APQ", ctl="PQ", pairs="none", nonwritable=1, props=props, types=(T1, ALL)),
            # dynamically numbered modules (the library's V2-then-V1 handshake with source id 0): addressed by the id they were told
            builder(tier=tier, subscribers="ADE", loggers="", pre="ADE", ctl="DE", pairs="none", nonwritable=1, props=props, types=(T1, ALL)),
        ]
    return [
        builder(tier=tier, subscribers="AB", loggers="G", pre="ABG", ctl="ABG", pairs="all", nonwritable=3, props=props,
                sizes=(0, 4, 65535)),
        builder(tier=tier, tc=True, flip=True, subscribers="AB", loggers="G", pre="GBA", ctl="ABG", pairs="all",
                nonwritable=3, props=props, sizes=(0, 4, 65535)),
        builder(tier=tier, subscribers="ABC", loggers="", pre="ABC", ctl="ABC", pairs="publish", nonwritable=2, props=props,
                types=(T1, ALL)),
        builder(tier=tier, subscribers="AB", loggers="GH", pre="ABGH", ctl="ABGH", pairs="publish", nonwritable=2,
                props=props, types=(T1, ALL)),
        builder(tier=tier, subscribers="AB", loggers="G", churn="ABG", ctl="ABG", pairs="publish", nonwritable=1,
                props=props, types=(T1, ALL)),
        builder(tier=tier, tc=True, flip=True, subscribers="AB", loggers="G", churn="ABG", ctl="ABG", pairs="none",
                nonwritable=1, props=props, types=(T1, ALL)),
        builder(tier=tier, subscribers="APQ", loggers="G", pre="APQG", ctl="APQ", churn="PQ", pairs="publish", nonwritable=2, props=props, types=(T1, ALL)),
        builder(tier=tier, tc=True, subscribers="ADE", loggers="G", pre="DAEG", ctl="ADE", pairs="publish", nonwritable=2, props=props, types=(T1, ALL)),
    ]


def stalled_case(args) -> Dict[str, Any]:
    """a subscriber is not writable for n messages in a row (each is dropped and reported), then takes data again: from then on it
    is served like everybody else - whatever n was, whether it is a subscriber by type, of everything, or a logger"""
    tc, n, how = args
    from .. import lock, mmx

    mmx.fresh_gc()
    env = lock.Env(timecode=tc, fin_grace=0, hids={"A": 1, "B": 2, "C": 3})
    ids = {"A": (11, 1 if how == "logger" else 0), "B": (12, 0), "C": (13, 0)}
    a = hub.Alphabet(tc, ids)
    probs: List[Dict[str, Any]] = []
    try:
        for s in ("A", "B", "C"):
            for ev in a.connect_v2(s, name=s.encode()) + [["settle"]]:
                env.apply(ev)
        for ev in a.ctl("A", P.MT_SUBSCRIBE, ALL if how != "type" else T1) + a.ctl("C", P.MT_SUBSCRIBE, T1) + [["settle"]]:
            env.apply(ev)
        for i in range(n):
            for ev in a.data("B", T1, b"miss" + bytes([i % 250])):
                env.apply(ev)
            env.round(0, ["A"])
            env.settle()
        for j in range(3):
            for ev in a.data("B", T1, b"then" + bytes([j]), dest_mod_id=11 if j == 1 else 0):
                env.apply(ev)
            env.settle()
        probs += [dict(p) for p in env.problems if p["prop"] in ("C01", "C03")]
        if not env.dead:
            got = sum(1 for k in env.received["A"] if k[0] == "fwd" and k[3][:4] == b"then")
            if got != 3:
                probs.append({"prop": "C01", "kind": "not-served-after-a-stall", "missed_in_a_row": n, "delivered_afterwards": got, "expected": 3})
    finally:
        env.close()
    return {"problems": probs, "rounds": env.rounds}


def run(tier: str) -> int:
    chk = core.Check("C01", tier, "model_checking",
                     "BFS to fixpoint over joint subscription states of the real MessageManager (virtual TCP) in lock "
                     "step with a reference hub; in every state the probe set (types x destinations x hosts x sizes "
                     "x header fields) is published by every live client; same-round operation pairs in both service "
                     "orders; non-writable subsets. A transition is non-trivial when it was executed on the "
                     "implementation and compared frame by frame with the reference.")
    totals: Dict[str, int] = {}
    per_cfg = {}
    for b in configs(tier, ("C01", "C03")):
        t = hub.bfs(b, chk)
        per_cfg[hub.get_cfg(b).name] = t
        for k, v in t.items():
            totals[k] = totals.get(k, 0) + v
        chk.sample({"config": hub.get_cfg(b).name, "init": hub.get_cfg(b).init[:3]})
    sargs = [(tc, n, how) for tc in (False, True) for n in ((1, 9, 10, 11, 30) if tier == "quick" else (1, 2, 9, 10, 11, 16, 30, 64, 100, 300)) for how in ("type", "all", "logger")]
    for sa, r in zip(sargs, core.pmap(stalled_case, sargs)):
        totals["transitions"] = totals.get("transitions", 0) + r["rounds"]
        for p in r["problems"]:
            chk.violation(f"{p['prop']}:{p['kind']}:stalled", f"stalled subscriber {sa}: {p}", {"module": "vf.checks.c01", "stalled": list(sa)}, size=sa[1])
    core.close_pool()
    trans = totals.get("transitions", 0) + totals.get("pair_transitions", 0) + totals.get("probes", 0) + totals.get(
        "nonwritable_probes", 0)
    chk.merge_counts(totals)
    chk.assumptions += ["virtual TCP model (vf.net) bound to the kernel by the conformance pass",
                        "reference hub of DESIGN.md appendix A", "<= 3 subscribers + 2 loggers + monitor, 3 message types"]
    return chk.finish({"states": totals.get("states", 0), "transitions": trans,
                       "traces_validated_against_impl": trans,
                       "probe_deliveries": totals.get("probe_deliveries", 0), "per_config": per_cfg})


def replay(case) -> int:
    args = tuple(case["stalled"])
    r = stalled_case(args)
    print(f"  stalled subscriber {args}")
    for p in r["problems"][:10]:
        print("  PROBLEM:", p)
    print("reproduced" if r["problems"] else "NOT reproduced")
    return 1 if r["problems"] else 0
