"""C19 - control frames are acknowledged exactly once, in order, to their sender.

Same engine as C01 (vf.hub BFS, lock step with the reference hub) with the control-heavy alphabet:
all handshake variants (CONNECT, CONNECT_V2, CONNECT_V2+CONNECT, refused ids), repeated and no-op
subscription requests, MODULE_READY, CLIENT_SET_NAME, DISCONNECT, data frames, 0-2 loggers (a
logger may itself be the sender), every same-round pair in both service orders.
The projection reported here is the ACKNOWLEDGE multiset/order on every connection."""
from __future__ import annotations

from typing import Any, Dict, List, Tuple

from .. import core, hub, proto as P
from ..hub import T1, T2, ALL, HubConfig

# R asks for A's id (refused while A is connected); X asks for an id outside the user range
# P and Q are two instances of one id (both allow multiple instances)
# J asks for logger G's id and declares itself a logger too (refused while G is connected); K is a logger that connects with CONNECT alone
IDS = {"A": (11, 0), "B": (12, 0), "C": (0, 0), "R": (11, 0), "X": (150, 0), "G": (60, 1), "H": (61, 1), "M": (90, 0), "P": (70, 0), "Q": (70, 0),
       "J": (60, 1), "K": (62, 1)}


def _ops(cfg: HubConfig, info) -> List[Tuple[str, List[List]]]:
    a = cfg.alpha
    live = {s for s, _ in info["live"]}
    present = set(info["present"])
    tc = cfg.tc
    out = []
    for s in cfg.subscribers + cfg.loggers:
        mid, lg = cfg.ids[s]
        churn = s in cfg.churn
        if s not in present:
            if not churn:
                continue
            if s == "A" and getattr(cfg, "prehs", False):
                # the TCP connection alone: requests sent before (or without) any handshake are requests like all others
                out.append((f"tcp({s})", [["conn", s]]))
            if s in ("A", "G", "H", "P", "Q", "J"):
                out.append((f"connect21({s})", a.connect_v2(s, name=s.encode(), allow_multiple=int(s in "PQ"))))
            elif s in ("B", "R", "X", "K"):
                out.append((f"connect1({s})", a.connect_v1(s)))
            else:  # C: CONNECT_V2 alone, dynamic id
                out.append((f"connect2({s})", [["conn", s], hub.ev_send(s, hub.frame(
                    tc, P.MT_CONNECT_V2, P.p_connect_v2(lg, 0, 1, mid, 77, b"cee")))]))
        elif s in live:
            if s in cfg.ctl:
                for t in (T1, ALL):
                    out.append((f"sub({s},{t})", a.ctl(s, P.MT_SUBSCRIBE, t)))
                    out.append((f"unsub({s},{t})", a.ctl(s, P.MT_UNSUBSCRIBE, t)))
                out.append((f"pause({s},T1)", a.ctl(s, P.MT_PAUSE_SUBSCRIPTION, T1)))
                out.append((f"resume({s},T1)", a.ctl(s, P.MT_RESUME_SUBSCRIPTION, T1)))
                if s in ("A", "B"):
                    out.append((f"unsub({s},T2)", a.ctl(s, P.MT_UNSUBSCRIBE, T2)))  # never subscribed
                    # requests (changing nothing) whose header carries destination fields no data frame could be routed with: a
                    # request is answered whatever its header says about a destination
                    for mt, nm in ((P.MT_UNSUBSCRIBE, "unsub"),):
                        for dm, dh in ((P.MAX_MODULES + 1, 0), (0, P.MAX_HOSTS + 1), (-7, -7)) if s == "A" else ((-1, 0),):
                            out.append((f"{nm}({s},T2;dest={dm}/{dh})", [hub.ev_send(s, hub.frame(tc, mt, P.p_sub(T2), src_mod_id=mid, dest_mod_id=dm, dest_host_id=dh))]))
                    # same pid / name as at connect time: requests that change nothing
                    out.append((f"ready({s})", [hub.ev_send(s, hub.frame(tc, P.MT_MODULE_READY, P.P_READY.pack(4000 + mid if s == "A" else 0), src_mod_id=mid))]))
                    out.append((f"setname({s})", [hub.ev_send(s, hub.frame(tc, P.MT_CLIENT_SET_NAME, P.P_NAME.pack(s.encode() if s == "A" else b""), src_mod_id=mid))]))
                    out.append((f"reconnect1({s})", [hub.ev_send(s, hub.frame(tc, P.MT_CONNECT, P.p_connect(0, 0), src_mod_id=mid))]))
                    out.append((f"reconnect2({s})", [hub.ev_send(s, hub.frame(tc, P.MT_CONNECT_V2, P.p_connect_v2(0, 0, 0, mid, 1, b"zz"), src_mod_id=mid))]))
            out.append((f"pub({s},T1)", a.data(s, T1, b"\x01\x02\x03\x04")))
            if churn and s != "C":
                out.append((f"disconnect({s})", a.disconnect(s)))
                if s in cfg.loggers:
                    # a logger that dies without a word: found on the read side, or - in a round in which an acknowledgement is
                    # copied to the loggers before its socket is looked at - on the write side
                    out.append((f"reset({s})", a.reset(s)))
                    out.append((f"close({s})", a.close(s)))
        elif churn:
            # present but not connected (refused or closed by the manager): the client goes away
            out.append((f"close({s})", a.close(s)))
            if s == "A" and getattr(cfg, "prehs", False):
                # ... or it has not said CONNECT yet: requests first, the handshake later on the same connection
                out.append((f"sub-before-connect({s},T1)", a.ctl(s, P.MT_SUBSCRIBE, T1)))
                out.append((f"unsub-before-connect({s},T2)", a.ctl(s, P.MT_UNSUBSCRIBE, T2)))
                out.append((f"handshake({s})", a.connect_v2(s, name=s.encode())[1:]))
    return out


def build(tier="quick", tc=False, flip=False, subscribers="ABR", loggers="G", pairs="all", churn="", ctl="",
          pre="", nw_ops=False, prehs=False) -> HubConfig:
    slots = list(subscribers) + list(loggers) + ["M"]
    hid_vals = list(range(1, len(slots) + 1))
    if flip:
        hid_vals.reverse()
    hids = dict(zip(slots, hid_vals))
    ids = {s: IDS[s] for s in slots}
    a = hub.Alphabet(tc, ids)
    init = a.connect_v1("M") + [["settle"]]
    for t in (P.MT_CLIENT_INFO, P.MT_CLIENT_CLOSED, P.MT_FAILED_MESSAGE, P.MT_ACKNOWLEDGE):
        init += a.ctl("M", P.MT_SUBSCRIBE, t)
    init += [["settle"]]
    for s in pre:  # connected before the exploration starts (fixes the accept order)
        init += (a.connect_v1(s) if s == "B" else a.connect_v2(s, name=s.encode(), allow_multiple=int(s in "PQ"))) + [["settle"]]
    cfg = HubConfig(name=f"acks-{tier}-tc{int(tc)}-flip{int(flip)}-{subscribers}-{loggers}-{pairs}-{churn}-{ctl}-{pre}",
                    tc=tc, ids=ids, hids=hids, init=init, ops=_ops, probes=False, pairs=pairs, nonwritable=0,
                    props=("C19", "C03"))
    cfg.subscribers = list(subscribers)
    cfg.loggers = list(loggers)
    cfg.churn = set(churn)
    cfg.ctl = set(ctl)
    cfg.tier = tier
    cfg.nw_ops = nw_ops
    cfg.prehs = prehs
    return cfg


def builder(**kw):
    return ("vf.checks.c19", "build", tuple(sorted(kw.items())))


def configs(tier: str) -> List[Any]:
    if tier == "quick":
        return [
            # handshake variants, refusals, disconnects; loggers come and go
            builder(tier=tier, subscribers="ARXC", loggers="G", churn="ARXCG", pairs="all"),
            # subscription control incl. repeats / no-ops / while subscribed to all; fixed population
            builder(tier=tier, subscribers="AB", loggers="G", pre="ABG", ctl="ABG", pairs="all"),
            # two loggers, one of them the sender, timecode header, reversed hash order
            # (pairs: a logger's close / reset in the same round as another module's control frame, both service orders)
            builder(tier=tier, subscribers="B", loggers="GH", pre="B", churn="GH", ctl="BG", pairs="all", tc=True, flip=True),
            builder(tier=tier, subscribers="B", loggers="GH", pre="BGH", churn="GH", ctl="B", pairs="all"),
            # the sender (or a logger) is reported not writable in the very round its control frame is served
            builder(tier=tier, subscribers="AB", loggers="G", pre="ABG", ctl="AB", pairs="none", nw_ops=True),
            # a second "logger" asking for the id of the connected logger (refused), a logger that connects with CONNECT alone
            builder(tier=tier, subscribers="BJ", loggers="GK", pre="BG", churn="JK", ctl="B", pairs="none"),
            # requests before the handshake (and the handshake afterwards, on the same connection)
            builder(tier=tier, subscribers="AB", loggers="G", pre="BG", churn="A", ctl="AB", pairs="none", prehs=True),
            # two instances of one module id: the acknowledgement goes to the sending connection only
            builder(tier=tier, subscribers="PQ", loggers="G", pre="PQG", ctl="PQ", churn="Q", pairs="none"),
        ]
    return [
        builder(tier=tier, subscribers="ARXC", loggers="GH", churn="ARXCGH", pairs="all"),
        builder(tier=tier, subscribers="ARXC", loggers="G", churn="ARXCG", pairs="all", tc=True, flip=True),
        builder(tier=tier, subscribers="AB", loggers="GH", pre="ABGH", ctl="ABGH", pairs="all"),
        builder(tier=tier, subscribers="AB", loggers="G", pre="GBA", ctl="ABG", pairs="all", tc=True, flip=True),
        builder(tier=tier, subscribers="AB", loggers="GH", pre="B", churn="AGH", ctl="ABG", pairs="all", flip=True),
        builder(tier=tier, subscribers="AB", loggers="GH", pre="ABGH", ctl="ABG", pairs="none", nw_ops=True, tc=True),
        builder(tier=tier, subscribers="APQ", loggers="G", pre="APQG", ctl="APQ", churn="PQ", pairs="all"),
        builder(tier=tier, subscribers="AB", loggers="GH", pre="BG", churn="AH", ctl="AB", pairs="all", prehs=True, tc=True),
    ]


def many_requests_case(args) -> Dict[str, Any]:
    """one module issues hundreds of subscription requests (more distinct types than any table in the core definitions has
    slots for), pauses / resumes / repeats some of them: every single request is acknowledged, every acknowledgement copied"""
    tc, n, logger_first = args
    from .. import lock, mmx

    mmx.fresh_gc()
    env = lock.Env(timecode=tc, fin_grace=0, hids={"A": 1, "G": 2})
    a = hub.Alphabet(tc, {"A": (11, 0), "G": (60, 1)})
    probs: List[Dict[str, Any]] = []
    sent = 0
    try:
        for ev in (a.connect_v2("G", name=b"G") + [["settle"]] + a.connect_v2("A", name=b"A") + [["settle"]]) if logger_first else \
                (a.connect_v2("A", name=b"A") + [["settle"]] + a.connect_v2("G", name=b"G") + [["settle"]]):
            env.apply(ev)
        base_a = sum(1 for k in env.received["A"] if k[0] == "ack")
        base_g = sum(1 for k in env.received["G"] if k[0] == "ack" and k[1] == 11)
        reqs = [(P.MT_SUBSCRIBE, 3000 + i) for i in range(n)]
        reqs += [(P.MT_PAUSE_SUBSCRIPTION, 3000), (P.MT_SUBSCRIBE, 9000), (P.MT_RESUME_SUBSCRIPTION, 3000), (P.MT_SUBSCRIBE, 3001), (P.MT_SUBSCRIBE, 9001),
                 (P.MT_UNSUBSCRIBE, 3002), (P.MT_SUBSCRIBE, 3002), (P.MT_PAUSE_SUBSCRIPTION, 3003), (P.MT_RESUME_SUBSCRIPTION, 3003), (P.MT_RESUME_SUBSCRIPTION, 9500)]
        # requests that name ids at and beyond the edges of the type table (0 is a real type id): answered like all others
        for t in (0, 9999, P.MAX_MESSAGE_TYPES, 12345, -1, -5, -2 ** 31, 2 ** 31 - 2):
            for mt in (P.MT_SUBSCRIBE, P.MT_PAUSE_SUBSCRIPTION, P.MT_RESUME_SUBSCRIPTION, P.MT_UNSUBSCRIBE):
                reqs.append((mt, t))
        for i, (mt, t) in enumerate(reqs):
            for ev in a.ctl("A", mt, t):
                env.apply(ev)
            sent += 1
            if i % 40 == 39 or i >= n:
                env.settle()
        env.settle()
        # every subscription is in force: one frame of the first, the last and the late types reaches A
        for t in (3000, 3000 + n - 1, 9000, 9001, 3002, 3003):
            for ev in a.data("G", t, b"chk!"):
                env.apply(ev)
        env.settle()
        probs += [dict(p) for p in env.problems if p["prop"] in ("C19", "C03", "C01")]
        if not env.dead:
            got_a = sum(1 for k in env.received["A"] if k[0] == "ack") - base_a
            got_g = sum(1 for k in env.received["G"] if k[0] == "ack" and k[1] == 11) - base_g
            if got_a != sent or got_g != sent:
                probs.append({"prop": "C19", "kind": "ack-count", "requests": sent, "acks_at_sender": got_a, "copies_at_logger": got_g})
    finally:
        env.close()
    return {"problems": probs, "rounds": env.rounds, "requests": sent}


def after_drop_case(args) -> Dict[str, Any]:
    """a module could not take a message once (not writable in that round: the message was dropped and reported); afterwards, writable
    again, it issues every kind of request - each is acknowledged as if nothing had happened (also after a second drop, and after a
    successful delivery in between)"""
    tc, ndrops, deliver_between, logger_first = args
    from .. import lock, mmx

    mmx.fresh_gc()
    env = lock.Env(timecode=tc, fin_grace=0, hids={"A": 1, "B": 2, "G": 3})
    a = hub.Alphabet(tc, {"A": (11, 0), "B": (12, 0), "G": (60, 1)})
    probs: List[Dict[str, Any]] = []
    sent = 0
    try:
        order = ("G", "A", "B") if logger_first else ("A", "B", "G")
        for s in order:
            for ev in a.connect_v2(s, name=s.encode()) + [["settle"]]:
                env.apply(ev)
        for ev in a.ctl("A", P.MT_SUBSCRIBE, T1) + [["settle"]]:
            env.apply(ev)
        base = sum(1 for k in env.received["A"] if k[0] == "ack")
        for i in range(ndrops):
            for ev in a.data("B", T1, b"drop" + bytes([i])):
                env.apply(ev)
            env.round(0, ["A"])
            env.settle()
        if deliver_between:
            for ev in a.data("B", T2, b"none"):  # nobody subscribes to T2: nothing is written to A
                env.apply(ev)
            env.settle()
        reqs = [(P.MT_SUBSCRIBE, T2), (P.MT_PAUSE_SUBSCRIPTION, T1), (P.MT_RESUME_SUBSCRIPTION, T1), (P.MT_UNSUBSCRIBE, T2), (P.MT_SUBSCRIBE, T1)]
        for mt, t in reqs:
            for ev in a.ctl("A", mt, t):
                env.apply(ev)
            sent += 1
            env.settle()
        for ev in a.data("B", T1, b"then"):
            env.apply(ev)
        env.settle()
        probs += [dict(p) for p in env.problems if p["prop"] in ("C19", "C03")]
        if not env.dead:
            got = sum(1 for k in env.received["A"] if k[0] == "ack") - base
            if got != sent:
                probs.append({"prop": "C19", "kind": "ack-count-after-drop", "requests": sent, "acks_at_sender": got})
    finally:
        env.close()
    return {"problems": probs, "rounds": env.rounds, "requests": sent}


REFUSED = [("id-101", ("v2", 101, 0, b"nn")), ("id-150", ("v2", 150, 0, b"nn")), ("id-32767", ("v2", 32767, 0, b"nn")), ("id--1", ("v2", -1, 0, b"nn")),
           ("id--3", ("v2", -3, 1, b"nn")), ("id--32768", ("v2", -32768, 0, b"")), ("taken-id", ("v2", 11, 0, b"nn")), ("taken-id-shared-asked", ("v2", 11, 1, b"nn")),
           ("taken-name", ("v2", 31, 0, b"A")), ("taken-id-v1", ("v1", 11, 0, b"")), ("manager-name", ("v2", 31, 0, b"message_manager"))]


def refused_case(args) -> Dict[str, Any]:
    """connection requests the manager refuses (ids outside 1..100 on either side, an id or a name that is taken): no acknowledgement
    to the requester, no copy to the logger - alone, after requests the connection sent before, and followed by a CONNECT"""
    tc, label, before, follow = args[:4]
    props = args[4] if len(args) > 4 else ("C19", "C03", "C06")
    from .. import lock, mmx

    req = dict(REFUSED)[label]
    mmx.fresh_gc()
    env = lock.Env(timecode=tc, fin_grace=1, hids={"A": 1, "N": 2, "G": 3})
    a = hub.Alphabet(tc, {"A": (11, 0), "G": (60, 1), "N": (req[1], 0)})
    probs: List[Dict[str, Any]] = []
    try:
        for s in ("G", "A"):
            for ev in a.connect_v2(s, name=s.encode()) + [["settle"]]:
                env.apply(ev)
        env.apply(["conn", "N"])
        env.settle()
        for k in range(before):
            env.apply(hub.ev_send("N", hub.frame(tc, P.MT_SUBSCRIBE, P.p_sub(T1 + k), src_mod_id=0)))
            env.settle()
        acks_before = sum(1 for k in env.received["N"] if k[0] == "ack")
        copies_before = sum(1 for k in env.received["G"] if k[0] == "ack")
        kind, mid, am, name = req
        if kind == "v2":
            fr = hub.frame(tc, P.MT_CONNECT_V2, P.p_connect_v2(0, 0, am, mid, 999, name), src_mod_id=mid)
        else:
            fr = hub.frame(tc, P.MT_CONNECT, P.p_connect(0, 0), src_mod_id=mid)
        if follow:
            fr += hub.frame(tc, P.MT_CONNECT, P.p_connect(0, 0), src_mod_id=mid)
        env.apply(hub.ev_send("N", fr))
        env.settle()
        probs += [dict(p) for p in env.problems if p["prop"] in props]
        if not env.dead and "C19" in props:
            got = sum(1 for k in env.received["N"] if k[0] == "ack") - acks_before
            cop = sum(1 for k in env.received["G"] if k[0] == "ack") - copies_before
            if got or cop:
                probs.append({"prop": "C19", "kind": "refused-request-acknowledged", "request": label, "acks_at_requester": got, "copies_at_logger": cop})
    finally:
        env.close()
    return {"problems": probs, "rounds": env.rounds}


def run(tier: str) -> int:
    chk = core.Check("C19", tier, "model_checking",
                     "BFS to fixpoint over connection/subscription states of the real MessageManager with the "
                     "control-heavy alphabet; after every round the ACKNOWLEDGE frames on every connection (sender and "
                     "loggers) are compared with the reference hub's (one per acknowledged control frame, addressed to "
                     "the sender, none for data/MODULE_READY/CLIENT_SET_NAME/DISCONNECT/refused requests). Every "
                     "same-round pair of operations of two modules is run in both service orders.")
    totals: Dict[str, int] = {}
    per_cfg = {}
    for b in configs(tier):
        t = hub.bfs(b, chk)
        per_cfg[hub.get_cfg(b).name] = t
        for k, v in t.items():
            totals[k] = totals.get(k, 0) + v
        chk.sample({"config": hub.get_cfg(b).name, "ops_example": [l for l, _ in _ops(hub.get_cfg(b), {"live": [("A", 11)], "present": ["A"]})][:12]})
    margs = [(tc, n, lf) for tc in (False, True) for n in ((255, 256, 257, 300) if tier == "quick" else (64, 127, 128, 129, 255, 256, 257, 300, 1024)) for lf in (False, True)]
    for marg, r in zip(margs, core.pmap(many_requests_case, margs)):
        totals["transitions"] = totals.get("transitions", 0) + r["rounds"]
        totals["requests_of_one_module"] = totals.get("requests_of_one_module", 0) + r["requests"]
        for p in r["problems"]:
            chk.violation(f"{p['prop']}:{p['kind']}:many-requests", f"many requests {marg}: {p}", {"module": "vf.checks.c19", "many": list(marg)}, size=marg[1])
    dargs = [(tc, nd, db, lf) for tc in (False, True) for nd in (1, 2, 3) for db in (False, True) for lf in (False, True)]
    for darg, r in zip(dargs, core.pmap(after_drop_case, dargs)):
        totals["transitions"] = totals.get("transitions", 0) + r["rounds"]
        for p in r["problems"]:
            chk.violation(f"{p['prop']}:{p['kind']}:after-drop", f"requests after a dropped delivery {darg}: {p}", {"module": "vf.checks.c19", "after_drop": list(darg)}, size=10)
    rargs = [(tc, label, before, follow) for tc in (False, True) for label, _ in REFUSED for before in (0, 2) for follow in (False, True)]
    for rarg, r in zip(rargs, core.pmap(refused_case, rargs)):
        totals["transitions"] = totals.get("transitions", 0) + r["rounds"]
        totals["refused_requests"] = totals.get("refused_requests", 0) + 1
        for p in r["problems"]:
            chk.violation(f"{p['prop']}:{p['kind']}:refused-request", f"refused connection request {rarg}: {p}", {"module": "vf.checks.c19", "refused": list(rarg)}, size=5)
    core.close_pool()
    trans = totals.get("transitions", 0) + totals.get("pair_transitions", 0)
    chk.merge_counts(totals)
    chk.assumptions += ["virtual TCP model (vf.net)", "reference hub (vf/spec.py)", "<= 3 modules + 2 loggers + monitor"]
    return chk.finish({"states": totals.get("states", 0), "transitions": trans,
                       "traces_validated_against_impl": trans, "per_config": per_cfg})


def replay(case) -> int:
    if "refused" in case:
        args = tuple(case["refused"])
        r = refused_case(args)
    elif "after_drop" in case:
        args = tuple(case["after_drop"])
        r = after_drop_case(args)
    else:
        args = tuple(case["many"])
        r = many_requests_case(args)
    print(f"  case {args}")
    for p in r["problems"][:10]:
        print("  PROBLEM:", p)
    print("reproduced" if r["problems"] else "NOT reproduced")
    return 1 if r["problems"] else 0
