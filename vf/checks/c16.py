"""C16 - compilation is deterministic and the shipped core definitions are current.

Engine DEFX. (1) Every closure of the C15 program space (quick: a stratified third; thorough: all
with <= 3 definitions) plus the extra programs and a packed C04-style program is compiled twice in
SEPARATE processes - different PYTHONHASHSEED, different working directory, different source and
output directories, root file named by an absolute path in one run and by a relative path (from
the directory above the sources) in the other - to all six outputs with the real `black`: byte equality (the info file's
first comment line names the output location and is normalised). (2) The combined-YAML output is
recompiled through the command line entry point and must give the same ids, hashes, sizes,
layouts and constants as the original closure. (3) core_defs.yaml (+ data_logger.yaml,
quick_logger.yaml) compiled with the current tree must reproduce src/pyrtma/core_defs.py.
"""
from __future__ import annotations

import contextlib
import hashlib
import io
import json
import re
import os
import subprocess
import sys
from typing import Any, Dict, List, Tuple

from .. import core, defx, valx
from . import c15, c04

EXTS = {"python": ".py", "c": ".h", "js": ".js", "matlab": ".m", "info": ".txt", "combined": "_combined.yaml"}


def closures(tier: str) -> List[Dict[str, Any]]:
    out = []
    n = 0
    for c in c15.all_cases("quick"):
        n += 1
        if "extra" in c or c["core"] or tier == "thorough" or n % 18 == 0:
            out.append({"files": defx.Program(c15.case_files(c)).to_json()["files"], "kw": {"import_coredefs": c["core"]}, "label": c15._describe(c),
                        "feats": c15.features(c["defs"]) if "defs" in c else c15.EXTRA_FEATURES.get(c["extra"], [])})
    # a family of closures that share every expression TEXT but not the constant it refers to: compiled in one process after
    # one another (in a different order in each run), so that state leaking from one compilation into the next shows up
    for k in (2, 5, 3):
        files = {"root.yaml": {"imports": ["consts.yaml"], "constants": {"LEN": "BASE * 2", "LEN3": "LEN + BASE"},
                               "struct_defs": {"BLK": {"fields": {"a": "int32[LEN]", "b": "double[BASE]", "c": "char[LEN3 + 1]"}}},
                               "message_defs": {"FAM": {"id": 4400, "fields": {"blk": "BLK[BASE]", "n": "int16[LEN3]"}}}},
                 "consts.yaml": {"constants": {"BASE": k}}}
        out.append({"files": defx.Program(files).to_json()["files"], "kw": {"import_coredefs": False}, "label": f"expression family BASE={k}", "feats": [], "family": True})
    # closures whose root file carries compiler options (what the command line reads from the file is passed as kw, as main() does)
    mis = {"struct_defs": {"SO": {"fields": {"a": "int8", "b": "double", "c": "int16"}}},
           "message_defs": {"MO": {"id": 4500, "fields": {"x": "int8", "s": "SO", "y": "double", "z": "char[3]"}},
                            "MO2": {"id": 4501, "fields": {"p": "int16", "q": "int64"}}}}
    ali = {"message_defs": {"MA": {"id": 4510, "fields": {"x": "int32", "x2": "int32", "y": "double"}}}}
    for label, opts, kw, body in (
            ("VALIDATE_ALIGNMENT false in the root file, misaligned definitions", {"IMPORT_COREDEFS": "false", "VALIDATE_ALIGNMENT": "false"},
             {"import_coredefs": False, "validate_alignment": False}, mis),
            ("AUTO_PAD false in the root file, aligned definitions", {"IMPORT_COREDEFS": "false", "AUTO_PAD": "false"},
             {"import_coredefs": False, "auto_pad": False}, ali),
            ("default options, misaligned definitions (padding added)", {"IMPORT_COREDEFS": "false"}, {"import_coredefs": False}, mis),
            # what the file declares and what the compilation used differ (the command line overrides the file)
            ("VALIDATE_ALIGNMENT true declared, compiled with validation off", {"IMPORT_COREDEFS": "false", "VALIDATE_ALIGNMENT": "true"},
             {"import_coredefs": False, "validate_alignment": False}, mis),
            ("AUTO_PAD true declared, compiled with auto_pad off, aligned definitions", {"IMPORT_COREDEFS": "false", "AUTO_PAD": "true"},
             {"import_coredefs": False, "auto_pad": False}, ali),
            ("IMPORT_COREDEFS true declared and used", {"IMPORT_COREDEFS": "true"}, {"import_coredefs": True}, ali)):
        files = {"root.yaml": {"compiler_options": opts, **body}}
        out.append({"files": defx.Program(files).to_json()["files"], "kw": kw, "label": label, "feats": []})
    # field specs written with blanks inside (the hash is taken from the text as written; the combined file must reproduce it)
    spaced = {"root.yaml": "constants:\n  N_CH: 4\nstruct_defs:\n  SP:\n    fields:\n      a: int32 [N_CH]\n      b: char[ 16 ]\n      c: double [ 2 ]\n"
                           "message_defs:\n  SPM:\n    id: 4520\n    fields:\n      s: SP [2]\n      t: uint8[N_CH ]\n      u:   float\n"}
    out.append({"files": spaced, "kw": {"import_coredefs": False}, "label": "field specs with blanks inside", "feats": []})
    # large reserved blocks in several files of one closure (each within what a single block may hold; 60 + 60 + 90 ids in all)
    big = {"root.yaml": {"imports": ["rig_a.yaml", "rig_b.yaml"],
                         "message_defs": {"_RESERVED_": {"id": ["4600 - 4629", "4640 to 4669"]}, "RT": {"id": 4630, "fields": {"a": "int32"}}}},
           "rig_a.yaml": {"message_defs": {"_RESERVED_": {"id": ["4700 - 4759"]}, "RA": {"id": 4760, "fields": None}}},
           "rig_b.yaml": {"message_defs": {"_RESERVED_": {"id": ["4800 to 4889"]}, "RB": {"id": 4890, "fields": {"b": "double"}}}}}
    out.append({"files": defx.Program(big).to_json()["files"], "kw": {"import_coredefs": False}, "label": "large reserved blocks in three files", "feats": []})
    out.append({"files": defx.Program(big).to_json()["files"], "kw": {"import_coredefs": True}, "label": "large reserved blocks in three files + core", "feats": []})
    # an IMPORTED file carries compiler options of its own (a vendor's file compiled stand-alone elsewhere); the files read before
    # and after it hold definitions that need padding
    padme = lambda nm, mid: {nm: {"id": mid, "fields": {"flag": "char", "count": "int32", "t": "double", "tail": "int16"}}}
    for vopts in ({"AUTO_PAD": "false", "VALIDATE_ALIGNMENT": "false"}, {"VALIDATE_ALIGNMENT": "false"}, {"AUTO_PAD": "false"}):
        mixed = {"root.yaml": {"imports": ["early.yaml", "vendor/lib.yaml", "late.yaml"], "message_defs": padme("ROOT_SAMPLE", 4540)},
                 "early.yaml": {"message_defs": padme("EARLY_SAMPLE", 4541)},
                 "vendor/lib.yaml": {"compiler_options": vopts, "struct_defs": {"VEN": {"fields": {"a": "int32", "b": "int32"}}}},
                 "late.yaml": {"message_defs": padme("LATE_SAMPLE", 4542)}}
        out.append({"files": defx.Program(mixed).to_json()["files"], "kw": {"import_coredefs": False}, "label": f"an imported file with compiler options {sorted(vopts)}", "feats": []})
    # long string constants (a URL, a sentence, text with colons): what the combined file makes of them must read back
    longs = {"root.yaml": {"string_constants": {"DOC_URL": "see https://example.org/a/very/long/path/that/goes/on/and/on/for/more/than/eighty/characters/in/total/index.html",
                                                "LONG_PLAIN": " ".join(["word"] * 40), "COLON_TXT": " ".join(["at 12:30:00 key:value"] * 8),
                                                "SHORT_URL": "http://x.org/a:b"},
                           "message_defs": {"LS": {"id": 4530, "fields": {"a": "int32"}}}}}
    out.append({"files": defx.Program(longs).to_json()["files"], "kw": {"import_coredefs": False}, "label": "long string constants", "feats": []})
    # user metadata of several kinds, in the root file and in an imported one
    meta = {"root.yaml": {"imports": ["rig/meta.yaml"], "metadata": {"PROJECT": "reach-and-grasp", "SUBJECT_ID": 17, "GAIN": 2.5, "BLINDED": "true", "NOTES": "first session, left arm",
                                                                     "zeta": 1, "alpha": 2, "Mid": 3},
                          "message_defs": {"MM": {"id": 4550, "fields": {"a": "int32"}}}},
            "rig/meta.yaml": {"metadata": {"RIG": "B", "RIG_REV": 4, "CAL_TAG": "cal-2024-01", "OPERATOR": "nn"}, "message_defs": {"MR": {"id": 4551, "fields": None}}}}
    out.append({"files": defx.Program(meta).to_json()["files"], "kw": {"import_coredefs": False}, "label": "user metadata in two files", "feats": []})
    out.append({"files": defx.Program(meta).to_json()["files"], "kw": {"import_coredefs": True}, "label": "user metadata in two files + core", "feats": []})
    seqs = c04.sequences("quick")[:: 40]
    prog, _ = c04.batch_program(seqs, 2)
    out.append({"files": prog.to_json()["files"], "kw": {}, "label": "packed C04-style program (diamond imports)", "feats": []})
    prog, _ = c04.batch_program(seqs[:40], 1)
    out.append({"files": prog.to_json()["files"], "kw": {}, "label": "packed C04-style program (chain imports)", "feats": []})
    return out


def run_group(args) -> List[Dict[str, Any]]:
    gi, group, tier = args
    base = core.scratch_dir("c16")
    problems_all = []
    try:
        specs = []
        # (working directories that happen to be called like the package's own definition directory: a name is not a location)
        for run, (seed, cwd) in enumerate((("0", "w0/core_defs"), ("271828", "w1/nested/deeper"))):
            cases = []
            # the second run compiles the closures of the group in reverse order: history must not matter
            for k, cl in (list(enumerate(group)) if run == 0 else list(enumerate(group))[::-1]):
                cases.append({"id": k, "files": cl["files"], "src": os.path.join(base, f"run{run}", f"s{k}", "x" * run, "src"),
                              "out": os.path.join(base, f"run{run}", f"o{k}" + ("_other" * run)), "name": "gen", "kw": cl["kw"], "black": True})
            spec = {"cwd": os.path.join(base, cwd), "cases": cases, "relative": run == 1}
            if run == 1:
                # the second run builds every closure of the group into ONE directory that already holds the previous closure's outputs
                spec["shared_out"] = os.path.join(base, "run1", "shared_out")
                # ... and on another day, at another time of day
                spec["clock_shift_days"] = 3
                # ... each one right after a compilation that was refused
                spec["refused_before"] = True
            else:
                # the first run asks for one output per invocation (six compilations of the closure), the second for all at once:
                # what one back end does to the shared parser must not show in another's output
                spec["one_by_one"] = True if tier == "thorough" else "groups"
            sp = os.path.join(base, f"spec{run}.json")
            with open(sp, "w") as f:
                json.dump(spec, f)
            env = dict(os.environ, PYTHONHASHSEED=seed, PYTHONPATH=core.VERIF + os.pathsep + os.environ.get("PYTHONPATH", ""))
            r = subprocess.run([sys.executable, "-m", "vf.compile_many", sp], capture_output=True, text=True, env=env, cwd=core.VERIF)
            if r.returncode != 0:
                raise core.HarnessError("compile_many failed: " + r.stderr[-600:])
            cases.sort(key=lambda cs: cs["id"])
            specs.append((cases, json.loads(r.stdout.strip().splitlines()[-1])))
        for k, cl in enumerate(group):
            probs = []
            st0, st1 = specs[0][1][str(k)], specs[1][1][str(k)]
            # (an error text may name the file, whose directory differs between the runs by construction)
            norm = lambda t: re.sub(r"/\S+", "<path>", t) if isinstance(t, str) else t
            if norm(st0) != norm(st1):
                probs.append({"kind": "verdict-differs-between-runs", "run0": st0, "run1": st1})
            elif st0 != "ok":
                probs.append({"kind": "closure-rejected", "exc": st0})
            else:
                for lang, ext in EXTS.items():
                    a = _read(os.path.join(specs[0][0][k]["out"], "gen" + ext), lang)
                    b = _read(os.path.join(specs[1][0][k]["out"], "gen" + ext), lang)
                    if a != b:
                        probs.append({"kind": "output-differs-between-runs", "output": lang, "first_diff": _first_diff(a, b)})
                # (2) combined YAML round trip, through the CLI so that compiler_options in the file are honoured
                comb = os.path.join(specs[0][0][k]["out"], "gen_combined.yaml")
                probs += roundtrip(specs[0][0][k]["src"], comb, cl, os.path.join(base, f"rt{k}"))
            problems_all.append({"k": k, "problems": probs})
    finally:
        core.rmtree(base)
    return problems_all


def _read(path: str, lang: str) -> bytes:
    data = open(path, "rb").read()
    if lang == "info":
        lines = data.split(b"\n")
        if lines and lines[0].startswith(b"# "):
            lines[0] = b"# <output path>"
        data = b"\n".join(lines)
    return data


def _first_diff(a: bytes, b: bytes):
    la, lb = a.split(b"\n"), b.split(b"\n")
    for i, (x, y) in enumerate(zip(la, lb)):
        if x != y:
            return {"line": i + 1, "run0": x[:120].decode("latin-1"), "run1": y[:120].decode("latin-1")}
    return {"lines": [len(la), len(lb)]}


def roundtrip(src: str, combined: str, cl, work: str) -> List[Dict[str, Any]]:
    import pyrtma.compile as pc
    from pyrtma.parser import ParserError

    probs = []
    p0 = defx.parse_model(os.path.join(src, "root.yaml"), **cl["kw"])
    s0 = defx.sig_parser(p0)
    os.makedirs(work, exist_ok=True)
    argv = sys.argv
    sys.argv = ["pyrtma.compile", "-i", combined, "--python", "-o", work, "-n", "again"]
    import pyrtma.compilers.python as pyc

    old = pyc.subprocess
    pyc.subprocess = valx._Subprocess(False)
    code = 0
    try:
        with contextlib.redirect_stdout(io.StringIO()), contextlib.redirect_stderr(io.StringIO()):
            pc.main()
    except SystemExit as e:
        code = int(e.code or 0)
    except Exception as e:
        code = f"{type(e).__name__}: {str(e)[:120]}"
    finally:
        pyc.subprocess = old
        sys.argv = argv
    if code != 0:
        return [{"kind": "combined-yaml-does-not-recompile", "exit": code}]
    # parse the combined file the way the CLI did: with the options the file itself carries
    try:
        from pyrtma.parser import Parser

        with contextlib.redirect_stdout(io.StringIO()), contextlib.redirect_stderr(io.StringIO()):
            po = Parser()
            fo = {k: v.value for k, v in po.parse_compiler_options(combined).items()}
        for h in list(po.logger.handlers):
            po.logger.removeHandler(h)
        p1 = defx.parse_model(combined, import_coredefs=bool(fo.get("IMPORT_COREDEFS", True)), validate_alignment=bool(fo.get("VALIDATE_ALIGNMENT", True)),
                              auto_pad=bool(fo.get("AUTO_PAD", True)))
    except Exception as e:
        return [{"kind": "combined-yaml-does-not-recompile", "exit": f"{type(e).__name__}: {str(e)[:120]}"}]
    s1 = defx.sig_parser(p1)
    for sec in ("MT", "MID", "HID", "constants", "strings"):
        if s0[sec] != s1[sec]:
            miss = sorted(set(s0[sec]) - set(s1[sec]))[:4]
            extra = sorted(set(s1[sec]) - set(s0[sec]))[:4]
            diff = sorted(k for k in set(s0[sec]) & set(s1[sec]) if s0[sec][k] != s1[sec][k])[:4]
            probs.append({"kind": "combined-roundtrip-differs", "section": sec, "missing": miss, "extra": extra, "changed": diff})
    for name, d0 in s0["defs"].items():
        d1 = s1["defs"].get(name)
        if d1 is None:
            probs.append({"kind": "combined-roundtrip-differs", "section": "defs", "missing": [name]})
        elif (d0["fields"], d0["size"], d0["hash"], d0["id"]) != (d1["fields"], d1["size"], d1["hash"], d1["id"]):
            what = [k for k in ("fields", "size", "hash", "id") if d0[k] != d1[k]]
            probs.append({"kind": "combined-roundtrip-differs", "section": "defs", "changed": [name], "what": what})
    return probs


def reused_parser_model() -> List[Dict[str, Any]]:
    """the same closure parsed by a fresh Parser and by one that has a failed (and a successful) parse behind it: same ids, hashes,
    sizes, layouts, constants - with the core import on, so that files read by the earlier parse are part of the closure"""
    from pyrtma import parser as PP

    probs = []
    d = core.scratch_dir("c16p")
    cwd0 = os.getcwd()
    try:
        good = defx.Program({"root.yaml": {"imports": ["lib.yaml"], "message_defs": {"GM": {"id": 4530, "fields": {"s": "GS", "n": "int32"}}}},
                             "lib.yaml": {"constants": {"GK": 3}, "struct_defs": {"GS": {"fields": {"a": "double", "b": "int16[GK]"}}}}})
        bad = defx.Program({"root.yaml": {"imports": ["lib.yaml"], "message_defs": {"BM": {"id": 4531, "fields": {"s": "NO_SUCH_TYPE"}}}},
                            "lib.yaml": {"constants": {"BK": 3}}})
        groot = good.write(os.path.join(d, "good"))
        broot = bad.write(os.path.join(d, "bad"))
        ref = defx.sig_parser(defx.parse_model(groot, import_coredefs=True))
        for history in (("bad",), ("good",), ("bad", "good"), ("bad", "bad")):
            os.chdir(d)
            pr = PP.Parser(import_coredefs=True)
            for h in list(pr.logger.handlers):
                pr.logger.removeHandler(h)
            with contextlib.redirect_stdout(io.StringIO()), contextlib.redirect_stderr(io.StringIO()):
                for step in history:
                    try:
                        pr.parse(os.path.relpath(broot if step == "bad" else groot, d))
                    except PP.ParserError:
                        pass
                    except Exception as e:
                        if step == "good":
                            probs.append({"kind": "reused-parser-rejects-the-closure", "history": list(history[:history.index(step)]), "exc": f"{type(e).__name__}: {str(e)[:120]}"})
                try:
                    # (named the way the caller named it the first time: relative to the directory the process was started in)
                    pr.parse(os.path.relpath(groot, d))
                except Exception as e:
                    probs.append({"kind": "reused-parser-rejects-the-closure", "history": list(history), "exc": f"{type(e).__name__}: {str(e)[:120]}"})
                    continue
            got = defx.sig_parser(pr)
            for sec in ("MT", "MID", "HID", "constants", "strings"):
                if got[sec] != ref[sec]:
                    probs.append({"kind": "reused-parser-model-differs", "history": list(history), "section": sec,
                                  "missing": sorted(set(ref[sec]) - set(got[sec]))[:4], "extra": sorted(set(got[sec]) - set(ref[sec]))[:4]})
            if {n: (v["fields"], v["size"], v["hash"], v["id"]) for n, v in got["defs"].items()} != {n: (v["fields"], v["size"], v["hash"], v["id"]) for n, v in ref["defs"].items()}:
                probs.append({"kind": "reused-parser-model-differs", "history": list(history), "section": "defs",
                              "missing": sorted(set(ref["defs"]) - set(got["defs"]))[:4], "extra": sorted(set(got["defs"]) - set(ref["defs"]))[:4]})
    finally:
        os.chdir(cwd0)
        core.rmtree(d)
    return probs


def shipped_core() -> List[Dict[str, Any]]:
    """(3) regenerate the package's core definitions and compare with the shipped module"""
    import pyrtma

    probs = []
    pkg = os.path.dirname(pyrtma.__file__)
    d = core.scratch_dir("c16core")
    try:
        valx.compile_file(os.path.join(pkg, "core_defs", "core_defs.yaml"), "core_defs", d, black=True, python=True, import_coredefs=False)
        new = open(os.path.join(d, "core_defs.py")).read()
        old = open(os.path.join(pkg, "core_defs.py")).read()
        sig_new = defx.sig_python(os.path.join(d, "core_defs.py"))
        sig_old = defx.sig_python(os.path.join(pkg, "core_defs.py"))
        for sec in ("MT", "MID", "names", "strings"):
            if sig_new[sec] != sig_old[sec]:
                keys = sorted(set(sig_new[sec]) ^ set(sig_old[sec]))[:5] or sorted(k for k in sig_new[sec] if sig_new[sec][k] != sig_old[sec].get(k))[:5]
                probs.append({"kind": "shipped-core-defs-stale", "section": sec, "differs": keys})
        for name in sorted(set(sig_new["defs"]) | set(sig_old["defs"])):
            a, b = sig_new["defs"].get(name), sig_old["defs"].get(name)
            if a is None or b is None:
                probs.append({"kind": "shipped-core-defs-stale", "section": "defs", "only_in": "yaml" if b is None else "core_defs.py", "name": name})
            elif (a["fields"], a["size"], a["recorded_size"], a["hash"], a["id"]) != (b["fields"], b["size"], b["recorded_size"], b["hash"], b["id"]):
                probs.append({"kind": "shipped-core-defs-stale", "section": "defs", "name": name,
                              "what": [k for k in ("fields", "size", "recorded_size", "hash", "id") if a[k] != b[k]]})
        # text equality apart from the two version stamps
        norm = lambda t: "\n".join(l for l in t.splitlines() if "auto-generated by pyrtma.compile version" not in l and not l.startswith("COMPILED_PYRTMA_VERSION"))
        if norm(new) != norm(old):
            ln = next((i for i, (x, y) in enumerate(zip(norm(new).splitlines(), norm(old).splitlines())) if x != y), -1)
            probs.append({"kind": "shipped-core-defs-text-differs", "first_differing_line": ln,
                          "regenerated": norm(new).splitlines()[ln][:100] if ln >= 0 else "", "shipped": norm(old).splitlines()[ln][:100] if ln >= 0 else ""})
    finally:
        core.rmtree(d)
    return probs


def run(tier: str) -> int:
    chk = core.Check("C16", tier, "exploration",
                     "closures of the C15 program space + extras + packed programs, each compiled twice in separate processes "
                     "(different hash seed, cwd, source and output directories) with the real black formatter: byte equality of all six "
                     "outputs; combined YAML recompiled through the CLI: signature equality; regenerated vs shipped core_defs.py. "
                     "Distinct non-trivial = closures with more than one file or a cross-definition reference.")
    cls = closures(tier)
    fam = [c for c in cls if c.get("family")]
    rest = core.shuffled([c for c in cls if not c.get("family")], "c16")
    groups = [(i, g, tier) for i, g in enumerate([fam + rest[:6]] + core.chunks(rest[6:], 12))]
    res = core.pmap(run_group, groups)
    core.close_pool()
    order = [c for _, g, _t in groups for c in g]
    i = 0
    nontriv = 0
    for grp in res:
        for r in grp:
            cl = order[i]
            i += 1
            if len(cl["files"]) > 1 or "->" in cl["label"]:
                nontriv += 1
            for p in r["problems"]:
                feats = cl["feats"]
                order_feats = [f for f in feats if f in ("alias-of-struct", "struct-uses-message", "field-via-alias-of-struct")]
                root = "section-order" if (p["kind"] == "combined-yaml-does-not-recompile" and order_feats) else "+".join(feats) or "plain"
                sub = p.get("output", p.get("section", ""))
                chk.violation(f"C16:{p['kind']}:{sub}:{root if p['kind'].startswith('combined') else ''}", f"{p} in {cl['label']}",
                              {"module": "vf.checks.c16", "closure": cl, "problem": p}, size=len(json.dumps(cl["files"])))
    for p in shipped_core():
        chk.violation(f"C16:{p['kind']}:{p.get('section', '')}", f"{p}", {"module": "vf.checks.c16", "shipped": True, "problem": p})
    for p in reused_parser_model():
        chk.violation(f"C16:{p['kind']}:{p.get('section', '')}", f"{p}", {"module": "vf.checks.c16", "reused_parser": True, "problem": p})
    chk.count("closures", len(cls))
    chk.sample({"closure": cls[0]["label"], "files": list(cls[0]["files"])})
    chk.sample({"closure": cls[-1]["label"], "files": list(cls[-1]["files"])})
    chk.assumptions += ["black as installed in /venv", "two runs per closure (seeds 0 and 271828)"]
    return chk.finish({"evaluations": len(cls) * 2 + 1, "distinct_nontrivial": nontriv})


def replay(case) -> int:
    if case.get("shipped"):
        probs = shipped_core()
    elif case.get("reused_parser"):
        probs = reused_parser_model()
    else:
        probs = run_group((0, [case["closure"]], "thorough"))[0]["problems"]
    hit = [p for p in probs if p["kind"] == case["problem"]["kind"]]
    for p in hit[:5]:
        print("  PROBLEM:", p)
    print("reproduced" if hit else "NOT reproduced")
    return 1 if hit else 0
