"""C02 - client and manager always agree on the subscription set.

Engine: the real pyrtma Client driving the real (stepped) MessageManager on the virtual network.
BFS to a fixpoint over the joint state (client's subscribed / paused sets and subscribed-to-all
flag; the manager's subscription table for that module). From every reachable state every
operation of the public API is applied with every argument shape (lists of length <= 2/3 over
{A,B,C,ALL} with duplicates and every position of ALL; the three *_all helpers; both context
managers entered with every list over {A,B,C}).

Oracle after every operation: a raw publisher sends one message of each of A,B,C and the
never-subscribed D; the set of types arriving on the client's connection (read below the client's
own filter) equals client.subscribed_types (all four when it reports ALL); paused types do not
arrive; read_message returns exactly those; while subscribed to all, individual changes raise
InvalidSubscription and put no frame on the wire; leaving a context restores both sets.
"""
from __future__ import annotations

import itertools
import warnings
from typing import Any, Dict, List, Optional, Sequence, Tuple

from .. import clx, core, mmx, proto as P

# (D carries the largest id a definition file may give a message)
A, B, C, D = 1001, 1002, 1003, 10000
ALL = P.ALL_MESSAGE_TYPES
NAMES = {A: "A", B: "B", C: "C", D: "D", ALL: "ALL"}
_DEFS_DONE = False


def ensure_defs():
    """register signal definitions for the four probe types through the public decorator"""
    global _DEFS_DONE
    if _DEFS_DONE:
        return
    import pyrtma
    from pyrtma.message_data import MessageData
    from pyrtma.message_base import MessageMeta

    for mt in (A, B, C, D):
        cls = MessageMeta(f"MDF_VF_{NAMES[mt]}", (MessageData,), {
            "type_id": mt, "type_name": f"VF_{NAMES[mt]}", "type_hash": 0x1000 + mt, "type_size": 0,
            "type_source": "vf", "type_def": ""})
        pyrtma.message_def(cls)
    _DEFS_DONE = True


def arg_lists(maxlen: int, universe=(A, B, C, ALL)) -> List[Tuple[int, ...]]:
    out = []
    for n in range(1, maxlen + 1):
        out.extend(itertools.product(universe, repeat=n))
    return out


def operations(tier: str) -> List[Tuple]:
    n = 3
    ops: List[Tuple] = []
    for meth in ("subscribe", "unsubscribe", "pause_subscription", "resume_subscription"):
        for lst in arg_lists(n):
            ops.append((meth, list(lst)))
        ops.append((meth, []))
    for meth in ("unsubscribe_from_all", "pause_all_subscriptions", "resume_all_subscriptions"):
        ops.append((meth,))
    # the same Client object on a new connection: after a lost connection and after a polite disconnect
    ops.append(("reconnect_after_loss",))
    ops.append(("disconnect_connect",))
    for meth in ("subscription_context", "paused_subscription_context"):
        for lst in arg_lists(3, (A, B, C)):
            ops.append((meth, list(lst)))
    return ops


class Rig:
    def __init__(self, cfg=False):
        import pyrtma.client as CL

        ensure_defs()
        self.CL = CL
        # cfg: False / True = header layout, one instance of module 33;  "twin" / "twin-tc": a second connection shares the
        # client's module id (allow_multiple) and holds its own fixed subscriptions (A, B) throughout
        self.twin_on = isinstance(cfg, str) and cfg.startswith("twin")
        self.logger_on = cfg == "logger"  # the client under test connects as a logger module (individual subscriptions work for it like for anybody)
        tc = cfg is True or cfg == "twin-tc"
        self.tc = tc
        self.w = clx.ClientWorld(timecode=tc)
        self.pub = self.w.client("PUB", 1).connect()
        self.w.settle()
        self.pub.send(P.mkframe(P.MT_CONNECT, P.p_connect(), timecode=tc, src_mod_id=21))
        self.w.settle()
        self.twin = None
        if self.twin_on:
            self.twin = self.w.client("TWIN", 2).connect()
            self.w.settle()
            self.twin.send(P.mkframe(P.MT_CONNECT_V2, P.p_connect_v2(0, 0, 1, 33, 555, b"cee"), timecode=tc, src_mod_id=33))
            self.w.settle()
            self.twin.send(P.mkframe(P.MT_SUBSCRIBE, P.p_sub(A), timecode=tc, src_mod_id=33) + P.mkframe(P.MT_SUBSCRIBE, P.p_sub(B), timecode=tc, src_mod_id=33))
            self.w.settle()
        self.c = self.w.new_client(module_id=33, timecode=tc, name="cee")
        if self.twin_on:
            self.c.connect(mmx.SERVER, allow_multiple=True)
        elif self.logger_on:
            self.c.connect(mmx.SERVER, logger_status=True)
        else:
            self.c.connect(mmx.SERVER)
        self.w.settle()
        if not self.c.connected:
            raise core.HarnessError("C02 rig: the client under test could not connect")
        self.c_mgr_side = self.c._sock.peer_sock
        self.drain_client()

    def drain_client(self):
        self.c._sock.rx.clear()

    def client_state(self) -> Tuple:
        c = self.c
        return (tuple(sorted(c.subscribed_types)), tuple(sorted(c.paused_subscribed_types)), bool(c._sub_all))

    def manager_state(self) -> Tuple:
        try:
            for mod in self.w.mgr.modules.values():
                if mod.mod_id == 33 and mod is not self.w.mgr.mm_module and mod.conn is self.c_mgr_side:
                    return tuple(sorted(mod.subs))
        except Exception:
            pass
        return ("?",)

    def wire_len(self) -> int:
        return sum(len(b) for b in self.c._sock.sent_log)

    def apply(self, op) -> Dict[str, Any]:
        """perform one API operation; returns what happened"""
        c = self.c
        meth = op[0]
        before = self.client_state()
        w0 = self.wire_len()
        res = {"raised": None, "ctx": None}
        with warnings.catch_warnings():
            warnings.simplefilter("ignore")
            try:
                if meth in ("reconnect_after_loss", "disconnect_connect"):
                    if meth == "disconnect_connect":
                        c.disconnect()
                    else:
                        for end in (c._sock, c._sock.peer_sock):
                            end.peer = "rst"
                            end.err = True
                        for _ in range(40):
                            try:
                                c.read_message(timeout=0)
                            except self.CL.ConnectionLost:
                                break
                    self.w.settle()
                    c.connect(mmx.SERVER, allow_multiple=True) if self.twin_on else (c.connect(mmx.SERVER, logger_status=True) if self.logger_on else c.connect(mmx.SERVER))
                    self.w.settle()
                    self.c_mgr_side = c._sock.peer_sock
                    c._sock.rx.clear()
                elif meth.endswith("_context"):
                    cm = getattr(c, meth)(list(op[1]))
                    cm.__enter__()
                    self.w.settle()
                    res["ctx"] = {"inside": self.client_state()}
                    inside_problems = self.probe("inside context")
                    res["inside_problems"] = inside_problems
                    cm.__exit__(None, None, None)
                elif len(op) > 1:
                    getattr(c, meth)(list(op[1]))
                else:
                    getattr(c, meth)()
            except self.CL.InvalidSubscription as e:
                res["raised"] = "InvalidSubscription"
            except Exception as e:  # anything else is a finding in itself
                res["raised"] = f"{type(e).__name__}: {e}"
        self.w.settle()
        res["before"] = before
        res["after"] = self.client_state()
        res["wire_bytes"] = self.wire_len() - w0
        return res

    def queued_types(self) -> List[int]:
        frames, _rest, _prob = P.parse_stream(bytes(self.c._sock.rx), self.tc)
        return [f.msg_type for f in frames if f.src_mod_id == 21 and f.msg_type in (A, B, C, D)]

    def probe(self, where: str, queued: Optional[List[int]] = None) -> List[Dict[str, Any]]:
        """publisher sends A,B,C,D; compare arrivals with the client's own view"""
        probs = []
        c = self.c
        self.w.settle()
        # frames forwarded before the change took effect are still queued: the API must not hand out a type the client
        # no longer reports as subscribed (unsubscribed or paused)
        claimed = c.subscribed_types
        came_out: List[int] = []
        for _ in range(12):
            if not c._sock.rx:
                break
            try:
                m = c.read_message(timeout=0)
            except Exception as e:
                probs.append({"kind": "read_message-raised", "where": where + " (queued)", "exc": f"{type(e).__name__}: {e}"})
                break
            if m is not None and m.header.src_mod_id == 21:
                came_out.append(m.header.msg_type)
            if m is not None and m.header.src_mod_id == 21 and claimed != {ALL} and m.header.msg_type not in claimed:
                probs.append({"kind": "queued-frame-of-dropped-type-returned", "where": where, "type": NAMES.get(m.header.msg_type, m.header.msg_type),
                              "paused": m.header.msg_type in c.paused_subscribed_types})
        if queued is not None:
            # what was delivered to this client before the operation and is still subscribed afterwards comes out exactly once, in order
            want = [t for t in queued if claimed == {ALL} or t in claimed]
            if came_out != want:
                probs.append({"kind": "queued-frames-of-kept-types-lost-or-repeated", "where": where, "queued": [NAMES[t] for t in queued],
                              "expected_from_read_message": [NAMES[t] for t in want], "got": [NAMES.get(t, t) for t in came_out]})
        self.drain_client()
        if self.twin is not None:
            self.twin.drain()
        for mt in (A, B, C, D):
            self.pub.send(P.mkframe(mt, b"", timecode=self.tc, src_mod_id=21))
        self.w.settle()
        if self.twin is not None:
            tw = sorted(f.msg_type for f in self.twin.drain() if f.msg_type in (A, B, C, D) and f.src_mod_id == 21)
            if tw != sorted((A, B)):
                probs.append({"kind": "same-id-instance-delivery", "where": where, "twin_subscribed": ["A", "B"], "twin_received": [NAMES[t] for t in tw],
                              "client_reports": [NAMES.get(t, t) for t in sorted(c.subscribed_types)]})
        frames, rest, prob = P.parse_stream(bytes(c._sock.rx), self.tc)
        arrived = sorted(f.msg_type for f in frames if f.msg_type in (A, B, C, D) and f.src_mod_id == 21)
        claimed = c.subscribed_types
        expect = sorted((A, B, C, D)) if claimed == {ALL} else sorted(claimed)
        if arrived != expect:
            probs.append({"kind": "delivered-vs-claimed", "where": where, "delivered": [NAMES[t] for t in arrived],
                          "client_reports": [NAMES.get(t, t) for t in sorted(claimed)]})
        # messages ADDRESSED to this module are delivered under the same rule (the destination filter narrows who gets a message, it
        # never replaces the subscription)
        before2 = len(c._sock.rx)
        for mt in (A, B, C, D):
            self.pub.send(P.mkframe(mt, b"", timecode=self.tc, src_mod_id=21, dest_mod_id=c.module_id))
        self.w.settle()
        fr3, _r3, _p3 = P.parse_stream(bytes(c._sock.rx[before2:]), self.tc)
        arrived2 = sorted(f.msg_type for f in fr3 if f.msg_type in (A, B, C, D) and f.src_mod_id == 21)
        if arrived2 != expect:
            probs.append({"kind": "addressed-delivered-vs-claimed", "where": where, "delivered": [NAMES[t] for t in arrived2],
                          "client_reports": [NAMES.get(t, t) for t in sorted(claimed)]})
        del c._sock.rx[before2:]
        if self.twin is not None:
            self.twin.drain()
        # what the manager publishes itself is delivered under the same rule: a report period elapses; the report reaches the
        # client exactly when it claims to be subscribed to everything (no type of the universe is TIMING_MESSAGE)
        before = len(c._sock.rx)
        self.w.tick(1.05)
        self.w.step()
        self.w.settle()
        fr2, _r2, _p2 = P.parse_stream(bytes(c._sock.rx[before:]), self.tc)
        got_timing = sum(1 for f in fr2 if f.msg_type == P.MT_TIMING_MESSAGE and f.src_mod_id == 0)
        if (got_timing > 0) != (claimed == {ALL}):
            probs.append({"kind": "manager-originated-type-vs-claimed", "where": where, "timing_reports_delivered": got_timing,
                          "client_reports": [NAMES.get(t, t) for t in sorted(claimed)]})
        del c._sock.rx[before:]
        pz = [t for t in c.paused_subscribed_types if t in arrived]
        if pz:
            probs.append({"kind": "paused-type-delivered", "where": where, "types": [NAMES[t] for t in pz]})
        if set(c.paused_subscribed_types) & set(claimed):
            probs.append({"kind": "type-both-subscribed-and-paused", "where": where})
        # the API view
        got = []
        for _ in range(12):
            if not c._sock.rx:
                break
            try:
                m = c.read_message(timeout=0)
            except Exception as e:
                probs.append({"kind": "read_message-raised", "where": where, "exc": f"{type(e).__name__}: {e}"})
                break
            if m is not None:
                got.append(m.header.msg_type)
        if sorted(got) != [t for t in arrived if claimed == {ALL} or t in claimed]:
            probs.append({"kind": "read_message-set", "where": where, "returned": [NAMES.get(t, t) for t in got],
                          "arrived": [NAMES[t] for t in arrived]})
        return probs

    def inflight(self):
        """publish every type and let the manager forward: whatever the client is subscribed to now sits unread in its socket"""
        for mt in (A, B, C, D):
            self.pub.send(P.mkframe(mt, b"", timecode=self.tc, src_mod_id=21))
        self.w.settle()

    def close(self):
        self.w.stop()


def run_history(tc: bool, hist: Sequence[Tuple], last_only: bool = True) -> Dict[str, Any]:
    """replay an operation history on a fresh rig; check the last operation"""
    mmx.fresh_gc()
    rig = Rig(tc)
    probs: List[Dict[str, Any]] = []
    key = ("dead",)
    try:
      try:
          res = None
          queued = None
          for i, op in enumerate(hist):
              if i == len(hist) - 1:
                  rig.inflight()
                  if not op[0].endswith("_context") and op[0] not in ("reconnect_after_loss", "disconnect_connect"):
                      queued = rig.queued_types()
              res = rig.apply(op)
              if i < len(hist) - 1 and not last_only:
                  probs += rig.probe(f"after op {i}")
          if res is not None:
              op = hist[-1]
              before, after = res["before"], res["after"]
              if res["raised"] and res["raised"] != "InvalidSubscription":
                  probs.append({"kind": "unexpected-exception", "exc": res["raised"]})
              sub_all_before = before[2]
              individual = op[0] in ("subscribe", "unsubscribe", "pause_subscription", "resume_subscription") and ALL not in op[1] \
                  or op[0].endswith("_context")
              if sub_all_before and individual and (len(op) > 1 and len(op[1]) > 0 or op[0].endswith("_context")):
                  filtered_empty = False
                  if not (op[0].endswith("_context")):
                      if res["raised"] != "InvalidSubscription":
                          probs.append({"kind": "individual-change-not-refused", "state": before})
                      if res["wire_bytes"]:
                          probs.append({"kind": "refused-change-reached-the-wire", "bytes": res["wire_bytes"]})
                      if after != before:
                          probs.append({"kind": "refused-change-altered-client-state", "before": before, "after": after})
              elif res["raised"] == "InvalidSubscription" and not sub_all_before:
                  probs.append({"kind": "InvalidSubscription-without-sub-all", "state": before})
              if op[0].endswith("_context"):
                  probs += res.get("inside_problems", [])
                  if (after[0], after[1]) != (before[0], before[1]) or after[2] != before[2]:
                      probs.append({"kind": "context-did-not-restore", "before": _names(before), "after": _names(after)})
              probs += rig.probe("after operation", queued=queued)
          key = (rig.client_state(), rig.manager_state())
      except Exception as e:
        # anything unexpected while the manager is dead is the manager's death, not a harness failure
        ex = rig.w.exit
        if rig.w.finished and ex and ex[0] in ("died", "stall"):
            probs.append({"kind": "manager-" + ex[0], "detail": str(ex[1])[:200]})
        else:
            raise
    finally:
        rig.close()
    return {"problems": probs, "key": key}


def _names(st):
    return [[NAMES.get(t, t) for t in st[0]], [NAMES.get(t, t) for t in st[1]], st[2]]


def expand(args):
    tc, hist, tier = args
    out = []
    ops = operations(tier)
    if tc == "logger":
        ops = [op for op in ops if len(op) == 1 or len(op[1]) <= 1]  # the logger configuration: every operation, single-type argument lists
    for op in ops:
        r = run_history(tc, list(hist) + [op])
        out.append((op, r["key"], r["problems"]))
    return out


def _opname(op):
    if len(op) == 1:
        return op[0]
    return f"{op[0]}([{','.join(NAMES[t] for t in op[1])}])"


def run(tier: str) -> int:
    chk = core.Check("C02", tier, "model_checking",
                     "BFS to fixpoint over the joint (client, manager) subscription state; from every reachable state every "
                     "public subscription operation with every argument shape is executed by the real Client against the "
                     "real MessageManager and followed by a publish of every type; arrivals on the wire are compared with "
                     "the client's reported sets.")
    total_states = total_trans = 0
    distinct_outcomes = set()
    for tc in ((False, "twin", "logger") if tier == "quick" else (False, True, "twin", "twin-tc", "logger")):
        r0 = run_history(tc, [("subscribe", [])])
        seen = {r0["key"]: []}
        frontier = [[]]
        depth = 0
        while frontier:
            res = core.pmap(expand, [(tc, h, tier) for h in core.shuffled(frontier, f"c02{depth}")])
            order = core.shuffled(frontier, f"c02{depth}")
            nxt = []
            for h, outs in zip(order, res):
                for op, key, problems in outs:
                    total_trans += 1
                    distinct_outcomes.add((key, tuple(sorted(p["kind"] for p in problems))))
                    for p in problems:
                        chk.violation(f"C02:{p['kind']}:{op[0]}", f"after {[_opname(o) for o in h]} then {_opname(op)}: {p}",
                                      {"module": "vf.checks.c02", "tc": tc, "history": [list(o) for o in h] + [list(op)]},
                                      size=len(h) * 10 + len(str(op)))
                    if not problems and key not in seen:
                        seen[key] = h + [op]
                        nxt.append(h + [op])
            frontier = nxt
            depth += 1
            if depth > 12:
                chk.capped("depth 12")
                break
        total_states += len(seen)
        chk.sample({"timecode": tc, "a_state": _names(list(seen.keys())[-1][0]), "reached_by": [_opname(o) for o in list(seen.values())[-1]]})
    core.close_pool()
    chk.sample({"operations": [_opname(o) for o in operations(tier)[:6]], "n_operations": len(operations(tier))})
    chk.assumptions += ["virtual TCP model", "one client under test (alone, or next to a second connection sharing its module id), three types + ALL + one never-subscribed type"]
    return chk.finish({"states": total_states, "transitions": total_trans, "traces_validated_against_impl": total_trans,
                       "distinct_outcomes": len(distinct_outcomes)})


def replay(case) -> int:
    hist = [tuple(o) if len(o) == 1 else (o[0], list(o[1])) for o in case["history"]]
    r1 = run_history(case["tc"], hist)
    r2 = run_history(case["tc"], hist)
    if str(r1["problems"]) != str(r2["problems"]):
        print("HARNESS-ERROR: non-deterministic replay")
        return 2
    print("  history:", [_opname(o) for o in hist])
    for p in r1["problems"]:
        print("  PROBLEM:", p)
    print("reproduced" if r1["problems"] else "NOT reproduced")
    return 1 if r1["problems"] else 0
