"""C07 - a departed client leaves no trace.

Engine: lock-step execution (vf.lock) of the real manager and the reference hub over an exhaustive
enumeration of (protocol position of the leaver) x (way and moment of leaving, incl. FIN/RST after
every byte offset of an outgoing frame, refusal at connect, discovery on the manager's write side
during a forward / an ACK / a logger copy / a CLIENT_CLOSED or FAILED_MESSAGE delivery) x (alone or
with a second leaver in the same round) x (every service order) x (both hash orders) x
(kernel already knows / learns on the first write: fin_grace 0/1).

Oracle: (a) lock-step comparison of everything the monitor, the survivor and the publisher receive;
(b) independently of the reference: exactly one CLIENT_CLOSED per departed connection reaches the
monitor and it describes the leaver; an immediate reconnect with the same id and name is
acknowledged; the survivor still receives what the publisher sends afterwards.
"""
from __future__ import annotations

import itertools
from typing import Any, Dict, List, Sequence, Tuple

from .. import core, lock, mmx, proto as P
from ..hub import ev_send

T1, T2 = 1001, 1002
ALL = P.ALL_MESSAGE_TYPES
IDS = {"M": 90, "S": 31, "P": 21, "D": 41, "E": 42, "G": 61}
NAMES = {"S": b"ess", "D": b"dee", "E": b"eee"}
POSITIONS = ("accepted", "connected", "subscribed", "suball", "paused", "logger")


def fr(tc, mt, payload=b"", **kw):
    return P.mkframe(mt, payload, timecode=tc, **kw)


def v2(tc, slot, logger=0, mid=None, name=None, am=0):
    mid = IDS[slot] if mid is None else mid
    name = NAMES.get(slot, b"") if name is None else name
    return fr(tc, P.MT_CONNECT_V2, P.p_connect_v2(logger, 0, am, mid, 4000 + IDS[slot], name), src_mod_id=mid)


def setup_events(tc, monitor_all: bool = False) -> List[List]:
    ev = [["conn", "M"], ev_send("M", fr(tc, P.MT_CONNECT, P.p_connect(), src_mod_id=IDS["M"])), ["settle"]]
    # (monitor_all: nobody names CLIENT_CLOSED - the monitor, like every other observer, listens through ALL_MESSAGE_TYPES only)
    for t in ((ALL,) if monitor_all else (P.MT_CLIENT_CLOSED, P.MT_FAILED_MESSAGE, P.MT_CLIENT_INFO)):
        ev.append(ev_send("M", fr(tc, P.MT_SUBSCRIBE, P.p_sub(t), src_mod_id=IDS["M"])))
    ev += [["settle"], ["conn", "S"], ev_send("S", v2(tc, "S") + fr(tc, P.MT_CONNECT, P.p_connect(), src_mod_id=IDS["S"])),
           ["settle"], ev_send("S", fr(tc, P.MT_SUBSCRIBE, P.p_sub(T1), src_mod_id=IDS["S"])), ["settle"],
           ["conn", "P"], ev_send("P", fr(tc, P.MT_CONNECT, P.p_connect(), src_mod_id=IDS["P"])), ["settle"],
           # a logger that stays: it is owed a copy of every acknowledgement, also of the one during whose write a leaver is found dead
           ["conn", "G"], ev_send("G", fr(tc, P.MT_CONNECT, P.p_connect(1, 0), src_mod_id=IDS["G"])), ["settle"]]
    return ev


def position_events(tc, slot, pos, extra_sub=None) -> List[List]:
    mid = IDS[slot]
    ev = [["conn", slot], ["settle"]]
    if pos == "accepted":
        return ev
    ev += [ev_send(slot, v2(tc, slot, logger=1 if pos == "logger" else 0) + fr(tc, P.MT_CONNECT, P.p_connect(1 if pos == "logger" else 0), src_mod_id=mid)), ["settle"]]
    subs = {"subscribed": [(P.MT_SUBSCRIBE, T1), (P.MT_SUBSCRIBE, T2)], "suball": [(P.MT_SUBSCRIBE, ALL)],
            "paused": [(P.MT_SUBSCRIBE, T1), (P.MT_PAUSE_SUBSCRIPTION, T1)], "logger": [(P.MT_SUBSCRIBE, ALL)]}.get(pos, [])
    if extra_sub is not None:
        subs = subs + [(P.MT_SUBSCRIBE, extra_sub)]
    for mt, t in subs:
        ev.append(ev_send(slot, fr(tc, mt, P.p_sub(t), src_mod_id=mid)))
    ev.append(["settle"])
    return ev


def out_frames(tc, slot) -> Dict[str, bytes]:
    mid = IDS[slot]
    return {"SUBSCRIBE": fr(tc, P.MT_SUBSCRIBE, P.p_sub(1003), src_mod_id=mid),
            "DATA": fr(tc, T1, b"lastwords", src_mod_id=mid),
            "DISCONNECT": fr(tc, P.MT_DISCONNECT, src_mod_id=mid)}


def scenarios(tier: str) -> List[Dict[str, Any]]:
    """each scenario: dict(tc, grace, flip, pre=[events], leave=[events before the deciding round],
    orders=bool (enumerate service orders of the deciding round), leavers=[(slot, pos)], expect_closed=n)"""
    out = []
    envs = [(False, 0, False), (False, 1, True)] if tier == "quick" else [(False, 0, False), (False, 1, True), (True, 1, False), (True, 0, True), (False, 2, False)]
    for tc, grace, flip in envs:
        of = out_frames(tc, "D")
        for pos in POSITIONS:
            pre = position_events(tc, "D", pos)
            # read-side ways
            for how in ("fin", "rst"):
                out.append(dict(tc=tc, grace=grace, flip=flip, pre=pre, leave=[[how, "D"]], orders=False, leavers=[("D", pos)], label=f"{pos}/{how}"))
            if pos != "accepted":
                out.append(dict(tc=tc, grace=grace, flip=flip, pre=pre, leave=[ev_send("D", of["DISCONNECT"])], orders=False, leavers=[("D", pos)], label=f"{pos}/DISCONNECT", then_fin=["D"]))
            # death in the middle of an outgoing frame, every byte offset
            for name in (("SUBSCRIBE", "DATA") if pos != "accepted" else ("SUBSCRIBE",)):
                fb = of[name]
                offs = range(0, len(fb) + 1) if (tier == "thorough" or pos in ("subscribed", "logger")) else sorted({0, 1, 24, 47, 48, 49, len(fb) - 1, len(fb)})
                for off in offs:
                    for how in ("fin", "rst"):
                        out.append(dict(tc=tc, grace=grace, flip=flip, pre=pre, leave=[ev_send("D", fb[:off]), [how, "D"]] if off else [[how, "D"]],
                                        orders=False, leavers=[("D", pos)], label=f"{pos}/{name}[:{off}]/{how}"))
                        if name == "SUBSCRIBE" and 0 < off < 48 and pos in ("connected", "subscribed", "suball"):
                            # the manager's (shared) header buffer holds a zero-length frame of somebody else when the cut header arrives
                            sig0 = [ev_send("P", fr(tc, T2, b"", src_mod_id=IDS["P"])), ["settle"]]
                            out.append(dict(tc=tc, grace=grace, flip=flip, pre=pre + sig0, leave=[ev_send("D", fb[:off]), [how, "D"]],
                                            orders=False, leavers=[("D", pos)], label=f"{pos}/after-signal/{name}[:{off}]/{how}"))
            # write-side discovery: D dead, P publishes in the same round
            if pos in ("subscribed", "suball", "logger"):
                for how in ("fin", "rst"):
                    for dest in (0, IDS["D"], IDS["S"]):
                        out.append(dict(tc=tc, grace=grace, flip=flip, pre=pre,
                                        leave=[[how, "D"], ev_send("P", fr(tc, T1, b"uncover", src_mod_id=IDS["P"], dest_mod_id=dest))],
                                        orders=True, leavers=[("D", pos)], label=f"{pos}/write-forward/{how}/dest{dest}"))
                        if dest == 0:
                            # ... while another subscriber of the type cannot take the message: the notice about THAT is a delivery
                            # of its own, nested in the first, and it is during the nested one that the leaver is found dead
                            out.append(dict(tc=tc, grace=grace, flip=flip, pre=pre,
                                            leave=[[how, "D"], ev_send("P", fr(tc, T1, b"uncover", src_mod_id=IDS["P"]))], nonwritable=["S"],
                                            orders=True, leavers=[("D", pos)], label=f"{pos}/write-forward/{how}/another-subscriber-not-writable"))
            if pos != "accepted":
                # ... during its own ACK
                for how in ("fin", "rst"):
                    out.append(dict(tc=tc, grace=grace, flip=flip, pre=pre, leave=[ev_send("D", of["SUBSCRIBE"]), [how, "D"]], orders=False,
                                    leavers=[("D", pos)], label=f"{pos}/write-ack/{how}"))
            if pos == "logger":
                # ... during the logger copy of somebody else's ACK
                for how in ("fin", "rst"):
                    out.append(dict(tc=tc, grace=grace, flip=flip, pre=pre,
                                    leave=[[how, "D"], ev_send("S", fr(tc, P.MT_SUBSCRIBE, P.p_sub(1004), src_mod_id=IDS["S"]))],
                                    orders=True, leavers=[("D", pos)], label=f"logger/write-ackcopy/{how}"))
        # two loggers are gone in the same round and it is the copy of somebody's ACK that finds them: the notice about the first is
        # delivered (to the second, which listens to everything) while the copies are still being handed out
        for h1, h2 in itertools.product(("fin", "rst"), repeat=2):
            pre = position_events(tc, "D", "logger") + position_events(tc, "E", "logger")
            out.append(dict(tc=tc, grace=grace, flip=flip, pre=pre,
                            leave=[[h1, "D"], [h2, "E"], ev_send("S", fr(tc, P.MT_SUBSCRIBE, P.p_sub(1004), src_mod_id=IDS["S"]))],
                            orders=True, leavers=[("D", "logger"), ("E", "logger")], label=f"two-loggers/write-ackcopy/{h1}+{h2}"))
        # refusal at connect
        pre = position_events(tc, "D", "accepted")
        for label, frame in (("range", v2(tc, "D", mid=150)), ("range-neg", v2(tc, "D", mid=-3)), ("dup-id", v2(tc, "D", mid=IDS["S"])),
                             ("dup-name", v2(tc, "D", name=NAMES["S"])), ("dup-id-v1", fr(tc, P.MT_CONNECT, P.p_connect(), src_mod_id=IDS["P"])),
                             ("dup-mm-name", v2(tc, "D", name=b"message_manager"))):
            out.append(dict(tc=tc, grace=grace, flip=flip, pre=pre, leave=[ev_send("D", frame)], orders=False, leavers=[("D", "refused")],
                            label=f"refused/{label}", then_fin=["D"], refused=True))
        # discovery during a CLIENT_CLOSED / FAILED_MESSAGE delivery
        for how in ("fin", "rst"):
            pre = position_events(tc, "D", "connected", extra_sub=P.MT_CLIENT_CLOSED) + position_events(tc, "E", "subscribed")
            out.append(dict(tc=tc, grace=grace, flip=flip, pre=pre, leave=[[how, "D"], ev_send("E", out_frames(tc, "E")["DISCONNECT"])], orders=True,
                            leavers=[("D", "connected"), ("E", "subscribed")], label=f"write-closed-delivery/{how}", then_fin=["E"]))
            pre = position_events(tc, "D", "connected", extra_sub=P.MT_FAILED_MESSAGE)
            out.append(dict(tc=tc, grace=grace, flip=flip, pre=pre, leave=[[how, "D"], ev_send("P", fr(tc, T1, b"nw", src_mod_id=IDS["P"]))], orders=True,
                            nonwritable=["S"], leavers=[("D", "connected")], label=f"write-failed-delivery/{how}"))
        # discovery while a manager-originated CLIENT_INFO is being delivered (another subscriber is served after the leaver)
        for how in ("fin", "rst"):
            pre = position_events(tc, "D", "connected", extra_sub=P.MT_CLIENT_INFO) + position_events(tc, "E", "connected", extra_sub=P.MT_CLIENT_INFO)
            out.append(dict(tc=tc, grace=grace, flip=flip, pre=pre,
                            leave=[[how, "D"], ev_send("P", fr(tc, P.MT_MODULE_READY, P.P_READY.pack(4321), src_mod_id=IDS["P"]))], orders=True,
                            leavers=[("D", "connected")], label=f"write-info-delivery/{how}"))
            out.append(dict(tc=tc, grace=grace, flip=flip, pre=pre,
                            leave=[[how, "D"], [how, "E"], ev_send("P", fr(tc, P.MT_CLIENT_SET_NAME, P.P_NAME.pack(b"pee"), src_mod_id=IDS["P"]))], orders=True,
                            leavers=[("D", "connected"), ("E", "connected")], label=f"write-info-delivery-two/{how}"))
        # the leaver has a subscription history behind it: every sequence of requests up to a length bound, then every way of leaving
        hist_ops = [(P.MT_SUBSCRIBE, T1), (P.MT_SUBSCRIBE, T2), (P.MT_SUBSCRIBE, ALL), (P.MT_UNSUBSCRIBE, T1), (P.MT_UNSUBSCRIBE, ALL),
                    (P.MT_PAUSE_SUBSCRIPTION, T1), (P.MT_PAUSE_SUBSCRIPTION, ALL), (P.MT_RESUME_SUBSCRIPTION, T1), (P.MT_RESUME_SUBSCRIPTION, ALL)]
        first_env = (tc, grace, flip) == envs[0]
        maxlen = (2 if first_env else 0) if tier == "quick" else (4 if first_env else 3)
        hways = ("fin", "DISCONNECT") if tier == "quick" else ("fin", "rst", "DISCONNECT", "mid", "uncover")
        for n in range(1, maxlen + 1):
            for seq in itertools.product(range(len(hist_ops)), repeat=n):
                pre = position_events(tc, "D", "connected")
                for i in seq:
                    pre.append(ev_send("D", fr(tc, hist_ops[i][0], P.p_sub(hist_ops[i][1]), src_mod_id=IDS["D"])))
                    pre.append(["settle"])
                f = out_frames(tc, "D")
                for wy in hways:
                    fins = []
                    orders = False
                    if wy in ("fin", "rst"):
                        leave = [[wy, "D"]]
                    elif wy == "DISCONNECT":
                        leave = [ev_send("D", f["DISCONNECT"])]
                        fins = ["D"]
                    elif wy == "mid":
                        leave = [ev_send("D", f["DATA"][:50]), ["rst", "D"]]
                    else:
                        leave = [["rst", "D"], ev_send("P", fr(tc, T1, b"uncover", src_mod_id=IDS["P"]))]
                        orders = True
                    out.append(dict(tc=tc, grace=grace, flip=flip, pre=pre, leave=leave, orders=orders, leavers=[("D", "connected")],
                                    label=f"history/{'.'.join(str(i) for i in seq)}/{wy}", then_fin=fins))
        # leave, come back in some position, leave again
        if tier == "thorough":
            f = out_frames(tc, "D")
            lways = {"fin": [["fin", "D"]], "rst": [["rst", "D"]], "DISCONNECT": [ev_send("D", f["DISCONNECT"]), ["settle"], ["fin", "D"]],
                     "mid": [ev_send("D", f["DATA"][:50]), ["rst", "D"]]}
            for p1, p2 in itertools.product(POSITIONS, repeat=2):
                for w1, w2 in itertools.product(lways, repeat=2):
                    if p1 == "accepted" and w1 in ("DISCONNECT", "mid") or p2 == "accepted" and w2 in ("DISCONNECT", "mid"):
                        continue
                    pre = position_events(tc, "D", p1) + lways[w1] + [["settle"]] + position_events(tc, "D", p2)
                    lv = [e for e in lways[w2] if e != ["settle"] and e != ["fin", "D"]] if w2 == "DISCONNECT" else lways[w2]
                    out.append(dict(tc=tc, grace=grace, flip=flip, pre=pre, leave=lv, orders=False, leavers=[("D", p2)],
                                    label=f"again/{p1}:{w1}->{p2}:{w2}", then_fin=["D"] if w2 == "DISCONNECT" else []))
        # the leaver shares its module id (and name) with a connection that stays: what the sibling subscribed to keeps arriving,
        # broadcast and addressed to the shared id; also a connection that is refused at CONNECT after it had already sent requests
        for how in ("fin", "rst", "DISCONNECT", "mid"):
            for dsubs, esubs in (((T1,), (T1,)), ((T1, T2), (T1,)), ((ALL,), (T1, T2))):
                pre = [["conn", "D"], ev_send("D", v2(tc, "D", am=1)), ["settle"], ["conn", "E"], ev_send("E", v2(tc, "E", mid=IDS["D"], name=NAMES["D"], am=1)), ["settle"]]
                pre += [ev_send("D", fr(tc, P.MT_SUBSCRIBE, P.p_sub(t), src_mod_id=IDS["D"])) for t in dsubs]
                pre += [ev_send("E", fr(tc, P.MT_SUBSCRIBE, P.p_sub(t), src_mod_id=IDS["D"])) for t in esubs] + [["settle"]]
                f = out_frames(tc, "D")
                leave = {"fin": [["fin", "D"]], "rst": [["rst", "D"]], "DISCONNECT": [ev_send("D", f["DISCONNECT"])], "mid": [ev_send("D", f["DATA"][:50]), ["rst", "D"]]}[how]
                out.append(dict(tc=tc, grace=grace, flip=flip, pre=pre, leave=leave, orders=False, leavers=[("D", "subscribed")], label=f"sibling-stays/{how}/{len(dsubs)}-{len(esubs)}",
                                then_fin=["D"] if how == "DISCONNECT" else [], twin=True))
        for early in ((T1,), (T1, T2)):
            pre = [["conn", "D"], ["settle"]] + [ev_send("D", fr(tc, P.MT_SUBSCRIBE, P.p_sub(t), src_mod_id=IDS["S"])) for t in early] + [["settle"]]
            out.append(dict(tc=tc, grace=grace, flip=flip, pre=pre, leave=[ev_send("D", v2(tc, "D", mid=IDS["S"]))], orders=False, leavers=[("D", "refused")],
                            label=f"refused/dup-id-after-requests/{len(early)}", then_fin=["D"], refused=True))
        # two leavers in the same round
        ways = ["fin", "rst", "DISCONNECT", "mid"]
        ppos = ("subscribed", "suball", "logger") if tier == "thorough" else ("subscribed", "suball")
        for p1, p2 in itertools.product(ppos, repeat=2):
            pre = position_events(tc, "D", p1) + position_events(tc, "E", p2)
            for w1, w2 in itertools.product(ways, repeat=2):
                leave = []
                fins = []
                for slot, wy in (("D", w1), ("E", w2)):
                    f = out_frames(tc, slot)
                    if wy in ("fin", "rst"):
                        leave.append([wy, slot])
                    elif wy == "DISCONNECT":
                        leave.append(ev_send(slot, f["DISCONNECT"]))
                        fins.append(slot)
                    else:
                        leave += [ev_send(slot, f["DATA"][:50]), ["rst", slot]]
                for with_pub in (False, True):
                    lv = leave + ([ev_send("P", fr(tc, T1, b"pair", src_mod_id=IDS["P"]))] if with_pub else [])
                    out.append(dict(tc=tc, grace=grace, flip=flip, pre=pre, leave=lv, orders=True, leavers=[("D", p1), ("E", p2)],
                                    label=f"pair/{p1}:{w1}+{p2}:{w2}{'+pub' if with_pub else ''}", then_fin=fins))
    # the leaver itself is not writable in the round in which its departure is found (it had stopped reading, then left);
    # single leavers, every way of leaving except the byte-offset sweeps
    for sc in list(out):
        if len(sc["leavers"]) == 1 and sc["leavers"][0][0] == "D" and "nonwritable" not in sc and "[:" not in sc["label"] and not sc.get("twin"):
            out.append(dict(sc, nonwritable=["D"], label=sc["label"] + "/leaver-not-writable"))
    # nobody subscribes to CLIENT_CLOSED by its number: the observers hear of departures through ALL_MESSAGE_TYPES
    for sc in list(out):
        if len(sc["leavers"]) == 1 and sc["leavers"][0][0] == "D" and "nonwritable" not in sc and "[:" not in sc["label"] and not sc.get("twin"):
            out.append(dict(sc, monitor_all=True, label=sc["label"] + "/observers-by-ALL-only"))
    return out


def execute(args) -> Dict[str, Any]:
    sc, order = args
    tc = sc["tc"]
    mmx.fresh_gc()
    slots = ["M", "S", "P", "D", "E", "G"]
    hv = [1, 2, 3, 4, 5, 6]
    if sc["flip"]:
        hv.reverse()
    env = lock.Env(timecode=tc, fin_grace=sc["grace"], hids=dict(zip(slots, hv)))
    probs: List[Dict[str, Any]] = []
    nready = 0
    try:
        for ev in setup_events(tc, bool(sc.get("monitor_all"))) + sc["pre"]:
            env.apply(ev)
        closed_before = sum(1 for k in env.received["M"] if k[0] == "closed")
        for ev in sc["leave"]:
            env.apply(ev)
        nready = env.nready()
        if order >= mmx.factorial(nready):
            return {"skipped": True, "problems": [], "nready": nready}
        env.round(order, sc.get("nonwritable", []))
        env.settle()
        for s in sc.get("then_fin", []):
            env.apply(["fin", s])
        env.settle()
        probs += [dict(p) for p in env.problems]
        if sc.get("twin") and not env.dead:
            # the sibling that stays is still served (lock step decides): broadcast, addressed to the shared id, another type
            nb = len(env.problems)
            env.apply(ev_send("P", fr(tc, T1, b"to-all", src_mod_id=IDS["P"]) + fr(tc, T1, b"to-id", src_mod_id=IDS["P"], dest_mod_id=IDS["D"])
                              + fr(tc, T2, b"t2", src_mod_id=IDS["P"])))
            env.settle()
            probs += [dict(p) for p in env.problems[nb:]]
        elif not env.dead and not _own(probs):
            # (b) independent oracle
            closed = [k for k in env.received["M"] if k[0] == "closed"][closed_before:]
            want = len(sc["leavers"])
            if len(closed) != want:
                probs.append({"prop": "C07", "kind": "closed-count", "expected": want, "got": [list(k) for k in closed]})
            for slot, pos in sc["leavers"]:
                if pos in ("accepted", "refused"):
                    continue
                desc = [k for k in closed if k[1] == IDS[slot] and k[2] == NAMES[slot].decode()]
                if len(desc) != 1:
                    probs.append({"prop": "C07", "kind": "closed-description", "slot": slot, "got": [list(k) for k in closed]})
                elif desc[0][3] != (1 if pos == "logger" else 0) or desc[0][4] != 1 or desc[0][5] != 4000 + IDS[slot]:
                    probs.append({"prop": "C07", "kind": "closed-fields", "slot": slot, "got": list(desc[0])})
            # immediate reconnect with the same id and name
            nb = len(env.problems)
            for slot, pos in sc["leavers"]:
                env.apply(["conn", slot])
                env.apply(ev_send(slot, v2(tc, slot) + fr(tc, P.MT_CONNECT, P.p_connect(), src_mod_id=IDS[slot])))
            env.settle()
            for slot, pos in sc["leavers"]:
                acks = [k for k in env.received[slot] if k[0] == "ack"]
                if acks != [("ack", IDS[slot])]:
                    probs.append({"prop": "C07", "kind": "reconnect-refused", "slot": slot, "got": [list(k) for k in env.received[slot]][:4]})
            # the survivor is still served
            n0 = len(env.received["S"])
            env.apply(ev_send("P", fr(tc, T1, b"afterwards", src_mod_id=IDS["P"]) + fr(tc, T2, b"t2", src_mod_id=IDS["P"])
                              + fr(tc, 1003, b"t3", src_mod_id=IDS["P"], dest_mod_id=IDS["D"])))
            env.settle()
            got = [k for k in env.received["S"][n0:] if k[0] == "fwd" and k[3] == b"afterwards"]
            if len(got) != 1:
                probs.append({"prop": "C07", "kind": "survivor-not-served", "got": len(got)})
            probs += [dict(p) for p in env.problems[nb:]]
        hist = env.hist[:]
    finally:
        env.close()
    return {"skipped": False, "problems": probs, "nready": nready, "events": len(hist), "rounds": env.rounds}


def _own(probs):
    return any(p["prop"] in ("C07", "C03", "C01") or (p["prop"] == "C19" and p.get("slot") in ("G", "S", "P", "M")) for p in probs)


def full_pool(args) -> Dict[str, Any]:
    """every dynamic id is held; one holder leaves (the first, a middle one, the last but one, the last admitted); the very next
    request for a dynamic id is acknowledged with an id nobody holds"""
    _tag, tc, which, how = args
    mmx.fresh_gc()
    n = P.MAX_MODULES - P.DYN_MOD_ID_START
    env = lock.Env(timecode=tc, fin_grace=0, hids={"M": 1, "S": 2, "P": 3})
    probs: List[Dict[str, Any]] = []
    try:
        for ev in setup_events(tc):
            env.apply(ev)
        held = {}
        for i in range(n):
            s = f"H{i}"
            env.apply(["conn", s])
            env.apply(ev_send(s, fr(tc, P.MT_CONNECT_V2, P.p_connect_v2(0, 0, 0, 0, 9, b""))))
            env.settle()
            if env.dead:
                break
            acks = [k for k in env.received.get(s, []) if k[0] == "ack"]
            if len(acks) != 1:
                probs.append({"prop": "C07", "kind": "pool-not-filled", "at": i})
                break
            held[s] = acks[0][1]
        if not probs and not env.dead:
            leaver = {"first": "H0", "middle": f"H{n // 2}", "last-but-one": f"H{n - 2}", "last": f"H{n - 1}"}[which]
            freed = held.pop(leaver)
            if how == "DISCONNECT":
                env.apply(ev_send(leaver, fr(tc, P.MT_DISCONNECT, src_mod_id=freed)))
                env.settle()
                env.apply(["fin", leaver])
            else:
                env.apply([how, leaver])
            env.settle()
            for k in range(2):
                s = f"N{k}"
                env.apply(["conn", s])
                env.apply(ev_send(s, fr(tc, P.MT_CONNECT_V2, P.p_connect_v2(0, 0, 0, 0, 9, b""))))
                env.settle()
                if env.dead:
                    break  # (the manager's death is among env.problems)
                acks = [a for a in env.received.get(s, []) if a[0] == "ack"]
                if k == 0:
                    if len(acks) != 1 or acks[0][1] in held.values() or not (P.DYN_MOD_ID_START <= acks[0][1] < P.MAX_MODULES):
                        probs.append({"prop": "C07", "kind": "dynamic-id-not-reusable", "leaver": which, "freed": freed, "acks": [list(a) for a in acks]})
                        break
                    held[s] = acks[0][1]
        probs += [dict(p) for p in env.problems if p["prop"] in ("C07", "C03", "C19", "C06")]
    finally:
        env.close()
    return {"problems": probs, "rounds": env.rounds}


def dynamic_churn(args) -> Dict[str, Any]:
    """more dynamic clients come and go (in every way of leaving) than there are dynamic ids: every connect must be acknowledged"""
    if args[0] == "pool":
        return full_pool(args)
    tc, flip, cycles = args
    mmx.fresh_gc()
    env = lock.Env(timecode=tc, fin_grace=0, hids={"M": 1, "S": 2, "P": 3, "D": 5 if flip else 4, "E": 4 if flip else 5})
    probs: List[Dict[str, Any]] = []
    try:
        for ev in setup_events(tc):
            env.apply(ev)
        ways = ("DISCONNECT", "fin", "rst", "mid")
        for n in range(cycles):
            env.apply(["conn", "D"])
            env.apply(ev_send("D", fr(tc, P.MT_CONNECT_V2, P.p_connect_v2(0, 0, 0, 0, 9, b"dyn"))))
            env.settle()
            acks = [k for k in env.received["D"] if k[0] == "ack"]
            if len(acks) != 1 or not (P.DYN_MOD_ID_START <= acks[0][1] < P.MAX_MODULES):
                probs.append({"prop": "C07", "kind": "dynamic-id-not-reusable", "cycle": n, "acks": [list(a) for a in acks]})
                break
            way = ways[n % len(ways)]
            if way == "DISCONNECT":
                env.apply(ev_send("D", fr(tc, P.MT_DISCONNECT, src_mod_id=acks[0][1])))
                env.settle()
                env.apply(["fin", "D"])
            elif way == "mid":
                env.apply(ev_send("D", fr(tc, T1, b"cut short", src_mod_id=acks[0][1])[:50]))
                env.apply(["rst", "D"])
            else:
                env.apply([way, "D"])
            env.settle()
            if env.dead:
                break
        probs += [dict(p) for p in env.problems if p["prop"] in ("C07", "C03", "C19")]
    finally:
        env.close()
    return {"problems": probs, "rounds": env.rounds}


def async_case(args) -> Dict[str, Any]:
    """the leaver dies WHILE the manager is writing (right before the manager's k-th send call of a round): during a forward,
    an acknowledgement + CLIENT_INFO, or the periodic ACTIVE_CLIENTS / CLIENT_INFO broadcast. No reference model: the
    statement's own clauses are checked on what the monitor and the survivors receive."""
    tc, role, how, k, trig = args
    mmx.fresh_gc()
    w = mmx.World(timecode=tc)
    probs: List[Dict[str, Any]] = []
    info_after_closed = 0
    fired = False
    try:
        def join(slot, hid, mid, name, logger=0, subs=()):
            c = w.client(slot, hid).connect()
            w.settle()
            c.send(P.mkframe(P.MT_CONNECT_V2, P.p_connect_v2(logger, 0, 0, mid, 4000 + mid, name), timecode=tc, src_mod_id=mid)
                   + P.mkframe(P.MT_CONNECT, P.p_connect(logger, 0), timecode=tc, src_mod_id=mid))
            w.settle()
            for t in subs:
                c.send(P.mkframe(P.MT_SUBSCRIBE, P.p_sub(t), timecode=tc, src_mod_id=mid))
            w.settle()
            return c

        M = join("M", 1, 90, b"mon", subs=(P.MT_CLIENT_INFO, P.MT_CLIENT_CLOSED, P.MT_ACTIVE_CLIENTS, P.MT_FAILED_MESSAGE))
        S = join("S", 2, 31, b"ess", subs=(T1,))
        Pp = join("P", 3, 21, b"pee")
        dsubs = {"infosub": (P.MT_CLIENT_INFO,), "suball": (ALL,), "logger": (ALL,), "subscribed": (T1, P.MT_ACTIVE_CLIENTS),
                 "trafficsub": (P.MT_MESSAGE_TRAFFIC,), "timingsub": (P.MT_TIMING_MESSAGE,)}[role]
        D = join("D", 4, 41, b"dee", logger=1 if role == "logger" else 0, subs=dsubs)
        E = join("E", 5, 42, b"eee", subs=(P.MT_CLIENT_INFO,) + (dsubs if trig == "reports" else ()))
        if trig == "reports":
            # 70 distinct types in one statistics interval: the traffic report spans two sub-messages; the leaver is found dead
            # while the report goes out
            w.tick(1.05)
            w.step()
            w.settle()
            Pp.send(b"".join(P.mkframe(3000 + i, b"", timecode=tc, src_mod_id=21) for i in range(70)))
            w.settle(limit=10 ** 4)
            E.drain()
        M.drain()
        S.drain()
        w.kill_plan = (k, [D], how)  # k counts the manager's send calls of the coming round
        if trig == "reports":
            w.tick(1.05)
            w.step()
        elif trig == "tick":
            w.tick(5.2)
            w.step()
        elif trig == "publish":
            Pp.send(P.mkframe(T1, b"now!", timecode=tc, src_mod_id=21))
        else:
            Pp.send(P.mkframe(P.MT_MODULE_READY, P.P_READY.pack(9), timecode=tc, src_mod_id=21) + P.mkframe(P.MT_SUBSCRIBE, P.p_sub(1003), timecode=tc, src_mod_id=21))
        w.settle()
        fired = w.kill_plan is None
        w.kill_plan = None
        if not w.alive:
            probs.append({"prop": "C03", "kind": "manager-died", "detail": str((w.exit or ("", ""))[1])[:200]})
        elif fired:
            seen = [P.normalize(f) for f in M.drain()]
            closed = [x for x in seen if x[0] == "closed" and x[1] == 41]
            if len(closed) != 1:
                probs.append({"prop": "C07", "kind": "closed-count", "expected": 1, "got": [list(x) for x in seen if x[0] == "closed"]})
            elif closed[0][2] != "dee" or closed[0][3] != (1 if role == "logger" else 0) or closed[0][5] != 4041:
                probs.append({"prop": "C07", "kind": "closed-fields", "got": list(closed[0])})
            if closed:
                i = seen.index(closed[0])
                info_after_closed = sum(1 for x in seen[i + 1:] if x[0] == "info" and x[1] == 41)
            # the id and the name are free at once
            D2 = w.client("D2", 6).connect()
            w.settle()
            D2.send(P.mkframe(P.MT_CONNECT_V2, P.p_connect_v2(0, 0, 0, 41, 4041, b"dee"), timecode=tc, src_mod_id=41))
            w.settle()
            if [P.normalize(f) for f in D2.drain() if P.normalize(f)[0] == "ack"] != [("ack", 41)]:
                probs.append({"prop": "C07", "kind": "reconnect-refused", "slot": "D"})
            # delivery among the others is unaffected: the message in flight and the next one
            got = [P.normalize(f) for f in S.drain()]
            want_now = 1 if trig == "publish" else 0
            if sum(1 for x in got if x[0] == "fwd" and x[3] == b"now!") != want_now:
                probs.append({"prop": "C07", "kind": "survivor-missed-the-message-in-flight", "got": len(got)})
            Pp.send(P.mkframe(T1, b"next", timecode=tc, src_mod_id=21))
            w.settle()
            if sum(1 for f in S.drain() if f.payload == b"next") != 1:
                probs.append({"prop": "C07", "kind": "survivor-not-served"})
            if trig == "reports":
                # the other subscriber of the report still receives all of it
                nrep = sum(1 for f in E.drain() if f.msg_type == dsubs[0])
                if nrep != (2 if role == "trafficsub" else 1):
                    probs.append({"prop": "C07", "kind": "survivor-missed-part-of-the-report", "got": nrep, "expected": 2 if role == "trafficsub" else 1})
            # ... and the departed connection receives nothing any more
            if not w.alive:
                probs.append({"prop": "C03", "kind": "manager-died", "detail": str((w.exit or ("", ""))[1])[:200]})
    finally:
        w.stop()
    return {"problems": probs, "fired": fired, "rounds": w.rounds, "info_after_closed": info_after_closed}


def run_async_chunk(items):
    return [async_case(a) for a in items]


def async_cases(tier: str):
    out = []
    for tc in ((False,) if tier == "quick" else (False, True)):
        for role in ("infosub", "suball", "logger", "subscribed"):
            for how in ("rst", "fin"):
                for trig, kmax in (("tick", 40), ("publish", 12), ("ctl", 16)):
                    for k in range(1, kmax + 1):
                        out.append((tc, role, how, k, trig))
        for role in ("trafficsub", "timingsub"):
            for how in ("rst", "fin"):
                for k in range(1, 7):
                    out.append((tc, role, how, k, "reports"))
    return out


def run_case(sc) -> List[Dict[str, Any]]:
    res = []
    k = 0
    n = 1
    while k < n:
        r = execute((sc, k))
        if r["skipped"]:
            break
        if sc["orders"]:
            n = mmx.factorial(r["nready"])
        r["order"] = k
        res.append(r)
        k += 1
    return res


def run_chunk(scs):
    return [run_case(sc) for sc in scs]


def run(tier: str) -> int:
    chk = core.Check("C07", tier, "model_checking",
                     "exhaustive enumeration of leaver position x way/moment of leaving (every byte offset of outgoing "
                     "frames, FIN/RST/DISCONNECT/refusal, discovery on the read or write side) x second leaver x every "
                     "service order x hash order x fin_grace, each executed on the real MessageManager in lock step with "
                     "the reference hub; plus reference-independent checks (exactly one CLIENT_CLOSED describing the "
                     "leaver, immediate reconnect with same id+name acknowledged, survivor still served).")
    scs = scenarios(tier)
    chunks = core.chunks(core.shuffled(scs, "c07"), 12)
    res = core.pmap(run_chunk, chunks)
    churn_args = [(False, False, 104), (True, True, 104)] if tier == "quick" else [(False, False, 230), (True, True, 230), (False, True, 104)]
    churn_args += [("pool", tc_, which, how) for tc_ in ((False,) if tier == "quick" else (False, True)) for which in ("first", "middle", "last-but-one", "last")
                   for how in ("DISCONNECT", "fin", "rst")]
    churn = core.pmap(dynamic_churn, churn_args)
    acs = async_cases(tier)
    achunks = core.chunks(acs, 24)
    ares = core.pmap(run_async_chunk, achunks)
    core.close_pool()
    flat = [s for ch in chunks for s in ch]
    i = 0
    execs = rounds = 0
    labels = set()
    for ch in res:
        for rs in ch:
            sc = flat[i]
            i += 1
            labels.add(sc["label"].split("[")[0])
            for r in rs:
                execs += 1
                rounds += r.get("rounds", 0)
                for p in r["problems"]:
                    # "delivery among the remaining clients is unaffected" is part of this statement: data-frame problems at
                    # survivors count here too; notices / acknowledgements belong to C14 / C19
                    leavers = {l[0] for l in sc["leavers"]}
                    if p["prop"] == "C19" and p.get("slot") in ("G", "S", "P", "M") and p.get("slot") not in leavers:
                        pass  # an acknowledgement (copy) owed to a client that stays: "delivery among the remaining clients"
                    elif p["prop"] not in ("C07", "C03", "C01"):
                        chk.count(f"other_property_{p['prop']}_{p['kind']}")
                        continue
                    fk = p.get("frame", [""])[0] if isinstance(p.get("frame"), list) else ""
                    chk.violation(f"{'C07' if p['prop'] == 'C19' else p['prop']}:{p['kind']}:{fk}", f"{sc['label']} order={r['order']}: {p}",
                                  {"module": "vf.checks.c07", "scenario": sc, "order": r["order"]},
                                  size=len(sc["pre"]) + len(sc["leave"]) * 3 + (50 if len(sc["leavers"]) > 1 else 0))
    for a, r in zip(churn_args, churn):
        execs += 1
        rounds += r["rounds"]
        for p in r["problems"]:
            chk.violation(f"{p['prop']}:{p['kind']}:churn", f"dynamic churn {a}: {p}", {"module": "vf.checks.c07", "churn": list(a)}, size=5000)
    fired = 0
    for ch, rs in zip(achunks, ares):
        for a, r in zip(ch, rs):
            if not r["fired"]:
                continue  # the round had fewer send calls than k: nobody died
            fired += 1
            execs += 1
            rounds += r["rounds"]
            chk.count("client_info_about_the_leaver_after_its_client_closed", r["info_after_closed"])  # an observation, not a clause of the statement
            for p in r["problems"]:
                chk.violation(f"{p['prop']}:{p['kind']}:async", f"death before the manager's send #{a[3]} of a {a[4]} round, leaver {a[1]}/{a[2]}: {p}",
                              {"module": "vf.checks.c07", "async": list(a)}, size=2000 + a[3])
    chk.count("asynchronous_deaths", fired)
    chk.sample({"label": scs[0]["label"], "leave": scs[0]["leave"]})
    chk.sample({"label": scs[-1]["label"], "leave": scs[-1]["leave"]})
    chk.assumptions += ["virtual TCP model (vf.net)", "reference hub (vf/spec.py)", "one or two leavers, one survivor, one monitor"]
    return chk.finish({"states": execs, "transitions": rounds, "traces_validated_against_impl": execs,
                       "scenario_classes": len(labels), "scenarios": len(scs)})


def replay(case) -> int:
    if "churn" in case:
        r = dynamic_churn(tuple(case["churn"]))
        for p in r["problems"]:
            print("  PROBLEM:", p)
        print("reproduced" if r["problems"] else "NOT reproduced")
        return 1 if r["problems"] else 0
    if "async" in case:
        a = tuple(case["async"])
        r1, r2 = async_case(a), async_case(a)
        if str(r1["problems"]) != str(r2["problems"]):
            print("HARNESS-ERROR: non-deterministic replay")
            return 2
        print(f"  asynchronous death: leaver {a[1]} ({a[2]}) right before the manager's send call #{a[3]} of a {a[4]} round, timecode={a[0]}")
        for p in r1["problems"]:
            print("  PROBLEM:", p)
        print("reproduced" if r1["problems"] else "NOT reproduced")
        return 1 if r1["problems"] else 0
    sc, order = case["scenario"], case["order"]
    r1 = execute((sc, order))
    r2 = execute((sc, order))
    if str(r1["problems"]) != str(r2["problems"]):
        print("HARNESS-ERROR: non-deterministic replay")
        return 2
    print(f"  scenario {sc['label']} order={order} tc={sc['tc']} grace={sc['grace']} flip={sc['flip']}")
    for ev in sc["pre"] + sc["leave"]:
        print("   ", ev if ev[0] != "send" else ["send", ev[1], f"{len(ev[2]) // 2} bytes"])
    for p in r1["problems"]:
        print("  PROBLEM:", p)
    print("reproduced" if r1["problems"] else "NOT reproduced")
    return 1 if r1["problems"] else 0
