"""C08 - the client read path is faithful, filtered and self-resynchronising.

Engine: the real pyrtma Client whose connection is fed from a scripted byte stream on the virtual
network (no manager). Enumerated: every sequence of <= 3 (quick) / <= 4 (thorough) incoming frames
over the frame-kind alphabet x read_message parameters (timeout in {0, 0.1, -1, None}, ack,
sync_check) ; with bounded deviations: one subscription change inserted between any two reads;
the peer closing (FIN / RST) at EVERY byte offset of the stream; both header layouts.

Oracle: the reference reader of DESIGN.md appendix B, run over the same bytes, gives call by call
the expected message (header except recv_time, data bytes) or exception class; after an undecodable
frame the next call must return the following frame intact; nothing outside the current
subscription is returned (ACK only with ack=True); loss of the connection surfaces as
ConnectionLost and leaves client.connected False.
"""
from __future__ import annotations

import ctypes
import itertools
import warnings
from typing import Any, Dict, List, Optional, Sequence, Tuple

from .. import clx, core, mmx, net as N, proto as P

S8, U8, Z8, G0, UNK = 1001, 1002, 1003, 1004, 1999
L8 = 1005  # a legacy ("v1") definition: plain ctypes fields, registered with @msg_def - no type_hash, no type_size
HUGE = (1 << 20) + 5  # a payload larger than any buffer the client allocates in advance
HASH = {S8: 0x51515151, U8: 0x52525252, Z8: 0x53535353, G0: 0x54545454}
SIZE = {S8: 8, U8: 8, Z8: 8, G0: 0, P.MT_ACKNOWLEDGE: 0, L8: 8}
_DEFS = False


def ensure_defs():
    global _DEFS
    if _DEFS:
        return
    import pyrtma
    from pyrtma.message_data import MessageData
    from pyrtma.message_base import MessageMeta

    for mt, n in ((S8, 8), (U8, 8), (Z8, 8), (G0, 0)):
        ns = {"type_id": mt, "type_name": f"VF8_{mt}", "type_hash": HASH[mt], "type_size": n, "type_source": "vf", "type_def": ""}
        if n:
            ns["_fields_"] = [("raw", ctypes.c_ubyte * n)]
        pyrtma.message_def(MessageMeta(f"MDF_VF8_{mt}", (MessageData,), ns))

    class MDF_VF8_LEGACY(MessageData):
        _fields_ = [("raw", ctypes.c_ubyte * 8)]
        type_id = L8
        type_name = "VF8_LEGACY"

    pyrtma.msg_def(MDF_VF8_LEGACY)
    _DEFS = True


# ---- the frame-kind alphabet ----------------------------------------------------------------------
KINDS = ["good", "unsub", "paused", "ack", "signal", "unk0", "unkN", "smaller", "larger", "zero-for-sized",
         "nonzero-for-signal", "badver", "ver0"]


def mk(kind: str, tc: bool, i: int) -> bytes:
    pay = bytes((i * 16 + k) & 0xFF for k in range(12))
    kw = dict(src_mod_id=21, send_time=1.0 + i, msg_count=i + 1, dest_mod_id=0)
    if tc:
        kw.update(utc_seconds=100 + i, utc_fraction=7)
    f = lambda mt, p, **k2: P.mkframe(mt, p, timecode=tc, **{**kw, **k2})
    if kind == "good":
        return f(S8, pay[:8], reserved=HASH[S8])
    if kind == "unsub":
        return f(U8, pay[:8], reserved=HASH[U8])
    if kind == "paused":
        return f(Z8, pay[:8], reserved=HASH[Z8])
    if kind == "ack":
        return f(P.MT_ACKNOWLEDGE, b"", src_mod_id=0, dest_mod_id=33)
    if kind == "signal":
        return f(G0, b"", reserved=HASH[G0])
    if kind == "unk0":
        return f(UNK, b"")
    if kind == "unkN":
        return f(UNK, pay[:5])
    if kind == "smaller":
        return f(S8, pay[:4], reserved=HASH[S8])
    if kind == "larger":
        return f(S8, pay[:12], reserved=HASH[S8])
    if kind == "zero-for-sized":
        return f(S8, b"", reserved=HASH[S8])
    if kind == "nonzero-for-signal":
        return f(G0, pay[:4], reserved=HASH[G0])
    if kind == "smaller-badver":  # wrong in two ways at once: what a sender with out-of-date definitions produces
        return f(S8, pay[:4], reserved=HASH[S8] ^ 1)
    if kind == "larger-badver":
        return f(S8, pay[:12], reserved=HASH[S8] ^ 0x100)
    if kind == "badver":
        return f(S8, pay[:8], reserved=HASH[S8] ^ 1)
    if kind == "ver0":
        return f(S8, pay[:8], reserved=0)
    # frames of the legacy type (senders of that generation leave the version field empty)
    if kind == "leg-good":
        return f(L8, pay[:8], reserved=0)
    if kind == "leg-smaller":
        return f(L8, pay[:4], reserved=0)
    if kind == "leg-larger":
        return f(L8, pay[:12], reserved=0)
    if kind == "leg-zero":
        return f(L8, b"", reserved=0)
    # undecodable frames with a payload of more than a megabyte
    if kind == "unk-huge":
        return f(UNK, (pay * (HUGE // 12 + 1))[:HUGE])
    if kind == "larger-huge":
        return f(S8, (pay * (HUGE // 12 + 1))[:HUGE], reserved=HASH[S8])
    raise KeyError(kind)


CHANGES = ["sub-U", "unsub-S", "pause-S", "sub-all", "unsub-all", "resume-Z", "pause-all", "pause-all-api", "unsub-ALL", "resume-all-api",
           # two changes in a row (what the first one leaves behind in the client's bookkeeping meets the second), and a
           # subscription context over a mixed list (one type paused on entry, one not subscribed at all): left as entered
           "unsub-ALL+sub-U", "pause-all+sub-U", "unsub-ALL+resume-Z", "pause-all+sub-U+pause-S", "unsub-ALL+sub-U+unsub-S", "ctx-ZU", "ctx-SU", "pctx-SZ"]


def apply_change(c, ch):
    if "+" in ch:
        for part in ch.split("+"):
            apply_change(c, part)
        return
    if ch == "ctx-ZU":
        with c.subscription_context([Z8, U8]):
            pass
    elif ch == "ctx-SU":
        with c.subscription_context([S8, U8]):
            pass
    elif ch == "pctx-SZ":
        with c.paused_subscription_context([S8, Z8]):
            pass
    elif ch == "sub-U":
        c.subscribe([U8])
    elif ch == "unsub-S":
        c.unsubscribe([S8])
    elif ch == "pause-S":
        c.pause_subscription([S8])
    elif ch == "sub-all":
        c.subscribe([P.ALL_MESSAGE_TYPES])
    elif ch == "unsub-all":
        c.unsubscribe_from_all()
    elif ch == "resume-Z":
        c.resume_subscription([Z8])
    elif ch == "pause-all":
        c.pause_subscription([P.ALL_MESSAGE_TYPES])
    elif ch == "pause-all-api":
        c.pause_all_subscriptions()
    elif ch == "unsub-ALL":
        c.unsubscribe([P.ALL_MESSAGE_TYPES])
    elif ch == "resume-all-api":
        c.resume_all_subscriptions()


def model_change(st, ch):
    if "+" in ch:
        for part in ch.split("+"):
            st = model_change(st, part)
        return st
    if ch in ("ctx-ZU", "ctx-SU", "pctx-SZ"):
        return st  # a context leaves the subscriptions as it found them
    subs, all_ = set(st[0]), st[1]
    if ch == "sub-all":
        return (set(), True)
    if ch in ("pause-all", "unsub-ALL"):
        return (set(), False)  # ALL in the list: everything is dropped, also while subscribed to all
    if all_:
        if ch in ("unsub-all", "pause-all-api"):
            return (set(), False)  # the helpers pass the reported set, which is {ALL}
        return (subs, all_)  # individual changes are refused while subscribed to all
    if ch == "sub-U":
        subs.add(U8)
    elif ch in ("unsub-S", "pause-S"):
        subs.discard(S8)
    elif ch == "unsub-all":
        subs = set()
    elif ch == "resume-Z":
        subs.add(Z8)
    elif ch == "pause-all-api":
        subs = set()
    elif ch == "resume-all-api":
        subs.add(Z8)  # the only paused type of the initial state
    return (subs, all_)


# ---- reference reader (appendix B) ------------------------------------------------------------------

class RefReader:
    def __init__(self, stream: bytes, close: Optional[Tuple[str, int]], tc: bool):
        self.hs = P.hstruct(tc)
        self.tc = tc
        self.buf = stream if close is None else stream[:close[1]]
        self.close = close[0] if close else None
        self.pos = 0
        self.lost = False
        self.rst_pending = self.close == "rst"

    def avail(self):
        return len(self.buf) - self.pos

    def call(self, subs, sub_all, timeout, ack, sync_check):
        """returns a list of acceptable outcomes for this call; each outcome is
        ('msg', header_without_recv_time, payload) | ('exc', name) | ('none',) | ('block',)"""
        while True:
            if self.avail() < self.hs.size:
                if self.close is None:
                    if self.avail() == 0:
                        return [("none",)] if (timeout is not None and timeout >= 0) else [("block",)]
                    return [("block",)]
                self.pos = len(self.buf)
                self.lost = True
                return [("exc", "ConnectionLost")]
            h = self.hs.unpack_from(self.buf, self.pos)
            mt, nb = h[0], h[8]
            body0 = self.pos + self.hs.size
            have = len(self.buf) - body0
            bad = None
            if mt not in SIZE:
                bad = "UnknownMessageType"
            elif SIZE[mt] != nb:
                bad = "InvalidMessageDefinition"
            elif sync_check and h[11] != 0 and mt in HASH and h[11] != HASH[mt]:
                bad = "InvalidMessageDefinition"
            if bad:
                cut = have < max(nb, 0)
                if cut and self.close is None:
                    return [("block",)]
                self.pos = min(len(self.buf), body0 + max(nb, 0))
                # a frame cut short by the close: the decode error may come first (ConnectionLost follows on the
                # next call) or the loss is reported at once - both are accepted
                return [("exc", bad), ("exc", "ConnectionLost")] if cut else [("exc", bad)]
            if have < nb:
                if self.close is None:
                    return [("block",)]
                self.pos = len(self.buf)
                self.lost = True
                return [("exc", "ConnectionLost")]
            payload = self.buf[body0:body0 + nb]
            self.pos = body0 + nb
            wanted = sub_all or mt in subs or (ack and mt == P.MT_ACKNOWLEDGE)
            if wanted:
                return [("msg", h[:3] + h[4:], payload)]
            if timeout == 0:
                return [("none",)]
            # otherwise keep reading


def run_case(case) -> Dict[str, Any]:
    """case = dict(tc, kinds=[...], timeout, ack, sync, change=(pos, name)|None, close=(how, offset)|None)"""
    tc = case["tc"]
    ensure_defs()
    mmx.fresh_gc()
    import pyrtma.client as CL

    stream = b"".join(mk(k, tc, i) for i, k in enumerate(case["kinds"]))
    close = tuple(case["close"]) if case.get("close") else None
    sp = clx.ScriptedPeer(timecode=tc)
    sp.net.cli_clock.step = case.get("clock_step", 0.0)
    c = sp.client
    probs: List[Dict[str, Any]] = []
    outcomes: List[Tuple] = []
    kept: List[Tuple] = []  # every returned message stays alive: later reads must not change it
    try:
        with warnings.catch_warnings():
            warnings.simplefilter("ignore")
            c.subscribe([S8, G0, Z8])
            c.pause_subscription([Z8])
            st = ({S8, G0}, False)
            if case.get("legacy"):
                c.subscribe([L8])
                st = ({S8, G0, L8}, False)
            if case.get("init") == "all":
                c.subscribe([P.ALL_MESSAGE_TYPES])
                st = (set(), True)
            if case.get("sent"):
                c.send_signal(G0, dest_mod_id=7, dest_host_id=0, timeout=0.25)
                c.send_message(CL.cd.MDF_MODULE_READY(), timeout=0.5)
                c.send_signal(G0)
            ref = RefReader(stream, close, tc)
            if close is None:
                if case.get("split"):
                    # the same bytes in two TCP segments (a recv without MSG_WAITALL stops at the segment end)
                    sp.feed(stream[:case["split"]])
                    sp.feed(stream[case["split"]:])
                else:
                    sp.feed(stream)
            else:
                if close[1]:
                    sp.feed(stream[:close[1]])
                if close[0] == "fin":
                    sp.peer.rx.clear()  # the server has read what the client wrote: an orderly close, not a reset
                    sp.peer.close()
                else:
                    sp.peer.reset()
            change = case.get("change")
            ncalls = 2 * len(case["kinds"]) + 3
            for k in range(ncalls):
                if change and change[0] == k and c.connected:
                    try:
                        apply_change(c, change[1])
                    except CL.InvalidSubscription:
                        pass
                    except CL.ConnectionLost:
                        pass
                    st = model_change(st, change[1])
                exp = ref.call(st[0], st[1], case["timeout"], case["ack"], case["sync"])
                try:
                    m = c.read_message(timeout=case["timeout"], ack=case["ack"], sync_check=case["sync"])
                    if m is None:
                        got = ("none",)
                    else:
                        hb = bytes(m.header)
                        h = P.hstruct(tc).unpack(hb)
                        got = ("msg", h[:3] + h[4:], bytes(m.data))
                        kept.append((k, m, hb, bytes(m.data)))
                        # filtering, independent of the reference
                        mt = h[0]
                        if not c._sub_all and mt not in c.subscribed_types and not (case["ack"] and mt == P.MT_ACKNOWLEDGE):
                            probs.append({"kind": "returned-unsubscribed-type", "call": k, "msg_type": mt})
                except N.WouldBlock:
                    got = ("block",)
                except CL.ConnectionLost:
                    got = ("exc", "ConnectionLost")
                    if c.connected:
                        probs.append({"kind": "connected-after-ConnectionLost", "call": k})
                except CL.UnknownMessageType:
                    got = ("exc", "UnknownMessageType")
                except CL.InvalidMessageDefinition:
                    got = ("exc", "InvalidMessageDefinition")
                except CL.NotConnectedError:
                    got = ("exc", "NotConnectedError")
                except Exception as e:
                    got = ("exc", f"{type(e).__name__}")
                outcomes.append(got)
                if got not in exp:
                    # tolerated alternative (appendix B): an undecodable frame cut short by the close may report the
                    # decode error first and ConnectionLost on the next call - the reference does exactly that.
                    probs.append({"kind": "read-mismatch", "call": k, "expected": _show(exp[0]), "got": _show(got)})
                    break
                if got[0] == "block" or got == ("exc", "ConnectionLost"):
                    break
                if got == ("none",) and ref.avail() == 0 and close is None:
                    break
        for k, m, hb, db in kept:
            if bytes(m.header) != hb or bytes(m.data) != db:
                probs.append({"kind": "returned-message-changed-by-a-later-read", "call": k})
                break
    finally:
        sp.close()
    return {"problems": probs, "calls": len(outcomes), "sig": tuple(o[0] if o[0] != "exc" else o[1] for o in outcomes)}


def _show(o):
    if o[0] == "msg":
        return ["msg", o[1][0], list(o[1][1:6]), o[2].hex()]
    return list(o)


def cases(tier: str) -> List[Dict[str, Any]]:
    out = []
    maxlen = 3 if tier == "quick" else 4
    params = list(itertools.product((0, 0.1, -1, None), (False, True), (False, True)))
    # base: all sequences x all parameter combinations
    for tc in (False, True):
        for n in range(1, maxlen + 1):
            for seq in itertools.product(KINDS, repeat=n):
                if tc and n == maxlen and tier == "quick":
                    continue
                for to, ack, sync in params:
                    out.append(dict(tc=tc, kinds=list(seq), timeout=to, ack=ack, sync=sync))
                if n <= 2:
                    out.append(dict(tc=tc, kinds=list(seq), timeout=0.1, ack=False, sync=True, init="all"))
                if n >= 2 and not tc:
                    # every clock reading costs 60 ms: a 100 ms budget is spent while frames are being skipped
                    out.append(dict(tc=tc, kinds=list(seq), timeout=0.1, ack=False, sync=False, clock_step=0.06))
                    out.append(dict(tc=tc, kinds=list(seq), timeout=1e-6, ack=True, sync=False, clock_step=0.001))
    # one subscription change between any two reads
    for n in range(1, 3 if tier == "quick" else 4):
        for seq in itertools.product(KINDS, repeat=n):
            for ch in CHANGES:
                for pos in range(0, n + 1):
                    for to, ack, sync in ((0.1, False, False), (0, False, True), (-1, True, False)):
                        out.append(dict(tc=False, kinds=list(seq), timeout=to, ack=ack, sync=sync, change=[pos, ch]))
                    if n <= 2:
                        out.append(dict(tc=False, kinds=list(seq), timeout=0.1, ack=False, sync=False, change=[pos, ch], init="all"))
                        out.append(dict(tc=True, kinds=list(seq), timeout=-1, ack=True, sync=True, change=[pos, ch], init="all"))
    # the peer closes at every byte offset
    for tc in (False, True):
        for n in range(1, 3 if tier == "quick" else 4):
            for seq in itertools.product(KINDS, repeat=n):
                if tc and n > 1 and tier == "quick":
                    continue
                if n == 3 and not all(k in ("good", "unkN", "larger", "unsub", "badver") for k in seq):
                    continue
                total = sum(len(mk(k, tc, i)) for i, k in enumerate(seq))
                for off in range(0, total + 1):
                    for how in ("fin", "rst"):
                        for to, ack, sync in ((0.1, False, False), (-1, False, True)) if n > 1 else params[:8:3] + params[8::3]:
                            out.append(dict(tc=tc, kinds=list(seq), timeout=to, ack=ack, sync=sync, close=[how, off]))
    # frames that are undecodable for two reasons at once, alone / before / after / between every other kind
    for tc in (False, True):
        for k2 in ("smaller-badver", "larger-badver"):
            seqs = [(k2,), (k2, k2)] + [(k2, x) for x in KINDS] + [(x, k2) for x in KINDS] + [(x, k2, "good") for x in ("good", "unsub", "unkN", "badver")]
            for seq in seqs:
                for to, ack, sync in params:
                    if tier == "quick" and tc and to not in (0.1, -1):
                        continue
                    out.append(dict(tc=tc, kinds=list(seq), timeout=to, ack=ack, sync=sync))
                out.append(dict(tc=tc, kinds=list(seq), timeout=0.1, ack=False, sync=True, init="all"))
    # a frame arriving in two segments, cut at every offset, followed by a good frame
    for tc in (False, True):
        for kind in KINDS:
            flen = len(mk(kind, tc, 0))
            for off in range(1, flen):
                for to, ack, sync, init in ((0.1, False, False, None), (-1, True, True, "all")):
                    if tier == "quick" and tc and init is None:
                        continue
                    d = dict(tc=tc, kinds=[kind, "good"], timeout=to, ack=ack, sync=sync, split=off)
                    if init:
                        d["init"] = init
                    out.append(d)
                    if (init is None) != tc:
                        # ... after the client has SENT with the rarely used options (a send timeout, a destination): what a send
                        # call leaves on the connection must not change how the next frames are read
                        out.append(dict(d, sent="options"))
    # several frames with payloads, all kept by the caller, read while subscribed to everything / to single types
    for tc in (False, True):
        for seq in itertools.product(("good", "unsub", "larger", "signal"), repeat=3):
            out.append(dict(tc=tc, kinds=list(seq), timeout=0.1, ack=False, sync=False, init="all"))
    # frames of a type whose local definition is of the legacy kind, right and wrong sizes, among frames of current definitions
    LEG = ("leg-good", "leg-smaller", "leg-larger", "leg-zero", "good", "larger", "unkN")
    for tc in (False, True):
        for n in (1, 2, 3):
            for seq in itertools.product(LEG, repeat=n):
                if not any(k.startswith("leg-") for k in seq) or (n == 3 and (tc or seq[2] not in ("good", "leg-good"))):
                    continue
                for to, ack, sync, init in ((0.1, False, False, None), (0, True, True, None), (-1, False, True, "all")):
                    d = dict(tc=tc, kinds=list(seq), timeout=to, ack=ack, sync=sync, legacy=True)
                    if init:
                        d["init"] = init
                    out.append(d)
    # an undecodable frame carrying more than a megabyte, then ordinary frames
    for tc in (False, True):
        for big in ("unk-huge", "larger-huge"):
            for seq in ((big, "good"), ("good", big, "good"), (big, big, "good"), (big, "unkN", "good")):
                for to, ack, sync in ((0.1, False, False), (-1, True, True)):
                    out.append(dict(tc=tc, kinds=list(seq), timeout=to, ack=ack, sync=sync))
                out.append(dict(tc=tc, kinds=list(seq), timeout=0.1, ack=False, sync=True, split=HUGE // 2))
    # discard_messages() while the tail of a frame is still on its way (cut at every offset)
    for tc in (False, True):
        flen = len(mk("good", tc, 1))
        for cut in range(0, flen + 1):
            for bad_b in (False, True):
                if tier == "quick" and tc and bad_b:
                    continue
                out.append(dict(family="discard", tc=tc, cut=cut, sync=bool(cut % 2), bad_b=bad_b, kinds=["discard", str(cut), str(bad_b)]))
    # the same Client object on a second connection; a type redefined between reads
    for tc in (False, True):
        for init in ("none", "subs", "all", "paused"):
            for how in ("rst", "fin", "disconnect"):
                out.append(dict(family="reconnect", tc=tc, init=init, how=how, kinds=["reconnect", init, how]))
        for lookup_first in (False, True):
            out.append(dict(family="redefine", tc=tc, lookup_first=lookup_first, kinds=["redefine", str(lookup_first)]))
    return out


def reconnect_case(case) -> Dict[str, Any]:
    """the SAME Client object connects again (after a lost connection, or after disconnect()): nothing of the earlier
    connection's subscription state may filter - or fail to filter - what the new connection delivers"""
    tc, init, how = case["tc"], case["init"], case["how"]
    ensure_defs()
    mmx.fresh_gc()
    import pyrtma.client as CL

    w = clx.ClientWorld(timecode=tc)
    probs: List[Dict[str, Any]] = []
    calls = 0
    try:
        with warnings.catch_warnings():
            warnings.simplefilter("ignore")
            c = w.new_client(module_id=33, timecode=tc, name="cee")
            c.connect(mmx.SERVER)
            w.settle()
            if init == "subs":
                c.subscribe([S8, G0])
            elif init == "all":
                c.subscribe([P.ALL_MESSAGE_TYPES])
            elif init == "paused":
                c.subscribe([S8, Z8])
                c.pause_subscription([S8])
            w.settle()
            if how == "disconnect":
                c.disconnect()
            else:
                for end in (c._sock, c._sock.peer_sock):
                    end.peer = how
                    end.err = how == "rst"
                lost = False
                for _ in range(12):  # acknowledgements of the subscriptions are still queued in front of the end of stream
                    try:
                        c.read_message(timeout=0)
                    except CL.ConnectionLost:
                        lost = True
                        break
                if not lost:
                    probs.append({"kind": "loss-not-reported"})
            w.settle()
            c.connect(mmx.SERVER)
            w.settle()
            if c.subscribed_types or c.paused_subscribed_types or c._sub_all:
                probs.append({"kind": "subscriptions-survive-reconnect", "subscribed": sorted(c.subscribed_types), "paused": sorted(c.paused_subscribed_types),
                              "sub_all": c._sub_all})
            # frames of the formerly subscribed types reach the socket (queued / misdirected): none may be returned
            c._sock.rx += mk("good", tc, 0) + mk("signal", tc, 1) + mk("paused", tc, 2)
            for _ in range(4):
                calls += 1
                m = c.read_message(timeout=0)
                if m is not None:
                    probs.append({"kind": "returned-unsubscribed-type", "after": "reconnect", "msg_type": m.header.msg_type})
            # an individual subscription on the new connection works (it would be refused if "subscribed to all" survived)
            try:
                c.subscribe([U8])
            except CL.InvalidSubscription:
                probs.append({"kind": "stale-sub-all-refuses-subscribe"})
            w.settle()
            c._sock.rx.clear()
            c._sock.rx += mk("good", tc, 3) + mk("unsub", tc, 4)
            got = []
            for _ in range(3):
                calls += 1
                m = c.read_message(timeout=0)
                if m is not None:
                    got.append(m.header.msg_type)
            if got != [U8]:
                probs.append({"kind": "read-after-reconnect", "expected": [U8], "got": got})
    except N.WouldBlock as e:
        probs.append({"kind": "reconnect-read-blocks", "exc": str(e)[:120]})
    except Exception as e:
        probs.append({"kind": "reconnect-raised", "exc": f"{type(e).__name__}: {str(e)[:120]}"})
    finally:
        w.stop()
    return {"problems": probs, "calls": calls, "sig": ("reconnect", init, how, len(probs))}


def redefine_case(case) -> Dict[str, Any]:
    """a type is redefined (regenerated definitions loaded through @message_def) after frames of it were read: decoding
    follows the CURRENT local definition"""
    import pyrtma
    import pyrtma.client as CL
    from pyrtma.message_data import MessageData
    from pyrtma.message_base import MessageMeta

    tc = case["tc"]
    ensure_defs()
    mmx.fresh_gc()
    sp = clx.ScriptedPeer(timecode=tc)
    c = sp.client
    probs: List[Dict[str, Any]] = []
    calls = 0
    NEWHASH = 0x61616161

    def define(n, h):
        ns = {"type_id": S8, "type_name": f"VF8_{S8}", "type_hash": h, "type_size": n, "type_source": "vf", "type_def": ""}
        if n:
            ns["_fields_"] = [("raw", ctypes.c_ubyte * n)]
        pyrtma.message_def(MessageMeta(f"MDF_VF8_{S8}", (MessageData,), ns))

    def read(sync):
        nonlocal calls
        calls += 1
        try:
            m = c.read_message(timeout=0, sync_check=sync)
            return ("none",) if m is None else ("msg", len(bytes(m.data)))
        except N.WouldBlock:
            return ("block",)
        except CL.InvalidMessageDefinition:
            return ("exc", "InvalidMessageDefinition")
        except Exception as e:
            return ("exc", type(e).__name__)

    try:
        with warnings.catch_warnings():
            warnings.simplefilter("ignore")
            c.subscribe([S8])
            if case["lookup_first"]:
                sp.feed(mk("good", tc, 0))
                r = read(False)
                if r != ("msg", 8):
                    probs.append({"kind": "redefine-baseline", "got": list(r)})
            define(16, NEWHASH)
            kw = dict(src_mod_id=21, send_time=2.0, msg_count=2, dest_mod_id=0)
            if tc:
                kw.update(utc_seconds=100, utc_fraction=7)
            old_frame = P.mkframe(S8, bytes(8), timecode=tc, reserved=HASH[S8], **kw)
            new_frame = P.mkframe(S8, bytes(range(16)), timecode=tc, reserved=NEWHASH, **kw)
            stale_ver = P.mkframe(S8, bytes(range(16)), timecode=tc, reserved=HASH[S8], **kw)
            for label, frame, sync, want in (("old-size", old_frame, False, ("exc", "InvalidMessageDefinition")), ("new-size", new_frame, False, ("msg", 16)),
                                             ("new-size-sync", new_frame, True, ("msg", 16)), ("new-size-old-hash-sync", stale_ver, True, ("exc", "InvalidMessageDefinition")),
                                             ("after", new_frame, False, ("msg", 16))):
                sp.feed(frame)
                r = read(sync)
                if r != want:
                    probs.append({"kind": "stale-definition-used", "frame": label, "expected": list(want), "got": list(r), "looked_up_before": case["lookup_first"]})
    finally:
        define(8, HASH[S8])
        sp.close()
    return {"problems": probs, "calls": calls, "sig": ("redefine", case["lookup_first"], len(probs))}


def discard_case(case) -> Dict[str, Any]:
    """discard_messages() is called while the tail of a frame is still on its way: whatever it throws away, it throws away whole
    frames - every later read returns one of the sent frames intact, in order, and the frame sent afterwards comes out"""
    import pyrtma.client as CL

    tc, cut, sync = case["tc"], case["cut"], case["sync"]
    ensure_defs()
    mmx.fresh_gc()
    sp = clx.ScriptedPeer(timecode=tc)
    c = sp.client
    probs: List[Dict[str, Any]] = []
    calls = 0
    fa, fb, fc, fd = mk("good", tc, 0), mk("larger" if case.get("bad_b") else "good", tc, 1), mk("good", tc, 2), mk("good", tc, 3)
    sent = [fa, fb, fc, fd]
    fed = {"n": 0}

    def pump():
        # the rest of frame B and all of frame C arrive as soon as the client has to wait
        if fed["n"] == 0:
            fed["n"] = 1
            sp.feed(fb[cut:] + fc)
            return True
        return False

    try:
        with warnings.catch_warnings():
            warnings.simplefilter("ignore")
            c.subscribe([S8])
            sp.feed(fa + fb[:cut])
            sp.net.cli_pump = pump
            try:
                c.discard_messages()
            except (CL.InvalidMessageDefinition, CL.UnknownMessageType):
                pass  # an undecodable frame among the discarded ones may be reported
            except N.WouldBlock:
                pass
            if fed["n"] == 0:
                pump()
            sp.feed(fd)
            pos = 0
            for _ in range(8):
                calls += 1
                try:
                    m = c.read_message(timeout=0.1, sync_check=sync)
                except CL.InvalidMessageDefinition:
                    if case.get("bad_b"):
                        continue
                    probs.append({"kind": "discard-leaves-a-broken-stream", "cut": cut, "exc": "InvalidMessageDefinition"})
                    break
                except N.WouldBlock:
                    probs.append({"kind": "discard-leaves-a-broken-stream", "cut": cut, "exc": "read would block forever"})
                    break
                except Exception as e:
                    probs.append({"kind": "discard-leaves-a-broken-stream", "cut": cut, "exc": f"{type(e).__name__}: {str(e)[:80]}"})
                    break
                if m is None:
                    break
                hs = P.hstruct(tc)

                def key(b):  # a frame without the receive time stamp the client fills in
                    h = hs.unpack(b[:hs.size])
                    return (h[:3] + h[4:], b[hs.size:])

                wire = key(bytes(m.header) + bytes(m.data))
                while pos < len(sent) and key(sent[pos]) != wire:
                    pos += 1
                if pos == len(sent):
                    probs.append({"kind": "discard-leaves-a-broken-stream", "cut": cut, "returned_frame_was_never_sent": bytes(m.header)[:16].hex()})
                    break
                pos += 1
            if not probs and pos < len(sent):
                probs.append({"kind": "frame-after-discard-not-returned", "cut": cut, "returned_up_to": pos})
    finally:
        sp.net.cli_pump = None
        sp.close()
    return {"problems": probs, "calls": calls, "sig": ("discard", cut, len(probs))}


def run_chunk(cs):
    out = []
    for c in cs:
        if c.get("family") == "discard":
            out.append(discard_case(c))
            continue
        if c.get("family") == "reconnect":
            out.append(reconnect_case(c))
        elif c.get("family") == "redefine":
            out.append(redefine_case(c))
        else:
            out.append(run_case(c))
    return out


def run(tier: str) -> int:
    chk = core.Check("C08", tier, "exploration",
                     "every sequence of incoming frames over a 13-kind alphabet x read_message parameters, plus one subscription "
                     "change at every position, plus the peer closing (FIN/RST) at every byte offset, fed to the real Client; each "
                     "call compared with the reference reader. Distinct non-trivial = distinct (frame-kind sequence, deviation) "
                     "cases whose call/outcome signature contains at least one non-None outcome.")
    cs = cases(tier)
    chunks = core.chunks(core.shuffled(cs, "c08"), 400)
    res = core.pmap(run_chunk, chunks)
    core.close_pool()
    flat = [c for ch in chunks for c in ch]
    i = 0
    sigs = set()
    nontriv = set()
    calls = 0
    for ch in res:
        for r in ch:
            case = flat[i]
            i += 1
            calls += r["calls"]
            sigs.add(r["sig"])
            if any(s != "none" for s in r["sig"]):
                nontriv.add((case["tc"], tuple(case["kinds"]), str(case.get("change")), str(case.get("close"))))
            for p in r["problems"]:
                dev = "close-" + case["close"][0] if case.get("close") else ("change" if case.get("change") else "base")
                chk.violation(f"C08:{p['kind']}:{dev}", f"{case}: {p}", {"module": "vf.checks.c08", "case": case},
                              size=len(case["kinds"]) * 100 + (case["close"][1] if case.get("close") else 0))
    chk.sample(cs[0])
    chk.sample(cs[len(cs) // 2])
    chk.sample(cs[-1])
    chk.count("read_calls", calls)
    chk.assumptions += ["virtual TCP model (vf.net)", "reference reader (appendix B)", "frame-kind alphabet of 13"]
    return chk.finish({"evaluations": len(cs), "distinct_nontrivial": len(nontriv), "distinct_outcome_signatures": len(sigs)})


def _run_any(case):
    return run_chunk([case])[0]


def replay(case) -> int:
    c = case["case"]
    r1 = _run_any(c)
    r2 = _run_any(c)
    if str(r1["problems"]) != str(r2["problems"]):
        print("HARNESS-ERROR: non-deterministic replay")
        return 2
    print("  case:", c)
    print("  outcomes:", r1["sig"])
    for p in r1["problems"]:
        print("  PROBLEM:", p)
    print("reproduced" if r1["problems"] else "NOT reproduced")
    return 1 if r1["problems"] else 0
