"""C04 - all language outputs of the compiler describe the same wire format.

Engine DEFX. Enumerated: every struct/message whose field list is a sequence (length 1, all
ordered pairs, triples over a representative sub-alphabet; more in thorough) over {each of the 26
native type names, aliases of natives, alias of alias (2 levels), nested structs of alignment
1/2/4/8, a nested message} x length in {none, 1, 2, 3, constant, constant expressions}; signals;
field-list reuse; auto-inserted padding (sequences are not pre-aligned); constants (int, float,
expression), string constants, module ids, host ids, reserved ids; the closure split over
import-graph shapes. Hundreds of definitions are packed per compiled program.

Oracle: the five signatures (generated Python module, gcc probe of the generated header,
node dump of the generated module, interpretation of the generated MATLAB script, parser model)
agree pairwise on ids, hashes, constants, module and host ids, and per struct on field names,
order, element kinds/widths and array lengths; gcc sizeof/offsetof == ctypes size/offset == the
compiler's recorded size. Scalar == length-1 array and MATLAB int8 == C char are declared
equivalent representations.
"""
from __future__ import annotations

import itertools
import os
from typing import Any, Dict, List, Optional, Tuple

from .. import core, defx

ALIASES = {"AL_I16": "int16", "AL_F": "double", "AL_C": "char", "AL_U": "unsigned long long", "AL_B": "byte", "AL2": "AL_I16", "AL3": "AL2"}
NESTED = {"NS1": {"c": "char[3]"}, "NS2": {"a": "int16"}, "NS4": {"a": "int32", "b": "int16"}, "NS8": {"d": "double", "i": "int32"},
          # structs whose whole layout is ONE scalar (a flag, a byte): an array of them is an array of structs in every language
          "NSC": {"c": "char"}, "NSB": {"b": "byte"}}
NMSG = {"NM": {"id": 5900, "fields": {"a": "int32", "b": "int8"}}, "NMC": {"id": 5902, "fields": {"c": "char"}}}
VAR_TARGETS = ["int16", "double", "uint8", "float", "long long", "char"]
TYPES = defx.NATIVE_NAMES + list(ALIASES) + list(NESTED) + list(NMSG) + ["AL_VAR", "AL_VAR2"]
LENGTHS = [None, "1", "2", "3", "K3", "K3 * 2", "K3 - 1"]
REP = ["char", "int8", "uint16", "int32", "double", "unsigned long", "long long", "AL3", "AL_C", "NS1", "NS4", "NS8", "NM", "byte", "float", "AL_VAR"]


def sequences(tier: str) -> List[List[Tuple[str, Optional[str]]]]:
    out = []
    k = 0

    def ln():
        nonlocal k
        k += 1
        return LENGTHS[(k * 3 + k // 7) % len(LENGTHS)]

    for t in TYPES:
        for L in LENGTHS:
            out.append([(t, L)])
    for a, b in itertools.product(TYPES, repeat=2):
        out.append([(a, ln()), (b, ln())])
    for combo in itertools.product(REP, repeat=3):
        out.append([(t, ln()) for t in combo])
    if tier == "quick":
        for a, b in itertools.product(REP[:12], repeat=2):
            for la, lb in itertools.product(LENGTHS, repeat=2):
                if (la, lb) != (None, None):
                    out.append([(a, la), (b, lb)])
    if tier == "thorough":
        for combo in itertools.product(REP[:8], repeat=4):
            out.append([(t, ln()) for t in combo])
        for a, b in itertools.product(TYPES, repeat=2):
            for la, lb in itertools.product(LENGTHS, repeat=2):
                if (la, lb) != (None, None):
                    out.append([(a, la), (b, lb)])
    return out


def ftext(t, L):
    return t if L is None else f"{t}[{L}]"


SHAPES = ("single", "chain", "diamond")


def batch_program(seqs, bi: int) -> Tuple[defx.Program, Dict[str, Any]]:
    shape = SHAPES[bi % len(SHAPES)]
    LN = "_LONG_NAME_OF_FORTY_EIGHT_CHARACTERS_AND_SOME_MORE_X"  # names as long as / longer than the emitters' column width
    base = {"constants": {"N_defines_X": 5, "K" + LN: 48, "K47" + LN[:44]: 47, "K3": 3, "KF": 2.5, "KNEG": -7, "KEXP": "K3 * 4 + 1", "KHEX": "0x20", f"KB{bi}": bi,
                          # floats that need all their digits, computed ones, very small and very large ones
                          "KPI": 3.14159265358979, "KRATE": 30000, "KINV": "1 / KRATE", "KFRAC": 24414.0625, "KTINY": 1.25e-07, "KBIG": 123456789.125, "KTHIRD": "1.0 / 3"},
            "string_constants": {"SC" + LN: "long", "SC_A": "alpha", f"SC_B{bi}": "be ta", "SC_APO": "operator's console", "SC_PCT": "100% #1 {x} \\t", "SC_EMPTY": ""},
            "aliases": {**ALIASES, "AL_VAR": VAR_TARGETS[bi % len(VAR_TARGETS)], "AL_VAR2": "AL_VAR"}, "host_ids": {"ORCHID_PC": 14, "HOST" + LN: 12, "HOST_ONE": 11, f"HOST_B{bi}": 100 + bi},
            "module_ids": {"PYRAMID_CTRL": 14, "MOD" + LN: 13, "MOD_ONE": 12, f"MOD_B{bi}": 20 + bi % 70},
            "struct_defs": {n: {"fields": dict(f)} for n, f in NESTED.items()},
            "message_defs": {**{n: dict(v) for n, v in NMSG.items()}, "SIG_A": {"id": 5901, "fields": None},
                             # names that CONTAIN (not start with) the prefixes the emitters use
                             "CMT_X": {"id": 5905, "fields": {"a": "int32"}}, "EMT_STATUS": {"id": 5906, "fields": None}, "FORMAT_MDF_V": {"id": 5907, "fields": {"v": "int8"}},
                             "MSG" + LN: {"id": 5903, "fields": {"a": "int32"}}, "SIG" + LN[:45]: {"id": 5904, "fields": None},
                             # user messages with ids the core definitions leave free below 100
                             "LOW_ID_STATUS": {"id": 95, "fields": {"a": "int32", "b": "double"}}, "LOW_ID_SIG": {"id": 3, "fields": None},
                             "LOW_ID_EDGE": {"id": 99, "fields": {"c": "char[8]"}},
                             # ... and three-digit ids (with and without the digits 8 and 9)
                             "ID_123": {"id": 123, "fields": None}, "ID_189": {"id": 189, "fields": {"a": "int8"}}, "ID_777": {"id": 777, "fields": None}, "ID_100": {"id": 100, "fields": None},
                             "_RESERVED_": {"id": [5990, "5992 - 5994"]}}}
    parts = [{"struct_defs": {}, "message_defs": {}}, {"struct_defs": {}, "message_defs": {}}, {"struct_defs": {}, "message_defs": {}}]
    meta = {}
    for k, seq in enumerate(seqs):
        # every fifth definition spells one field name with a leading underscore (reserved / spare fields are commonly named so)
        fields = {(f"_f{i}" if (k % 5 == 0 and i == min(1, len(seq) - 1)) else f"f{i}"): ftext(t, L) for i, (t, L) in enumerate(seq)}
        uses_msg = any(t in NMSG for t, _ in seq)
        as_msg = uses_msg or k % 2 == 1
        part = parts[k % 3 if shape != "single" else 0]
        name = f"D{k}"
        if as_msg:
            part["message_defs"][name] = {"id": 6000 + k, "fields": fields}
        else:
            part["struct_defs"][name] = {"fields": fields}
        meta[name] = {"seq": seq, "msg": as_msg}
        if k % 25 == 0:  # field-list reuse
            part["message_defs"][f"R{k}"] = {"id": 9000 + k, "fields": name}
            meta[f"R{k}"] = {"seq": seq, "msg": True, "reuse": name}
    clean = lambda p: {k: v for k, v in p.items() if v}
    if shape == "single":
        root = dict(base)
        root["struct_defs"] = {**base["struct_defs"], **parts[0]["struct_defs"]}
        root["message_defs"] = {**base["message_defs"], **parts[0]["message_defs"]}
        if (bi // len(SHAPES)) % 2 == 1:
            # a legacy project file that still lists the core definition files (which every build includes anyway) before its own
            # definitions: a second mention of a file already read changes nothing
            import pyrtma

            cdir = os.path.join(os.path.dirname(os.path.abspath(pyrtma.__file__)), "core_defs")
            root = {"imports": [os.path.join(cdir, "core_defs.yaml"), os.path.join(cdir, "data_logger.yaml")], **root}
        files = {"root.yaml": root}
    elif shape == "chain":
        files = {"root.yaml": {"imports": ["a.yaml"], **clean(parts[0])}, "a.yaml": {"imports": ["sub/b.yaml"], **clean(parts[1])},
                 "sub/b.yaml": {"imports": ["../base.yaml"], **clean(parts[2])}, "base.yaml": base}
    else:
        files = {"root.yaml": {"imports": ["a.yaml", "sub/b.yaml"], **clean(parts[0])}, "a.yaml": {"imports": ["base.yaml"], **clean(parts[1])},
                 "sub/b.yaml": {"imports": ["../base.yaml"], **clean(parts[2])}, "base.yaml": base}
    return defx.Program(files), meta


def norm_fields(fields, with_offsets=True):
    out = []
    run = 0
    for f in fields:
        name, kind, width, n = f[0], f[1], f[2], f[3]
        row = [name, kind, width, n or 1]
        off = f[4]
        if off == -1:  # the parser records no offset for trailing padding (internal detail)
            off = run
        run = off + width * (n or 1)
        if with_offsets:
            row.append(off)
        out.append(row)
    return out


def js_expect(sp, name) -> Dict[str, Any]:
    """the shape a JavaScript factory must return for definition `name` (from the parser model)"""
    fields = []
    for fname, kind, width, n, off in sp["defs"][name]["fields"]:
        raw_len = sp["lens"][name][fname]
        if kind == "char":
            # a char array is either one JS string (direct char[n]) or an array of n one-character strings (via an alias)
            el = {"k": "str"}
            node = ("chars", el, raw_len) if raw_len is not None else ("plain", el)
        elif kind.startswith("struct:"):
            el = js_expect(sp, kind[7:])
            node = ("arr", el, raw_len) if raw_len is not None else ("plain", el)
        else:
            el = {"k": "num"}
            node = ("arr", el, raw_len) if raw_len is not None else ("plain", el)
        fields.append([fname, node])
    return {"k": "obj", "fields": fields}


def js_match(exp, got) -> Optional[str]:
    if exp["k"] != got.get("k"):
        return f"kind {got.get('k')} != {exp['k']}"
    if exp["k"] != "obj":
        return None
    gf = got["fields"]
    if [f[0] for f in gf] != [f[0] for f in exp["fields"]]:
        return f"field names/order {[f[0] for f in gf]} != {[f[0] for f in exp['fields']]}"
    for (fname, node), (_, g) in zip(exp["fields"], gf):
        if node[0] == "plain":
            r = js_match(node[1], g)
        elif node[0] == "chars":
            if g.get("k") == "arr":
                r = None if (g.get("n") == node[2] and g["el"] and g["el"].get("k") == "str") else f"char array: {g}"
            else:
                r = js_match(node[1], g)
        else:
            if g.get("k") != "arr" or g.get("n") != node[2]:
                if node[2] == 1 and g.get("k") != "arr":
                    r = js_match(node[1], g)  # scalar == length-1 array
                else:
                    r = f"array length {g.get('n')} != {node[2]} ({g.get('k')})"
            else:
                r = js_match(node[1], g["el"])
        if r:
            return f"{fname}: {r}"
    return None


def m_expect(sp, name):
    out = []
    for fname, kind, width, n, off in sp["defs"][name]["fields"]:
        raw_len = sp["lens"][name][fname]
        if kind.startswith("struct:"):
            out.append([fname, "struct", m_expect(sp, kind[7:]), raw_len or 1])
        else:
            k = "int" if kind == "char" else kind  # MATLAB has no 1-byte char: int8 is the declared equivalent
            out.append([fname, k, width, raw_len or 1])
    return out


def num(v):
    if isinstance(v, str):
        v = v.strip().strip('"').strip("'")
        # (C reads a literal with a leading zero as octal - and refuses it when it has a digit 8 or 9)
        if len(v) > 1 and v[0] == "0" and v.isdigit():
            return int(v, 8) if all(ch in "01234567" for ch in v) else f"invalid C literal {v}"
        try:
            return int(v, 0)
        except ValueError:
            try:
                return float(v)
            except ValueError:
                return v
    return v


def check_batch(args) -> Dict[str, Any]:
    bi, seqs = args[:2]
    rebuild = len(args) > 2 and args[2] == "rebuild"
    named = args[3] if len(args) > 3 and args[2] == "named" else None
    problems: List[Dict[str, Any]] = []
    stats = {"definitions": 0, "field_comparisons": 0, "id_comparisons": 0, "padded": 0}
    d = core.scratch_dir("c04")

    def bad(kind, **kw):
        if named and named.startswith("shared:") and kw.get("lang") == "python" and kw.get("name") == "GATEWAY":
            # one root cause whatever the other table is: the Python module has ONE global per name (host ids carry no prefix there)
            kw = dict(kw, seen_as=kind, other_table=named.split(":")[1])
            kind = "python-name-bound-twice"
        problems.append({"kind": kind, "batch": bi, **({"rebuild": True} if rebuild else {}), **kw})

    try:
        ckw: Dict[str, Any] = {}
        if named == "novalidate":
            # a naturally aligned definition file compiled with alignment validation switched off (file option / --no_val_align):
            # nothing needs padding, so every output - and the size the compiler records - is what it is with validation on
            ckw = {"validate_alignment": False}
            prog = defx.Program({"root.yaml": {"compiler_options": {"VALIDATE_ALIGNMENT": "false"},
                                               "struct_defs": {"PT": {"fields": {"x": "int32", "y": "int32"}}, "Q8": {"fields": {"d": "double", "n": "int32", "m": "int32"}}},
                                               "message_defs": {"POSE": {"id": 6000, "fields": {"p": "PT", "q": "double[4]", "n": "int32", "m": "int32"}},
                                                                "TAIL": {"id": 6001, "fields": {"h": "Q8[2]", "t": "char[8]", "e": "PT"}},
                                                                "ONE": {"id": 6002, "fields": {"v": "int64"}}, "NONE_": {"id": 6003, "fields": None}}}})
            meta = {}
        elif named and named.startswith("shared:"):
            # one name in two TABLES of one file (the parser keeps host / module ids apart from constants, strings, aliases and
            # structs): every output keeps both values apart
            kind = named.split(":")[1]
            secs = {"host_ids": {"GATEWAY": 20}, "module_ids": {"GATEWAY": 30}, "message_defs": {"M_SHARED": {"id": 6000, "fields": {"a": "int32", "b": "int16[3]"}}}}
            if kind == "constant":
                secs["constants"] = {"GATEWAY": 5}
            elif kind == "string":
                secs["string_constants"] = {"GATEWAY": "gw"}
            elif kind == "alias":
                secs["aliases"] = {"GATEWAY": "int16"}
                secs["message_defs"]["M_SHARED"]["fields"]["g"] = "GATEWAY"
            else:
                secs["struct_defs"] = {"GATEWAY": {"fields": {"x": "int32"}}}
                secs["message_defs"]["M_SHARED"]["fields"]["g"] = "GATEWAY"
            prog = defx.Program({"root.yaml": secs})
            if kind in ("struct-message", "message-struct"):
                # ... and one name for a struct and for a message of another file of the closure, then used as a field type: refused,
                # or laid out by every output as what the parser took it for
                first = {"message_defs": {"POSE": {"id": 6010, "fields": {"q": "double[4]"}}}} if kind == "struct-message" else {"struct_defs": {"POSE": {"fields": {"q": "double[4]"}}}}
                second = {"struct_defs": {"POSE": {"fields": {"x": "int32"}}}} if kind == "struct-message" else {"message_defs": {"POSE": {"id": 6010, "fields": {"x": "int32"}}}}
                root = {"imports": ["lib/pose.yaml"], **second}
                root.setdefault("message_defs", {})["USER"] = {"id": 6011, "fields": {"pose": "POSE", "n": "int32"}}
                prog = defx.Program({"root.yaml": root, "lib/pose.yaml": first})
            meta = {}
        elif named:
            # a field carries a name the generated classes use themselves: the file is either refused, or - when accepted - described
            # identically by all outputs like any other
            prog = defx.Program({"root.yaml": {"struct_defs": {"SB_NAMED": {"fields": {"a": "int8", named: "double"}}},
                                               "message_defs": {"BLOCK_INFO": {"id": 6000, "fields": {"serial": "int32", named: "int32", "tail": "double"}},
                                                                "BLOCK_REPORT": {"id": 6001, "fields": {named: "int16", "x": "int8", "s": "SB_NAMED"}}}}})
            meta = {}
        else:
            prog, meta = batch_program(seqs, bi)
        try:
            if rebuild:
                # an earlier build of the same root file sits in the output directory; then only IMPORTED files are edited (other
                # alias target, other constants / ids) and the closure is built again into the same place: every output must
                # describe the closure as it is now
                prev, _ = batch_program(seqs, bi + len(SHAPES))
                paths = defx.compile_program(prev, d, name="gen")
                if defx.render_file(prev.files[prev.root]) != defx.render_file(prog.files[prog.root]):
                    raise core.HarnessError("rebuild scenario: the root file must be identical in both builds")
                for rel, secs in prog.files.items():
                    if rel != prog.root:
                        with open(os.path.join(d, "src", rel), "w") as fh:
                            fh.write(defx.render_file(secs))
                from .. import valx

                valx.compile_file(paths["root"], "gen", os.path.join(d, "gen"), python=True, c_lang=True, javascript=True, matlab=True)
            else:
                paths = defx.compile_program(prog, d, name="gen", **ckw)
        except core.HarnessError:
            raise
        except Exception as e:
            if named:
                stats["names_refused"] = 1
                return {"problems": [], "stats": stats}
            return {"problems": [{"kind": "batch-rejected", "exc": f"{type(e).__name__}: {str(e)[:300]}", "batch": bi, **({"rebuild": True} if rebuild else {})}], "stats": stats}
        p = defx.parse_model(paths["root"], **ckw)
        sp = defx.sig_parser(p)
        sp["lens"] = {n: {f.name: f.length for f in dd.fields} for coll in (p.struct_defs, p.message_defs) for n, dd in coll.items()}
        user = {n for n, dd in sp["defs"].items() if "core_defs" not in dd["src"]}
        try:
            py = defx.sig_python(paths["python"])
        except Exception as e:
            bad("python-import", exc=f"{type(e).__name__}: {str(e)[:200]}")
            py = None
        c = defx.sig_c(paths["c_lang"], d, defx.core_header(d))
        if c.get("error"):
            bad("c-header", exc=c["error"][:300])
        js = defx.sig_js([paths["javascript"]], d)[paths["javascript"]]
        if js.get("error"):
            bad("js-import", exc=js["error"][:200])
        ml = defx.run_matlab(paths["matlab"])
        if ml["error"]:
            bad("matlab", exc=ml["error"][:200])
        R = ml["RTMA"]
        # ---- per definition
        for name in sorted(user):
            dd = sp["defs"][name]
            if name.startswith("_RESERVED_"):
                continue
            stats["definitions"] += 1
            want = norm_fields(dd["fields"])
            if any(f[0].startswith("padding_") for f in want):
                stats["padded"] += 1
            info = meta.get(name, {})
            seq = [ftext(t, L) for t, L in info.get("seq", [])]
            if py is not None:
                pd = py["defs"].get(name)
                stats["field_comparisons"] += 1
                if pd is None:
                    bad("python-missing", name=name, seq=seq)
                else:
                    if norm_fields(pd["fields"]) != want:
                        bad("python-fields", name=name, seq=seq, got=norm_fields(pd["fields"]), want=want)
                    if pd["size"] != dd["size"] or pd["recorded_size"] != dd["size"]:
                        bad("python-size", name=name, seq=seq, ctypes=pd["size"], recorded=pd["recorded_size"], parser=dd["size"])
                    if pd["hash"] != dd["hash"]:
                        bad("python-hash", name=name)
            if not c.get("error") and dd["fields"]:
                cd_ = c["defs"].get(name)
                stats["field_comparisons"] += 1
                if cd_ is None:
                    bad("c-missing", name=name, seq=seq)
                else:
                    if norm_fields(cd_["fields"]) != want:
                        bad("c-fields", name=name, seq=seq, got=norm_fields(cd_["fields"]), want=want)
                    if cd_["size"] != dd["size"]:
                        bad("c-size", name=name, seq=seq, gcc=cd_["size"], parser=dd["size"])
                    if py is not None and py["defs"].get(name) and norm_fields(py["defs"][name]["fields"]) != norm_fields(cd_["fields"]):
                        bad("python-vs-c", name=name, seq=seq)
            if not js.get("error"):
                sec = "MDF" if dd["msg"] else "SDF"
                e = js[sec].get(name)
                stats["field_comparisons"] += 1
                if e is None:
                    bad("js-missing", name=name, seq=seq)
                elif e["error"]:
                    bad("js-factory", name=name, seq=seq, exc=e["error"][:160])
                else:
                    r = js_match(js_expect(sp, name), e["shape"])
                    if r:
                        bad("js-fields", name=name, seq=seq, detail=r)
            if not ml["error"]:
                top = "MDF" if dd["msg"] else "typedefs"
                mv = R.get(top, {}).get(name)
                stats["field_comparisons"] += 1
                if mv is None:
                    bad("matlab-missing", name=name, seq=seq)
                else:
                    got = defx.m_fields(mv)
                    if got != m_expect(sp, name):
                        bad("matlab-fields", name=name, seq=seq, got=got, want=m_expect(sp, name))
        # ---- ids, hashes, constants
        cdef = c["defines"]
        for name, v in sp["MT"].items():
            is_core = "core_defs" in sp["defs"][name]["src"] if name in sp["defs"] else False
            h = sp["defs"][name]["hash"]
            mname = name.lstrip("_0123456789")
            table = {"python": (py["MT"].get(name), py["defs"].get(name, {}).get("hash")) if py else (v, h),
                     "c": (num(cdef.get("MT_" + name)), num(cdef.get("HASH_" + name))) if not is_core else (v, h),
                     "js": ((js["MT"] or {}).get(name), num("0x" + (js["HASH"] or {}).get(name, "0"))) if not js.get("error") else (v, h),
                     "matlab": (R.get("MT", {}).get(mname), num("0x" + str(R.get("hash", {}).get(mname, "0")))) if not ml["error"] else (v, h)}
            for lang, (gid, gh) in table.items():
                stats["id_comparisons"] += 1
                if gid != v:
                    bad("message-id", lang=lang, name=name, got=gid, want=v)
                if gh != h:
                    bad("message-hash", lang=lang, name=name, got=gh, want=h)
        for sec, pref, cpref in (("MID", "MID_", "MID_"), ("HID", "", "HID_")):
            for name, v in sp[sec].items():
                is_core = name in ("MESSAGE_MANAGER", "DATA_LOGGER", "QUICK_LOGGER", "LOCAL_HOST", "ALL_HOSTS")
                got = {"python": (py["MID"].get(name) if sec == "MID" else py["names"].get(name)) if py else v,
                       "c": num(cdef.get(cpref + name)) if not is_core else v,
                       "js": (js[sec] or {}).get(name) if not js.get("error") else v,
                       "matlab": R.get(sec, {}).get(name) if not ml["error"] else v}
                for lang, g in got.items():
                    stats["id_comparisons"] += 1
                    if g != v:
                        bad(f"{sec.lower()}-value", lang=lang, name=name, got=g, want=v)
        core_consts = set()
        for name, v in sp["constants"].items():
            is_core = "core_defs" in str(p.constants[name].src)
            got = {"python": py["names"].get(name) if py else v, "c": num(cdef.get(name)) if not is_core else v,
                   "js": (js["constants"] or {}).get(name) if not js.get("error") else v,
                   "matlab": R.get("defines", {}).get(name) if not ml["error"] else v}
            for lang, g in got.items():
                stats["id_comparisons"] += 1
                if g != v:
                    bad("constant-value", lang=lang, name=name, got=g, want=v)
        for name, v in sp["strings"].items():
            got = {"python": py["strings"].get(name) if py else v, "c": num(cdef.get(name)), "js": (js["constants"] or {}).get(name) if not js.get("error") else v,
                   "matlab": R.get("defines", {}).get(name) if not ml["error"] else v}
            for lang, g in got.items():
                stats["id_comparisons"] += 1
                if g != v:
                    bad("string-constant", lang=lang, name=name, got=g, want=v)
    finally:
        defx._CORE_H.clear()
        core.rmtree(d)
    return {"problems": problems, "stats": stats}


def cli_accepts(_=None) -> Dict[str, Any]:
    """the command line entry point with layout options given in the root file / on the command line: whenever it ACCEPTS a file
    (exit 0), the size it recorded for every definition is the size of the generated Python class and of the C struct"""
    import contextlib
    import io
    import sys
    import pyrtma.compile as pc
    import pyrtma.compilers.python as pyc
    from .. import valx

    problems: List[Dict[str, Any]] = []
    stats = {"cli_runs": 0, "cli_accepted": 0}
    d = core.scratch_dir("c04cli")
    try:
        unpadded = {"code": "int8", "stamp": "double", "count": "int16"}
        padded = {"code": "int8", "p0": "char[7]", "stamp": "double", "count": "int16", "p1": "char[6]"}
        k = 0
        for opts in ({}, {"AUTO_PAD": "false"}, {"AUTO_PAD": "true"}, {"VALIDATE_ALIGNMENT": "true"}, {"AUTO_PAD": "false", "VALIDATE_ALIGNMENT": "true"}, {"IMPORT_COREDEFS": "false", "AUTO_PAD": "false"}):
            for fields, fname in ((unpadded, "unpadded"), (padded, "padded")):
                for flags in ([], ["--no_auto_pad"]):
                    k += 1
                    sub = os.path.join(d, f"c{k}")
                    os.makedirs(sub)
                    lines = (["compiler_options:"] + [f"  {a}: {b}" for a, b in opts.items()] if opts else []) + ["message_defs:", "  CLI_M:", "    id: 4700", "    fields:"] + [f"      {a}: {b}" for a, b in fields.items()]
                    root = os.path.join(sub, "root.yaml")
                    with open(root, "w") as fh:
                        fh.write("\n".join(lines) + "\n")
                    argv, old = sys.argv, pyc.subprocess
                    sys.argv = ["pyrtma.compile", "-i", root, "--python", "--c", "-o", sub] + flags
                    pyc.subprocess = valx._Subprocess(False)
                    code: Any = 0
                    try:
                        with contextlib.redirect_stdout(io.StringIO()), contextlib.redirect_stderr(io.StringIO()):
                            pc.main()
                    except SystemExit as e:
                        code = int(e.code or 0)
                    except Exception as e:
                        code = type(e).__name__
                    finally:
                        pyc.subprocess, sys.argv = old, argv
                    stats["cli_runs"] += 1
                    if code != 0:
                        continue  # refused: nothing to compare
                    stats["cli_accepted"] += 1
                    case = {"options_in_file": opts, "flags": flags, "fields": fname}
                    try:
                        py = defx.sig_python(os.path.join(sub, "root.py"))
                        pd = py["defs"]["CLI_M"]
                        if pd["size"] != pd["recorded_size"]:
                            problems.append({"kind": "python-size", "lang": "python", "name": "CLI_M", "ctypes": pd["size"], "recorded": pd["recorded_size"], "cli": case})
                        c = defx.sig_c(os.path.join(sub, "root.h"), sub, defx.core_header(sub))
                        cd_ = (c.get("defs") or {}).get("CLI_M")
                        if c.get("error") or cd_ is None:
                            problems.append({"kind": "c-header", "lang": "c", "exc": str(c.get("error"))[:200], "cli": case})
                        elif cd_["size"] != pd["recorded_size"]:
                            problems.append({"kind": "c-size", "lang": "c", "name": "CLI_M", "gcc": cd_["size"], "recorded": pd["recorded_size"], "cli": case})
                    except core.HarnessError:
                        raise
                    except Exception as e:
                        problems.append({"kind": "python-import", "lang": "python", "exc": f"{type(e).__name__}: {str(e)[:160]}", "cli": case})
    finally:
        core.rmtree(d)
    return {"problems": [dict(p, batch="cli") for p in problems], "stats": stats}


def run(tier: str) -> int:
    chk = core.Check("C04", tier, "exploration",
                     "field sequences over 26 native names + aliases + nested structs/message x 7 length forms, packed ~250 definitions "
                     "per program, split over import shapes, compiled to all outputs; the Python / C (gcc) / JavaScript (node) / MATLAB "
                     "(subset interpreter) / parser signatures compared pairwise. Distinct non-trivial = definitions in which padding "
                     "was inserted.")
    seqs = sequences(tier)
    batches = [(i, b) for i, b in enumerate(core.chunks(core.shuffled(seqs, "c04"), 250))]
    multi = [b for b in batches if SHAPES[b[0] % len(SHAPES)] != "single"]
    rebuilds = [(i, b, "rebuild") for i, b in (multi[:4] if tier == "quick" else multi)]
    names = [(9200, [], "named", "novalidate")]
    names += [(9100 + i, [], "named", "shared:" + k) for i, k in enumerate(("constant", "string", "alias", "struct", "struct-message", "message-struct"))]
    names += [(9000 + i, [], "named", n) for i, n in enumerate(("type_id", "type_name", "type_hash", "type_source", "type_def", "type_size", "hexdump", "size_type",
                                                                             # words another target language reserves (legal in Python, C and JavaScript)
                                                                             "end", "otherwise", "persistent"))]
    res = core.pmap(check_batch, batches + rebuilds + names)
    res.append(cli_accepts())
    core.close_pool()
    totals: Dict[str, int] = {}
    for r in res:
        for k, v in r["stats"].items():
            totals[k] = totals.get(k, 0) + v
        for p in r["problems"]:
            chk.violation(f"C04:{p['kind']}:{p.get('lang', '')}", f"{p}", {"module": "vf.checks.c04", "problem": p, "seqs": None}, size=len(str(p.get("seq", p))))
    chk.merge_counts(totals)
    chk.count("programs", len(batches))
    chk.count("rebuilds_after_editing_imported_files", len(rebuilds))
    chk.sample({"fields": [ftext(t, L) for t, L in seqs[100]]})
    chk.sample({"fields": [ftext(t, L) for t, L in seqs[-1]]})
    chk.sample({"types": TYPES[:10], "lengths": LENGTHS})
    chk.assumptions += ["gcc x86-64 layout; node 20; MATLAB subset interpreter (no MATLAB/Octave available)",
                        "scalar == length-1 array; MATLAB int8 == C char; aliases of structs and structs containing messages are left to C15 (known emission-order finding)"]
    return chk.finish({"evaluations": totals.get("field_comparisons", 0) + totals.get("id_comparisons", 0), "distinct_nontrivial": totals.get("padded", 0)})


def replay(case) -> int:
    p = case["problem"]
    seqs = sequences("thorough" if p.get("batch", 0) > 40 else "quick")
    batches = core.chunks(core.shuffled(seqs, "c04"), 250)
    bi = p.get("batch", 0)
    if bi >= len(batches):
        print("batch index not available with this seed/tier")
        return 2
    r = check_batch((bi, batches[bi], "rebuild") if p.get("rebuild") else (bi, batches[bi]))
    hit = [q for q in r["problems"] if q["kind"] == p["kind"] and q.get("name") == p.get("name")]
    for q in hit[:5]:
        print("  PROBLEM:", q)
    print("reproduced" if hit else "NOT reproduced (replay needs the same VERIF_SEED and tier as the failing run)")
    return 1 if hit else 0
