"""C10 - serialisation round trips are the identity.

Engine VALX: every message / struct class of the shipped core definitions, of
tests/test_msg_defs and of the generated VALX definition file x value profiles (all-zero,
all-minimum, all-maximum, mixed, NaN / negative zero, special strings, 0x00 / 0xFF byte arrays)
and, per field path, every value of the field's alphabet with all other fields zero, and the same
value assigned over an object filled with the maximum profile, x codecs
{bytes/from_buffer_copy, to_dict/from_dict, to_json/from_json (pretty, minified),
Message.to_json/from_json (header + data), copy}.

Oracle: bytes(decoded) == bytes(original) for data and header; a copy shares no storage with its
source (mutating every byte of one leaves the other unchanged); header-plus-data JSON whose
header carries a non-zero foreign version hash is refused with InvalidMessageDefinition, version
0 and the right hash are accepted.
"""
from __future__ import annotations

import ctypes
import importlib.util
import inspect
import json
import math
import os
import sys
from typing import Any, Callable, Dict, List, Optional, Tuple

from .. import core, valx

F32MAX = 3.4028234663852886e38
F64MAX = 1.7976931348623157e308
NAN = float("nan")


def descriptors(cls) -> List[Tuple[str, Any]]:
    import pyrtma.validators as V

    out = []
    for fname, _ftype, *_ in cls._fields_:
        name = fname[1:] if fname.startswith("_") else fname
        d = inspect.getattr_static(cls, name, None)
        if isinstance(d, V.FieldValidator):
            out.append((name, d))
    return out


def _f32(bits: int) -> float:
    import struct

    return struct.unpack("<f", struct.pack("<I", bits))[0]


def str_alphabet(n: int) -> List[str]:
    """values for a char[n] field (at most n-1 characters)"""
    k = n - 1
    base = ["", "a" * k, ('"' * k), ("\\" * k), "\x01\x1f\x7f"[:k], "\n\t\r"[:k], "'{}[],:"[:k], "a\x00b"[:k]]
    return list(dict.fromkeys(base))


def field_values(d, profile: Optional[str] = None) -> List[Any]:
    """alphabet of one field; with a profile, the single value of that profile"""
    import pyrtma.validators as V

    if isinstance(d, V.IntValidatorBase):
        lo, hi = d.min, d.max
        vals = {"zero": 0, "min": lo, "max": hi, "mixed": (hi // 3) | 1, "mixed2": lo // 5 if lo else 1}
        return [vals[profile]] if profile else sorted({lo, hi, 0, 1, -1 if lo < 0 else 2, hi // 3, True})
    if isinstance(d, V.FloatValidatorBase):
        mx = F32MAX if d._ctype is ctypes.c_float else F64MAX
        vals = {"zero": 0.0, "min": -mx, "max": mx, "mixed": 0.1, "mixed2": -0.0}
        if profile:
            return [vals[profile]]
        if d._ctype is ctypes.c_float:
            # values whose shortest exact decimal needs all 9 significant digits, the neighbours of a power of two, the smallest normal
            dense = [_f32(0x447FFFFF), _f32(0x3DD58E21), _f32(0x4E7FFFFF), _f32(0x3F800001), _f32(0x00800000), _f32(0x7F7FFFFE), -_f32(0x3EAAAAAB)]
        else:
            dense = [0.1 + 0.2, 1 / 3, 5e-324 * 3, 2.0 ** 53 + 2, -2.2250738585072014e-308, 1.7976931348623155e308]
        return [0.0, -0.0, mx, -mx, NAN, 0.1, 1e-45 if d._ctype is ctypes.c_float else 5e-324, 3] + dense
    if isinstance(d, V.Char):
        vals = {"zero": "\x00", "min": "\x01", "max": "\x7f", "mixed": '"', "mixed2": "\\"}
        return [vals[profile]] if profile else ["a", '"', "\\", "\x01", "\x7f", "\n", "\x00"]
    if isinstance(d, V.String):
        n = d.len
        vals = {"zero": "", "min": "\x01" * (n - 1), "max": "\x7f" * (n - 1), "mixed": ('a"\\\n' * n)[:n - 1], "mixed2": "a"[:n - 1]}
        return [vals[profile]] if profile else str_alphabet(n)
    if isinstance(d, V.Byte):
        vals = {"zero": 0, "min": 0, "max": 255, "mixed": 0x5A, "mixed2": b"\x80"}
        return [vals[profile]] if profile else [0, 255, b"\x01", 0x80]
    return []


def fill(obj, profile: str, depth=0):
    """assign every field of obj (recursively) through the validated API according to a profile"""
    import pyrtma.validators as V

    for name, d in descriptors(type(obj)):
        if isinstance(d, V.Struct):
            fill(getattr(obj, name), profile, depth + 1)
        elif isinstance(d, V.StructArray):
            for el in getattr(obj, name):
                fill(el, profile, depth + 1)
        elif isinstance(d, V.ByteArray):
            n = len(d)
            v = {"zero": bytes(n), "min": bytes(n), "max": b"\xff" * n, "mixed": bytes((i * 37 + 1) & 0xFF for i in range(n)), "mixed2": [0x80] * n}[profile]
            setattr(obj, name, v)
        elif isinstance(d, V.ArrayField):
            n = len(d)
            ev = field_values(d._validator, profile)[0]
            if profile in ("mixed", "mixed2") and isinstance(d._validator, V.FloatValidatorBase):
                seq = [NAN if i % 3 == 1 else (-0.0 if i % 3 == 2 else ev) for i in range(n)]
            elif profile == "mixed" and isinstance(d._validator, V.IntValidatorBase):
                seq = [d._validator.min if i % 2 else d._validator.max for i in range(n)]
            else:
                seq = [ev] * n
            setattr(obj, name, seq)
        else:
            setattr(obj, name, field_values(d, profile)[0])


def paths(cls, prefix=()) -> List[Tuple[Tuple, Any]]:
    """(path, descriptor) of every leaf field; arrays of structs contribute element 0 and the last element"""
    import pyrtma.validators as V

    out = []
    for name, d in descriptors(cls):
        if isinstance(d, V.Struct):
            out += paths(d._ctype, prefix + (name,))
        elif isinstance(d, V.StructArray):
            n = len(d)
            for i in sorted({0, n - 1}):
                out += paths(d._validator._ctype, prefix + (name, i))
        else:
            out.append((prefix + (name,), d))
    return out


def set_path(obj, path, value):
    for p in path[:-1]:
        obj = obj[p] if isinstance(p, int) else getattr(obj, p)
    setattr(obj, path[-1], value)


def leaf_values(d) -> List[Any]:
    import pyrtma.validators as V

    if isinstance(d, V.ByteArray):
        n = len(d)
        return [bytes(n), b"\xff" * n, bytes((i * 7 + 3) & 0xFF for i in range(n))]
    if isinstance(d, V.ArrayField):
        n = len(d)
        out = []
        for ev in field_values(d._validator):
            out.append([ev] * n)
            if n > 1:
                seq = [field_values(d._validator, "zero")[0]] * n
                seq[-1] = ev
                out.append(seq)
        return out
    return field_values(d)


# ---- codecs ----------------------------------------------------------------------------------------------

def roundtrips(obj) -> List[Tuple[str, Callable[[], Any]]]:
    cls = type(obj)
    return [
        ("bytes", lambda: cls.from_buffer_copy(bytes(obj))),
        ("dict", lambda: cls.from_dict(obj.to_dict())),
        ("json", lambda: cls.from_json(obj.to_json())),
        ("json-min", lambda: cls.from_json(obj.to_json(minify=True))),
        ("json-dict", lambda: cls.from_dict(json.loads(json.dumps(obj.to_dict(), cls=_enc())))),
        ("copy", lambda: cls.copy(obj)),
    ]


def _enc():
    from pyrtma.message_base import RTMAJSONEncoder

    return RTMAJSONEncoder


def check_obj(obj, label: str, problems: List[Dict[str, Any]], counters: Dict[str, int], is_msg: bool):
    import pyrtma
    from pyrtma.message import Message
    from pyrtma.header import MessageHeader, get_header_cls
    from pyrtma.exceptions import InvalidMessageDefinition

    want = bytes(obj)
    twice = "=" not in label  # whole-object value profiles
    for cname, fn in roundtrips(obj):
        counters["roundtrips"] = counters.get("roundtrips", 0) + 1
        try:
            back = fn()
        except Exception as e:
            problems.append({"kind": "codec-raised", "codec": cname, "what": label, "exc": f"{type(e).__name__}: {str(e)[:120]}"})
            continue
        if bytes(back) != want:
            problems.append({"kind": "roundtrip-differs", "codec": cname, "what": label, "first_diff": _first_diff(want, bytes(back))})
        if bytes(obj) != want:
            problems.append({"kind": "codec-mutated-source", "codec": cname, "what": label})
        if twice and len(want):
            # the decoded object is overwritten by its owner, then the same representation is decoded once more
            _scramble(back)
            try:
                again = fn()
                if bytes(again) != want or bytes(obj) != want:
                    problems.append({"kind": "second-decode-differs", "codec": cname, "what": label, "first_diff": _first_diff(want, bytes(again))})
            except Exception as e:
                problems.append({"kind": "codec-raised", "codec": cname + " (second decode)", "what": label, "exc": f"{type(e).__name__}: {str(e)[:120]}"})
    # a copy shares no storage
    cp = type(obj).copy(obj)
    n = len(want)
    if n:
        mv = memoryview(cp).cast("B")
        for i in range(n):
            mv[i] ^= 0xFF
        if bytes(obj) != want:
            problems.append({"kind": "copy-shares-storage", "what": label})
        src = type(obj).from_buffer_copy(want)
        cp2 = type(src).copy(src)
        mv2 = memoryview(src).cast("B")
        for i in range(n):
            mv2[i] ^= 0xFF
        if bytes(cp2) != want:
            problems.append({"kind": "copy-shares-storage", "what": label + " (source mutated)"})
    if is_msg:
      for hcls, stamp, hprof in ((get_header_cls(), None, "plain"), (get_header_cls(True), (1700000000, 4242), "timecode"), (get_header_cls(True), (0, 4242), "timecode-unstamped"),
                                 (get_header_cls(True), (0, 0), "timecode-zero"), (get_header_cls(), None, "plain-edges"), (get_header_cls(True), (2 ** 32 - 1, 2 ** 32 - 1), "timecode-edges"),
                                 (get_header_cls(), None, "plain-unfilled"), (get_header_cls(True), (0, 0), "timecode-unfilled")):
        tc = hcls is not get_header_cls()
        if hprof not in ("plain", "timecode") and "=" in label:
            continue  # the four extra header profiles go with the whole-object value profiles, not with every single-field object
        for ver, ok in ((0, True), (obj.type_hash, True), (obj.type_hash ^ 1, False), (0xFFFFFFFF if obj.type_hash != 0xFFFFFFFF else 1, False)):
              h = hcls()
              h.msg_type = obj.type_id
              h.msg_count = 7
              h.send_time = 1.5
              h.recv_time = -0.0
              h.src_mod_id = 12
              h.dest_mod_id = 3
              h.remaining_bytes = 3
              h.is_dynamic = 1
              h.num_data_bytes = ctypes.sizeof(obj)
              h.version = ver
              if hprof.endswith("unfilled"):
                  # a header as it comes out of the constructor: only the type (and the version under test) is set, every count is zero
                  h = hcls()
                  h.msg_type = obj.type_id
                  h.version = ver
              if hprof.endswith("edges"):
                  h.msg_count = -2 ** 31
                  h.send_time = -0.0
                  h.recv_time = float("nan")
                  h.src_host_id = 32767
                  h.dest_host_id = -32768
                  h.src_mod_id = -32768
                  h.dest_mod_id = 32767
                  h.remaining_bytes = -2 ** 31
                  h.is_dynamic = -1
              if tc:
                  h.utc_seconds, h.utc_fraction = stamp
              m = Message(h, obj)
              for minify in (False, True):
                  counters["message_roundtrips"] = counters.get("message_roundtrips", 0) + 1
                  try:
                      text = m.to_json(minify=minify)
                      m2 = Message.from_json(text)
                      if ok and twice and hprof in ("plain", "timecode"):
                          # the receiver works on what it decoded (a relay stamps the header, a handler edits the data); the
                          # same text decoded again is the original again
                          first = (bytes(m2.header), bytes(m2.data))
                          _scramble(m2.header)
                          _scramble(m2.data)
                          m3 = Message.from_json(text)
                          if (bytes(m3.header), bytes(m3.data)) != first:
                              problems.append({"kind": "second-decode-differs", "codec": "Message.from_json", "what": label, "minify": minify, "header": hprof})
                          m2 = m3
                      if not ok:
                          problems.append({"kind": "foreign-version-accepted", "what": label, "version": hex(ver)})
                          continue
                      if bytes(m2.data) != want or bytes(m2.header) != bytes(h):
                          problems.append({"kind": "message-roundtrip-differs", "what": label, "minify": minify, "header": hprof})
                  except InvalidMessageDefinition:
                      if ok:
                          problems.append({"kind": "own-version-refused", "what": label, "version": hex(ver)})
                  except Exception as e:
                      problems.append({"kind": "message-codec-raised", "what": label, "exc": f"{type(e).__name__}: {str(e)[:120]}"})
              try:
                  mc = Message.copy(m)
                  if bytes(mc.data) != want or bytes(mc.header) != bytes(h) or mc.data is m.data:
                      problems.append({"kind": "message-copy-differs", "what": label, "header": hprof})
              except Exception as e:
                  problems.append({"kind": "message-copy-raised", "what": label, "exc": f"{type(e).__name__}: {str(e)[:100]}"})


def _scramble(o):
    if ctypes.sizeof(o):
        mv = memoryview(o).cast("B")
        for i in range(len(mv)):
            mv[i] ^= 0xFF


def _first_diff(a: bytes, b: bytes):
    if len(a) != len(b):
        return {"len": [len(a), len(b)]}
    for i, (x, y) in enumerate(zip(a, b)):
        if x != y:
            return {"offset": i, "want": a[i:i + 4].hex(), "got": b[i:i + 4].hex()}
    return None


# ---- class universe ----------------------------------------------------------------------------------------

def load_classes(which: str):
    from pyrtma.message_base import MessageBase
    from pyrtma.message_data import MessageData

    if which == "core":
        import pyrtma.core_defs as mod
    elif which == "valx":
        mod = valx.load()
    elif which == "valx2":
        mod = valx.load2()
    else:
        path = os.path.join(core.REPO, "tests", "test_msg_defs", "test_defs.py")
        name = "vf_test_defs_c10"
        if name in sys.modules:
            mod = sys.modules[name]
        else:
            spec = importlib.util.spec_from_file_location(name, path)
            mod = importlib.util.module_from_spec(spec)
            sys.modules[name] = mod
            spec.loader.exec_module(mod)
    out = []
    for n, c in vars(mod).items():
        if isinstance(c, type) and issubclass(c, MessageBase) and c.__module__ == mod.__name__ and c not in (MessageBase, MessageData):
            out.append((n, c, issubclass(c, MessageData)))
    return out


PROFILES = ("zero", "min", "max", "mixed", "mixed2")


def work(item) -> Dict[str, Any]:
    which, cname, mode = item
    problems: List[Dict[str, Any]] = []
    counters: Dict[str, int] = {}
    if which == "valx2":
        # convert the first definition set's class of the same name first: nothing may be remembered by class NAME
        for n, cls, is_msg in load_classes("valx"):
            if n == cname:
                o = cls()
                fill(o, "mixed")
                try:
                    cls.from_dict(o.to_dict())
                except Exception as e:
                    problems.append({"kind": "codec-raised", "codec": "dict", "what": f"valx.{n}/mixed (before the second definition set)", "exc": f"{type(e).__name__}: {str(e)[:120]}"})
                if is_msg:
                    # ... and decoded once as header plus data while the FIRST definition was the registered one (the type id has
                    # been looked up before the definition is registered again with another layout)
                    import pyrtma
                    from pyrtma.message import Message
                    from pyrtma.header import get_header_cls

                    pyrtma.message_def(cls)
                    h = get_header_cls()()
                    h.msg_type = o.type_id
                    h.num_data_bytes = ctypes.sizeof(o)
                    h.version = o.type_hash
                    try:
                        Message.from_json(Message(h, o).to_json())
                    except Exception as e:
                        problems.append({"kind": "message-codec-raised", "what": f"valx.{n}/mixed before re-registration", "exc": f"{type(e).__name__}: {str(e)[:120]}"})
    for n, cls, is_msg in load_classes(which):
        if n != cname:
            continue
        if is_msg:
            import pyrtma

            pyrtma.message_def(cls)  # Message.from_json looks the class up by id
        for prof in PROFILES:
            obj = cls()
            try:
                fill(obj, prof)
            except Exception as e:
                problems.append({"kind": "profile-not-constructible", "what": f"{which}.{n}/{prof}", "exc": f"{type(e).__name__}: {str(e)[:100]}"})
                continue
            counters["objects"] = counters.get("objects", 0) + 1
            check_obj(obj, f"{which}.{n}/{prof}", problems, counters, is_msg)
        # a value reached AFTER the object has been converted: every conversion is performed once on the maximum profile, then one
        # field is written in place through the validated API (a nested struct's field, an element of a bound array, an element of a
        # struct array) and every conversion must describe the object as it is now
        import pyrtma.validators as V

        for path, d in paths(cls):
            obj = cls()
            try:
                fill(obj, "max")
                for _, fn in roundtrips(obj):
                    fn()
                if is_msg:
                    from pyrtma.message import Message
                    from pyrtma.header import get_header_cls

                    h0 = get_header_cls()()
                    h0.msg_type, h0.num_data_bytes, h0.version = obj.type_id, ctypes.sizeof(obj), obj.type_hash
                    Message(h0, obj).to_json()
                    Message(h0, obj).to_json(minify=True)
                before = bytes(obj)
                if isinstance(d, V.ByteArray):
                    tgt = obj
                    for q in path[:-1]:
                        tgt = tgt[q] if isinstance(q, int) else getattr(tgt, q)
                    getattr(tgt, path[-1])[len(d) - 1] = 1
                    how = "last element written in place"
                elif isinstance(d, V.ArrayField):
                    tgt = obj
                    for q in path[:-1]:
                        tgt = tgt[q] if isinstance(q, int) else getattr(tgt, q)
                    getattr(tgt, path[-1])[len(d) - 1] = field_values(d._validator, "zero")[0]
                    how = "last element written in place"
                elif len(path) > 1:
                    set_path(obj, path, field_values(d, "zero")[0])
                    how = "nested field assigned"
                else:
                    continue
                if bytes(obj) == before:
                    continue
            except Exception as e:
                problems.append({"kind": "value-not-constructible", "what": f"{which}.{n}.{path} edited after conversion", "exc": f"{type(e).__name__}: {str(e)[:80]}"})
                continue
            counters["objects"] = counters.get("objects", 0) + 1
            check_obj(obj, f"{which}.{n}/max, then {'.'.join(map(str, path))}: {how} after a first conversion", problems, counters, is_msg and len(bytes(obj)) < 4096)
        if mode == "paths":
            for path, d in paths(cls):
                for v in leaf_values(d):
                    obj = cls()
                    try:
                        set_path(obj, path, v)
                    except Exception as e:
                        problems.append({"kind": "value-not-constructible", "what": f"{which}.{n}.{path}={v!r:.40}", "exc": type(e).__name__})
                        continue
                    counters["objects"] = counters.get("objects", 0) + 1
                    check_obj(obj, f"{which}.{n}.{'.'.join(map(str, path))}={v!r:.40}", problems, counters, is_msg and len(bytes(obj)) < 4096)
                    # the same value assigned over an earlier one (every field at its maximum first): a value reached by two
                    # assignments is as constructible as one reached by one
                    obj = cls()
                    try:
                        fill(obj, "max")
                        set_path(obj, path, v)
                    except Exception as e:
                        problems.append({"kind": "value-not-constructible", "what": f"{which}.{n}.{path}={v!r:.40} over max", "exc": type(e).__name__})
                        continue
                    counters["objects"] = counters.get("objects", 0) + 1
                    check_obj(obj, f"{which}.{n}.{'.'.join(map(str, path))}={v!r:.40} assigned over the maximum profile", problems, counters,
                              is_msg and len(bytes(obj)) < 4096)
    return {"problems": problems, "counters": counters}


def run(tier: str) -> int:
    chk = core.Check("C10", tier, "exploration",
                     "every message/struct class of core_defs, tests/test_msg_defs and the VALX definition file x value profiles "
                     "and (per field path) every value of the field's alphabet x all codecs; bytes(decoded) == bytes(original), "
                     "copies share no storage, foreign header versions refused. Distinct non-trivial = distinct (class, field "
                     "path or profile) objects whose image is not all zero.")
    items = []
    for which in ("core", "valx", "tests", "valx2"):
        for n, cls, is_msg in load_classes(which):
            if which == "valx2" and not n.startswith(("V", "MDF_VAL")):
                continue
            mode = "paths" if (which in ("core", "valx") or tier == "thorough") else "profiles"
            items.append((which, n, mode))
    res = core.pmap(work, core.shuffled(items, "c10"), chunksize=4)
    core.close_pool()
    totals: Dict[str, int] = {}
    for (which, n, mode), r in zip(core.shuffled(items, "c10"), res):
        for k, v in r["counters"].items():
            totals[k] = totals.get(k, 0) + v
        for p in r["problems"]:
            w = p.get("what", "")
            detail = "embedded-nul" if "\\x00" in w and "char" not in w and p["kind"] == "roundtrip-differs" else ""
            chk.violation(f"C10:{p['kind']}:{p.get('codec', '')}:{detail}{p.get('header', '')}", f"{p}", {"module": "vf.checks.c10", "item": [which, n, mode], "problem": p}, size=len(w))
    chk.merge_counts(totals)
    chk.count("classes", len(items))
    chk.sample({"class": items[0][1], "mode": items[0][2], "profiles": list(PROFILES)})
    chk.sample({"string_alphabet_char[6]": str_alphabet(6)})
    chk.assumptions += ["values are built through the validated field API only", "CPython json module"]
    return chk.finish({"evaluations": totals.get("roundtrips", 0) + totals.get("message_roundtrips", 0),
                       "distinct_nontrivial": totals.get("objects", 0)})


def replay(case) -> int:
    r = work(tuple(case["item"]))
    want = case["problem"]
    hit = [p for p in r["problems"] if p["kind"] == want["kind"] and p.get("what") == want.get("what")]
    for p in hit[:5]:
        print("  PROBLEM:", p)
    print("reproduced" if hit else "NOT reproduced")
    return 1 if hit else 0
