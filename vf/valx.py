"""vf.valx - a generated definition file containing every validator kind at every width, compiled
from the current tree at check start, plus helpers shared by C09 / C10."""
from __future__ import annotations

import contextlib
import importlib.util
import io
import os
import sys
from typing import Any, Dict, List, Tuple

from . import core

INT_TYPES = {"int8": (8, True), "int16": (16, True), "int32": (32, True), "int64": (64, True),
             "uint8": (8, False), "uint16": (16, False), "uint32": (32, False), "uint64": (64, False)}
FLOAT_TYPES = {"float": 32, "double": 64}
LENS = (2, 3, 4)


def yaml_text2() -> str:
    """a second definition set that reuses the class names of the first with different layouts"""
    t = yaml_text()
    t = t.replace("      x: int16\n      y: int16", "      x: int16\n      y: int16\n      z: int32")
    t = t.replace("      a: int32\n      inner: VINNER\n      b: double", "      a: int32\n      b: double\n      inner: VINNER\n      extra: uint16[2]", 1)
    return t


def yaml_text() -> str:
    lines = ["compiler_options:", "  IMPORT_COREDEFS: false", "", "struct_defs:",
             "  VINNER:", "    fields:", "      x: int16", "      y: int16",
             "  VSUB:", "    fields:", "      a: int32", "      inner: VINNER", "      b: double", "      s: char[4]", "      t: char[4]",
             "  VOTHER:", "    fields:", "      a: int32", "      inner: VINNER", "      b: double", "      s: char[4]", "      t: char[4]",
             "  VUSS:", "    fields:", "      _x: int8[4]", "      _y: int32",
             "", "message_defs:"]
    mid = 6000
    for n in LENS:
        mid += 1
        lines += [f"  VAL{n}:", f"    id: {mid}", "    fields:"]
        for t in list(INT_TYPES) + list(FLOAT_TYPES):
            lines.append(f"      f_{t}: {t}")
            lines.append(f"      a_{t}: {t}[{n}]")
        lines += ["      c: char", f"      s: char[{n}]", "      b: byte", f"      ba: byte[{n}]", "      st: VSUB", f"      sa: VSUB[{n}]"]
        # a second array of every kind under another field name (array-to-array copies between differently named fields)
        for t in list(INT_TYPES) + list(FLOAT_TYPES):
            lines.append(f"      z_{t}: {t}[{n}]")
        lines += [f"      bz: byte[{n}]", f"      sz: VSUB[{n}]"]
    lines += ["  VSIG:", "    id: 6100", "    fields: null"]
    # definitions whose own field names are the keys of the header-plus-data layout
    lines += ["  VHD:", "    id: 6101", "    fields:", "      header: double", "      data: double"]
    lines += ["  VHD2:", "    id: 6102", "    fields:", "      header: VSUB", "      data: VSUB"]
    # long arrays (more elements than any array of the core definitions)
    lines += ["  VLONG:", "    id: 6105", "    fields:", "      w_uint64: uint64[40]", "      w_int64: int64[33]", "      w_uint32: uint32[32]", "      w_int16: int16[36]",
              "      w_uint8: uint8[64]", "      w_double: double[36]", "      w_float: float[40]", "      w_char: char[64]", "      w_byte: byte[40]"]
    # field names that begin (or begin twice, or end) with an underscore
    lines += ["  VUS:", "    id: 6104", "    fields:", "      _a: int32", "      __b: int16", "      _c_: int16", "      d_: double", "      _n: VUSS", "      _arr: VUSS[2]"]
    lines += ["  VHD3:", "    id: 6103", "    fields:", "      data: int16[2]", "      header: char[4]", "      more: int32"]
    return "\n".join(lines) + "\n"


_MOD = None


class _Subprocess:
    """stand-in for the `subprocess` name of pyrtma.compilers.python: the `black` re-format is
    skipped in bulk runs (assumed semantics preserving) and silenced when it does run"""

    def __init__(self, real_black: bool):
        self.real_black = real_black

    def run(self, args, **kw):
        import subprocess as sp

        if not self.real_black:
            return None
        kw.setdefault("capture_output", True)
        return sp.run(args, **kw)

    def __getattr__(self, name):
        import subprocess as sp

        return getattr(sp, name)


def compile_file(path: str, name: str, outdir: str, black: bool = False, **kw):
    """compile through the public entry point pyrtma.compile.compile (console chatter discarded)"""
    import pyrtma.compile as pc
    import pyrtma.compilers.python as pyc

    if not hasattr(pyc, "subprocess"):
        raise core.HarnessError("pyrtma.compilers.python no longer has a module-level 'subprocess' to rebind")
    old = pyc.subprocess
    pyc.subprocess = _Subprocess(black)
    try:
        with contextlib.redirect_stdout(io.StringIO()), contextlib.redirect_stderr(io.StringIO()):
            pc.compile([path], out_dir=outdir, out_name=name, **kw)
    finally:
        pyc.subprocess = old


def compile_defs(text: str, name: str, outdir: str, black: bool = False, **kw):
    path = os.path.join(outdir, name + ".yaml")
    with open(path, "w") as f:
        f.write(text)
    compile_file(path, name, outdir, black=black, **kw)
    return path


def import_generated(path: str, modname: str):
    spec = importlib.util.spec_from_file_location(modname, path)
    mod = importlib.util.module_from_spec(spec)
    sys.modules[modname] = mod
    spec.loader.exec_module(mod)
    return mod


def load():
    """compile the VALX definitions with the current tree and import them (once per process)"""
    global _MOD
    if _MOD is None:
        d = core.scratch_dir("valx")
        try:
            compile_defs(yaml_text(), "valx_defs", d, python=True)
            _MOD = import_generated(os.path.join(d, "valx_defs.py"), f"valx_defs_{os.getpid()}")
        finally:
            core.rmtree(d)
    return _MOD


_MOD2 = None


def load2():
    """the second definition set (same class names, other layouts); loaded after the first"""
    global _MOD2
    load()
    if _MOD2 is None:
        d = core.scratch_dir("valx2")
        try:
            compile_defs(yaml_text2(), "valx_defs2", d, python=True)
            _MOD2 = import_generated(os.path.join(d, "valx_defs2.py"), f"valx_defs2_{os.getpid()}")
        finally:
            core.rmtree(d)
    return _MOD2


def int_bounds(t: str) -> Tuple[int, int]:
    bits, signed = INT_TYPES[t]
    return (-(2 ** (bits - 1)), 2 ** (bits - 1) - 1) if signed else (0, 2 ** bits - 1)
