"""vf.proto - the RTMA wire protocol as the harness knows it (independent of pyrtma's classes).

Header layout, core message ids and control payload layouts are written out here from the
protocol definition (core_defs.yaml), so that the observer does not move together with a change to
pyrtma.header / pyrtma.core_defs.
"""
from __future__ import annotations

import struct
from typing import Any, Dict, List, NamedTuple, Optional, Tuple

HDR = struct.Struct("<iiddhhhhiiiI")  # 48 bytes
HDR_TC = struct.Struct("<iiddhhhhiiiIII")  # 56 bytes (timecode variant)
HFIELDS = ("msg_type", "msg_count", "send_time", "recv_time", "src_host_id", "src_mod_id",
           "dest_host_id", "dest_mod_id", "num_data_bytes", "remaining_bytes", "is_dynamic", "reserved")
HFIELDS_TC = HFIELDS + ("utc_seconds", "utc_fraction")

# constants of the protocol
MAX_MODULES = 200
DYN_MOD_ID_START = 100
MAX_HOSTS = 5
MAX_MESSAGE_TYPES = 10000
ALL_MESSAGE_TYPES = 0x7FFFFFFF
MAX_ACTIVE_CLIENTS = 256
MESSAGE_TRAFFIC_SIZE = 64

MT_EXIT = 0
MT_KILL = 1
MT_ACKNOWLEDGE = 2
MT_CONNECT_V2 = 4
MT_FAIL_SUBSCRIBE = 6
MT_FAILED_MESSAGE = 8
MT_CONNECT = 13
MT_DISCONNECT = 14
MT_SUBSCRIBE = 15
MT_UNSUBSCRIBE = 16
MT_MODULE_READY = 26
MT_MESSAGE_TRAFFIC = 30
MT_ACTIVE_CLIENTS = 31
MT_CLIENT_INFO = 32
MT_CLIENT_CLOSED = 33
MT_CLIENT_SET_NAME = 34
MT_RTMA_LOG = 40
MT_RTMA_LOG_CRITICAL = 41
MT_RTMA_LOG_ERROR = 42
MT_RTMA_LOG_WARNING = 43
MT_RTMA_LOG_INFO = 44
MT_RTMA_LOG_DEBUG = 45
MT_TIMING_MESSAGE = 80
MT_FORCE_DISCONNECT = 82
MT_PAUSE_SUBSCRIPTION = 85
MT_RESUME_SUBSCRIPTION = 86
LOG_TYPES = (40, 41, 42, 43, 44, 45)
CONTROL_TYPES = (MT_CONNECT, MT_CONNECT_V2, MT_DISCONNECT, MT_SUBSCRIBE, MT_UNSUBSCRIBE,
                 MT_PAUSE_SUBSCRIPTION, MT_RESUME_SUBSCRIPTION, MT_CLIENT_SET_NAME, MT_MODULE_READY)

P_CONNECT = struct.Struct("<hh")
P_CONNECT_V2 = struct.Struct("<hhhhi32s")
P_SUB = struct.Struct("<i")
P_READY = struct.Struct("<i")
P_NAME = struct.Struct("<32s")
P_CLIENT = struct.Struct("<32siihhhH32s")  # CLIENT_INFO / CLIENT_CLOSED
P_FAILED_HEAD = struct.Struct("<h3hd")  # followed by a 48-byte RTMA_MSG_HEADER
P_TRAFFIC = struct.Struct("<IIdd64i64H")
LOG_SIZE = 8 + 4 + 4 + 128 + 512 + 256 + 1024
TIMING_SIZE = 2 * MAX_MESSAGE_TYPES + 4 * MAX_MODULES + 8
ACTIVE_SIZE = 8 + 2 + 2 + 4 + 2 * MAX_ACTIVE_CLIENTS + 4 * MAX_ACTIVE_CLIENTS

CORE_SIZES = {
    MT_EXIT: 0, MT_KILL: 0, MT_ACKNOWLEDGE: 0, MT_CONNECT_V2: 44, MT_FAIL_SUBSCRIBE: 8, MT_FAILED_MESSAGE: 64,
    MT_CONNECT: 4, MT_DISCONNECT: 0, MT_SUBSCRIBE: 4, MT_UNSUBSCRIBE: 4, MT_MODULE_READY: 4,
    MT_MESSAGE_TRAFFIC: P_TRAFFIC.size, MT_ACTIVE_CLIENTS: ACTIVE_SIZE, MT_CLIENT_INFO: 80, MT_CLIENT_CLOSED: 80,
    MT_CLIENT_SET_NAME: 32, MT_TIMING_MESSAGE: TIMING_SIZE, MT_FORCE_DISCONNECT: 4,
    MT_PAUSE_SUBSCRIPTION: 4, MT_RESUME_SUBSCRIPTION: 4,
    **{t: LOG_SIZE for t in LOG_TYPES},
}


def hstruct(timecode: bool) -> struct.Struct:
    return HDR_TC if timecode else HDR


class Frame(NamedTuple):
    h: Tuple  # header fields in HFIELDS(_TC) order
    payload: bytes

    @property
    def msg_type(self):
        return self.h[0]

    @property
    def msg_count(self):
        return self.h[1]

    @property
    def src_mod_id(self):
        return self.h[5]

    @property
    def dest_mod_id(self):
        return self.h[7]

    @property
    def nbytes(self):
        return self.h[8]

    def field(self, name):
        return self.h[HFIELDS_TC.index(name)]


def mkheader(timecode: bool = False, **kw) -> bytes:
    names = HFIELDS_TC if timecode else HFIELDS
    vals = []
    for n in names:
        v = kw.pop(n, 0)
        vals.append(float(v) if n in ("send_time", "recv_time") else v)
    if kw:
        raise KeyError(f"unknown header fields {sorted(kw)}")
    return hstruct(timecode).pack(*vals)


def mkframe(msg_type: int, payload: bytes = b"", timecode: bool = False, **kw) -> bytes:
    kw.setdefault("num_data_bytes", len(payload))
    return mkheader(timecode, msg_type=msg_type, **kw) + payload


def cname(s: bytes) -> str:
    return s.split(b"\0", 1)[0].decode("latin-1")


def parse_stream(buf: bytes, timecode: bool = False) -> Tuple[List[Frame], bytes, Optional[str]]:
    """Cut a byte stream into frames with the declared lengths.
    Returns (frames, leftover, problem). leftover != b'' means the stream does not end on a
    frame boundary; problem is set when a declared length is negative."""
    hs = hstruct(timecode)
    out: List[Frame] = []
    i = 0
    n = len(buf)
    while n - i >= hs.size:
        h = hs.unpack_from(buf, i)
        nb = h[8]
        if nb < 0:
            return out, bytes(buf[i:]), f"negative num_data_bytes {nb} in frame {len(out)}"
        if n - i - hs.size < nb:
            break
        out.append(Frame(h, bytes(buf[i + hs.size:i + hs.size + nb])))
        i += hs.size + nb
    return out, bytes(buf[i:]), None


# ---- payload builders for raw clients ---------------------------------------------------------

def p_connect(logger=0, daemon=0) -> bytes:
    return P_CONNECT.pack(logger, daemon)


def p_connect_v2(logger=0, daemon=0, allow_multiple=0, mod_id=0, pid=0, name: bytes = b"") -> bytes:
    return P_CONNECT_V2.pack(logger, daemon, allow_multiple, mod_id, pid, name)


def p_sub(mt: int) -> bytes:
    return P_SUB.pack(mt)


def decode_client_payload(p: bytes) -> Dict[str, Any]:
    addr, uid, pid, mod_id, is_logger, is_unique, port, name = P_CLIENT.unpack(p)
    return dict(addr=cname(addr), uid=uid, pid=pid, mod_id=mod_id, is_logger=is_logger, is_unique=is_unique,
                port=port, name=cname(name))


def decode_failed(p: bytes) -> Dict[str, Any]:
    dest, _r0, _r1, _r2, tof = P_FAILED_HEAD.unpack_from(p, 0)
    h = HDR.unpack_from(p, P_FAILED_HEAD.size)
    return dict(dest_mod_id=dest, time_of_failure=tof, msg_type=h[0], src_mod_id=h[5], dest_mod_id_orig=h[7],
                header=h)


def decode_timing(p: bytes) -> Tuple[Dict[int, int], Dict[int, int]]:
    counts = struct.unpack_from(f"<{MAX_MESSAGE_TYPES}H", p, 0)
    pids = struct.unpack_from(f"<{MAX_MODULES}i", p, 2 * MAX_MESSAGE_TYPES)
    return ({i: c for i, c in enumerate(counts) if c}, {i: c for i, c in enumerate(pids) if c})


def decode_traffic(p: bytes) -> Dict[str, Any]:
    v = P_TRAFFIC.unpack(p)
    return dict(seqno=v[0], sub_seqno=v[1], start=v[2], end=v[3], types=list(v[4:68]), counts=list(v[68:132]))


def normalize(fr: Frame) -> Tuple:
    """Canonical, comparable form of a frame a client received.

    Manager-originated frames (recognised by type, source 0 and exact size) are reduced to the
    fields the properties speak about; every other frame keeps all header fields except the
    restamped msg_count, plus the payload bytes."""
    t, src, nb = fr.h[0], fr.h[5], fr.h[8]
    if src == 0 and fr.h[4] == 0:
        if t == MT_ACKNOWLEDGE and nb == 0:
            return ("ack", fr.h[7])
        if t in (MT_CLIENT_INFO, MT_CLIENT_CLOSED) and nb == 80:
            d = decode_client_payload(fr.payload)
            return ("info" if t == MT_CLIENT_INFO else "closed", d["mod_id"], d["name"], d["is_logger"],
                    d["is_unique"], d["pid"])
        if t == MT_FAILED_MESSAGE and nb == 64:
            d = decode_failed(fr.payload)
            return ("failed", d["dest_mod_id"], d["msg_type"], d["src_mod_id"], d["dest_mod_id_orig"])
        if t == MT_TIMING_MESSAGE and nb == TIMING_SIZE:
            return ("timing",)
        if t == MT_MESSAGE_TRAFFIC and nb == P_TRAFFIC.size:
            return ("traffic",)
        if t == MT_ACTIVE_CLIENTS and nb == ACTIVE_SIZE:
            return ("active",)
        if t in LOG_TYPES and nb == LOG_SIZE:
            return ("log", t)
    return ("fwd", fr.h[0], fr.h[2:], fr.payload)
