"""CLI: python -m vf <C01..C19> [--tier quick|thorough] | replay <path> | setup | conformance"""
from __future__ import annotations

import argparse
import importlib
import json
import os
import sys
import traceback


def main(argv=None) -> int:
    ap = argparse.ArgumentParser(prog="vcheck")
    ap.add_argument("what")
    ap.add_argument("arg", nargs="?")
    ap.add_argument("--tier", default=None)
    a = ap.parse_args(argv)
    from . import core

    try:
        core.assert_repo_is_live()
        if a.what == "setup":
            from . import selftest

            return selftest.run()
        if a.what == "replay":
            from . import replay

            return replay.run(a.arg)
        if a.what == "conformance":
            from . import net

            r = net.conformance()
            print(json.dumps(r, indent=1, default=str))
            return 0 if not r["mismatches"] else 2
        prop = a.what.upper()
        tier = a.tier or core.tier_from_env()
        mod = importlib.import_module(f"vf.checks.{prop.lower()}")
        return mod.run(tier)
    except core.HarnessError as e:
        print(f"HARNESS-ERROR: {e}", file=sys.stderr)
        traceback.print_exc()
        return 2
    except Exception as e:
        print(f"HARNESS-ERROR (unexpected {type(e).__name__}): {e}", file=sys.stderr)
        traceback.print_exc()
        return 2


if __name__ == "__main__":
    sys.exit(main())
