"""vf.lock - lock-step execution of the real manager (vf.mmx.World) and the reference hub
(vf.spec.SpecHub) under one stream of environment events, with per-round comparison.

Events (JSON-able lists):
  ["conn", slot]                     TCP connect of slot (accepted by the next round that sees it)
  ["send", slot, hex]                slot writes these bytes
  ["fin", slot] / ["rst", slot]      slot closes / resets its connection
  ["waitdeath", slot, how]           slot (a logger) goes away while the hub next waits for it to become writable
  ["round", order, [slots...]]       one manager round: service-order choice, non-writable slots
  ["settle"]                         default rounds until nothing is readable

Comparison after every round, per live slot: the multiset of normalised frames received must be
the reference's (frames the reference marks optional may or may not appear); frames from one
source keep their order; sequence numbers are 1,2,3,...; the stream ends on a frame boundary.
Each discrepancy is attributed to the property whose statement it contradicts.
"""
from __future__ import annotations

import collections
from collections import Counter
from typing import Any, Dict, List, Optional, Sequence, Tuple

from . import mmx, proto as P, spec
from .core import HarnessError

KIND_PROP = {"fwd": "C01", "ack": "C19", "closed": "C07", "failed": "C14", "info": "C06",
             "timing": "C18", "traffic": "C18", "active": "C18", "log": "C14"}


class Env:
    def __init__(self, timecode: bool = False, fin_grace: int = 0, hids: Optional[Dict[Any, int]] = None,
                 check_seq: bool = True):
        self.timecode = timecode
        self.hids = dict(hids or {})
        self.w = mmx.World(timecode=timecode, fin_grace=fin_grace)
        self.s = spec.SpecHub(timecode=timecode, fin_grace=fin_grace)
        self.hist: List[List] = []
        self.problems: List[Dict[str, Any]] = []
        self.seq: Dict[Any, int] = {}
        self.check_seq = check_seq
        self.rounds = 0
        # (a defaultdict: a driver that asks what a slot received after the manager has died - when connections are no longer
        # made - reads an empty list instead of tripping over a missing key; the death itself is among the problems)
        self.received: Dict[Any, List[Tuple]] = collections.defaultdict(list)
        self.last_round: Dict[Any, List[Tuple]] = {}
        self.dead = False

    # ---- events -------------------------------------------------------------------------------
    def apply(self, ev: Sequence) -> List[Dict[str, Any]]:
        """Apply one event to both worlds; returns the problems found by this event."""
        self.hist.append(list(ev))
        kind = ev[0]
        before = len(self.problems)
        if not self.dead and not self.w.alive:
            self._mark_dead()
        if self.dead:
            return self.problems[before:]
        if kind == "conn":
            slot = ev[1]
            hid = self.hids.get(slot)
            self.w.client(slot, hid).connect()
            self.s.client(slot, hid).connect()
            self.seq[slot] = 0
            self.received[slot] = []
        elif kind == "send":
            slot, data = ev[1], bytes.fromhex(ev[2])
            # a client writing to a connection the hub has already closed just gets an error
            for sock in (self.w.clients[slot].sock, self.s.clients[slot].sock):
                try:
                    sock.sendall(data)
                except ConnectionError:
                    pass
        elif kind == "send2":
            # the same bytes arriving as two TCP segments (both there before the next round)
            slot = ev[1]
            for part in (bytes.fromhex(ev[2]), bytes.fromhex(ev[3])):
                for sock in (self.w.clients[slot].sock, self.s.clients[slot].sock):
                    try:
                        sock.sendall(part)
                    except ConnectionError:
                        pass
        elif kind == "fin":
            self.w.clients[ev[1]].fin()
            self.s.clients[ev[1]].sock.close()
        elif kind == "rst":
            self.w.clients[ev[1]].rst()
            self.s.clients[ev[1]].sock.reset()
        elif kind == "waitdeath":
            # the peer of this (logger) slot goes away while the hub is waiting for it to become writable
            self.w.wait_deaths[ev[1]] = ev[2]
            self.s.wait_deaths[ev[1]] = ev[2]
        elif kind == "round":
            self._round(ev[1], ev[2])
        elif kind == "settle":
            n = 0
            while not self.dead:
                # the reference may still hold unread input where the implementation has none (it has dropped that connection):
                # the rounds go on until BOTH are quiet, otherwise what the reference still delivers would never be compared
                wr = self.w.readable_now()
                pending = self._spec_pending()
                if not wr and not pending:
                    break
                self._round(0, [])
                if not wr and self._spec_pending() == pending:
                    break  # nothing the reference can consume (input of a connection it does not serve)
                n += 1
                if n > 200:
                    raise HarnessError("no quiescence")
        else:
            raise HarnessError(f"unknown event {ev}")
        return self.problems[before:]

    def send(self, slot, data: bytes):
        return self.apply(["send", slot, data.hex()])

    def round(self, order=0, nonwritable=()):
        return self.apply(["round", order, list(nonwritable)])

    def settle(self):
        return self.apply(["settle"])

    def _spec_pending(self) -> int:
        """bytes the reference hub has not read yet (plus one per connection waiting to be accepted)"""
        n = sum(len(c.sock.rx) + (1 if c.sock.readable() and not c.sock.rx else 0) for c in self.s.conns)
        return n + (1 if self.s.lsock.readable() else 0)

    def nready(self) -> int:
        """number of client sockets the next round will find ready (for enumerating service orders)"""
        return sum(1 for c in self.s.conns if c.sock.readable())

    # ---- one round + comparison -------------------------------------------------------------------
    def _problem(self, prop, kind, **kw):
        d = {"prop": prop, "kind": kind, "round": self.rounds, **kw}
        self.problems.append(d)

    def _mark_dead(self):
        self.dead = True
        ex = self.w.exit or ("?",)
        self._problem("C03", "manager-" + ex[0], detail=ex[1] if len(ex) > 1 else "",
                      trace=(ex[2][-1500:] if len(ex) > 2 else ""))

    def _round(self, order, nonwritable):
        if self.dead:
            return
        self.rounds += 1
        self.w.step(order, nonwritable)
        self.s.round(order, nonwritable)
        self.last_round = {}
        if not self.w.alive:
            self._mark_dead()
            return
        for slot, ic in self.w.clients.items():
            sc = self.s.clients[slot]
            if ic.gone:
                sc.sock.rx.clear()
                sc.optional.clear()
                continue
            got_frames = ic.drain()
            exp_frames = sc.drain()
            if ic.stream_problem:
                self._problem("C05", "stream", slot=slot, detail=ic.stream_problem)
                ic.stream_problem = None
            if ic.leftover():
                self._problem("C05", "partial-frame", slot=slot, leftover=ic.leftover())
            if self.check_seq:
                for f in got_frames:
                    self.seq[slot] += 1
                    if f.msg_count != self.seq[slot]:
                        self._problem("C05", "sequence", slot=slot, expected=self.seq[slot], got=f.msg_count,
                                      msg_type=f.msg_type)
                        self.seq[slot] = f.msg_count
            got = [P.normalize(f) for f in got_frames]
            exp = [P.normalize(f) for f in exp_frames]
            opt = Counter(sc.optional)
            sc.optional.clear()
            self.received[slot].extend(got)
            self.last_round[slot] = got
            cg, ce = Counter(got), Counter(exp)
            if cg != ce:
                missing = ce - cg
                extra = cg - ce
                # optional frames may be absent
                for k in list(missing):
                    take = min(missing[k], opt.get(k, 0))
                    if take:
                        missing[k] -= take
                        if not missing[k]:
                            del missing[k]
                for k, n in missing.items():
                    self._problem(KIND_PROP.get(k[0], "C01"), "missing", slot=slot, frame=_show(k), count=n)
                for k, n in extra.items():
                    self._problem(KIND_PROP.get(k[0], "C01"), "unexpected", slot=slot, frame=_show(k), count=n)
            else:
                # same multiset: frames of one source must keep their relative order (C05)
                for src in {k[2][3] for k in got if k[0] == "fwd"}:
                    a = [k for k in got if k[0] == "fwd" and k[2][3] == src]
                    b = [k for k in exp if k[0] == "fwd" and k[2][3] == src]
                    if a != b:
                        self._problem("C05", "sender-order", slot=slot, src=src)
        # registered-module agreement (cheap early warning; not a verdict on its own)

    def close(self):
        try:
            self.w.stop()
        finally:
            pass

    def key(self) -> Tuple:
        return (self.s.state_key(), self.w.digest())


def _show(k: Tuple):
    if k and k[0] == "fwd":
        return ["fwd", k[1], list(k[2]), k[3][:16].hex() + ("..." if len(k[3]) > 16 else ""), len(k[3])]
    return list(k)


def run_events(events: Sequence[Sequence], **kw) -> Tuple[List[Dict[str, Any]], Env]:
    """Replay an event list on fresh worlds; returns (problems, env). Caller closes env."""
    env = Env(**kw)
    for ev in events:
        env.apply(ev)
        if env.dead:
            break
    return env.problems, env
