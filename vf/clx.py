"""vf.clx - the real pyrtma.client.Client on the virtual network, against the stepped manager
(or, for C08, against a scripted byte stream with no manager at all)."""
from __future__ import annotations

import gc
import logging
from typing import Any, Dict, List, Optional, Tuple

from . import mmx, net as N, proto as P
from .core import HarnessError


class ClientWorld(mmx.World):
    """World + the plumbing real Clients need: their blocking reads pump manager rounds."""

    def __init__(self, **kw):
        super().__init__(**kw)
        mmx._mute_rich()
        self.cli_socks: List[Tuple[N.VSock, N.VSock]] = []
        self.net.connect_observer = self._on_connect
        self.net.cli_pump = self._pump
        self.real_clients: List[Any] = []

    def _on_connect(self, cli, mgr_side):
        cli.keep_sent = True
        self.cli_socks.append((cli, mgr_side))

    def _pump(self) -> bool:
        if self.finished or not self.readable_now():
            return False
        self.step()
        return True

    def new_client(self, *a, **kw):
        import pyrtma.client as C

        c = C.Client(*a, **kw)
        quiet(c)
        self.real_clients.append(c)
        return c

    def sent_frames(self, client) -> List[P.Frame]:
        """everything this client object has written on its current connection, as frames"""
        sock = client._sock
        data = b"".join(sock.sent_log)
        frames, rest, prob = P.parse_stream(data, self.timecode)
        return frames

    def stop(self):
        for c in self.real_clients:
            release(c)
        self.real_clients.clear()
        super().stop()


def quiet(c):
    try:
        c.logger.enable_console = False
    except Exception:
        pass


def release(c):
    """GC is an unowned scheduler: make __del__ a no-op before the object is dropped."""
    try:
        c._connected = False
        c._sock.close()
    except Exception:
        pass
    try:
        lg = c.logger._logger
        for h in list(lg.handlers):
            lg.removeHandler(h)
        for f in list(lg.filters):
            lg.removeFilter(f)
        logging.Logger.manager.loggerDict.pop(lg.name, None)
    except Exception:
        pass


class ScriptedPeer:
    """For C08: a Client whose connection is fed from a scripted byte stream (no manager)."""

    def __init__(self, timecode=False):
        import pyrtma.client as C

        N.install()
        mmx._mute_rich()
        self.net = N.VNet()
        N.set_current(self.net)
        self.lsock = N.VSock(self.net)
        self.lsock.bind(("127.0.0.1", mmx.PORT))
        self.lsock.listen()
        self.client = C.Client(module_id=33, timecode=timecode)
        quiet(self.client)
        self.client._socket_connect(mmx.SERVER)
        self.peer, _ = self.lsock.accept()
        self.client._sock.keep_sent = True

    def feed(self, data: bytes):
        self.peer.sendall(data)

    def close(self):
        release(self.client)
        N.set_current(None)
