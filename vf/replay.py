"""Re-execute a recorded violation without the explorer: ./vcheck replay <path>"""
from __future__ import annotations

import importlib
import json
import sys


def run(path: str) -> int:
    with open(path) as f:
        obj = json.load(f)
    case = obj["case"]
    print(f"replaying {path}\n property={obj['property']} key={obj['key']}\n what={obj['what']}")
    eng = case.get("engine")
    if eng == "lock":
        from . import lock, proto as P

        hids = case.get("hids") or {}
        res = []
        for attempt in (1, 2):
            problems, env = lock.run_events(case["events"], timecode=bool(case.get("tc")),
                                            fin_grace=int(case.get("fin_grace", 0)), hids=hids)
            env.close()
            res.append(json.dumps(problems, sort_keys=True, default=str))
        if res[0] != res[1]:
            print("HARNESS-ERROR: replay is not deterministic")
            return 2
        for ev in case["events"]:
            if ev[0] == "send":
                frames, rest, _ = P.parse_stream(bytes.fromhex(ev[2]), bool(case.get("tc")))
                desc = [(f.msg_type, f.dest_mod_id, f.payload[:8].hex()) for f in frames[:8]]
                print(f"  send {ev[1]}: {len(frames)} frame(s) {desc}{' +%d bytes' % len(rest) if rest else ''}")
            else:
                print(f"  {ev}")
        problems = json.loads(res[0])
        for p in problems:
            print("  PROBLEM:", p)
        print("reproduced" if problems else "NOT reproduced on the current tree")
        return 1 if problems else 0
    mod = case.get("module")
    if mod:
        m = importlib.import_module(mod)
        return m.replay(case)
    print("unknown replay format")
    return 2
