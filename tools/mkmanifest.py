#!/usr/bin/env python3
"""Regenerate /verif/MANIFEST.json from the table below (kept valid at all times)."""
import json, os, sys

HERE = os.path.dirname(os.path.dirname(os.path.abspath(__file__)))
BASELINE = "cd /repo && /venv/bin/python -m pytest -ra -q -p no:cacheprovider --timeout=900 --continue-on-collection-errors"

CHECKS = {
    "C01": dict(engine="MMX+SPEC", level="model_checking", ref="DESIGN.md 4/C01",
                technique="explicit-state BFS of the real MessageManager on a virtual network, lock-step reference hub, probe set in every state",
                text="All reachable joint subscription states of 2-3 subscribers + 0-2 loggers + monitor are enumerated to a fixpoint on the real manager; every transition and a full probe set in every state are compared frame-by-frame with a reference hub; same-round operation pairs in both service orders and non-writable subsets are included.",
                note="Trusted: virtual TCP model (conformance-checked against loopback), reference hub (vf/spec.py), bounds on clients/types."),
    "C03": dict(engine="MMX", level="fault_enumeration", ref="DESIGN.md 4/C03",
                technique="exhaustive fault enumeration (single faults and all pairs x service orders) against the real MessageManager on a virtual network",
                text="Every fault of a finite alphabet (header-field boundaries, message type ids x payload shapes, hostile lengths and control payloads, FIN/RST at every byte offset of every protocol frame in every protocol position, connection floods, recipients dying before/while the manager writes) is applied singly and pairwise (same round under every service order and both hash orders, and consecutive rounds); the manager must keep running and keep serving bystanders and a fresh client pair, and its timers must keep firing.",
                note="Trusted: virtual TCP model (its conformance pass against real loopback sockets runs inside this check). A peer that withholds the rest of a frame is never injected (documented stall)."),
    "C05": dict(engine="MMX", level="model_checking", ref="DESIGN.md 4/C05",
                technique="exhaustive schedule enumeration (injection schedules x service orders x bounded environment deviations) on the real MessageManager with stream invariants",
                text="All injection schedules of two publishers, all service orders, and all placements of up to 2-3 deviations (timer ticks, control frames, non-writable receivers) are executed on the real manager; every written byte stream is checked for whole frames, msg_count 1,2,3,..., per-sender FIFO and pairwise cross-receiver order.",
                note="Trusted: virtual TCP model; bounds: 2 publishers x <=3 messages, 4 receivers."),
    "C19": dict(engine="MMX+SPEC", level="model_checking", ref="DESIGN.md 4/C19",
                technique="explicit-state BFS of the real MessageManager with the control-frame alphabet, lock-step reference hub, ACK projection",
                text="All reachable connection/subscription states under the control-heavy alphabet (all handshake variants incl. refused ones, repeated/no-op requests, MODULE_READY, CLIENT_SET_NAME, DISCONNECT, data, 0-2 loggers) are enumerated to a fixpoint; after every round the ACKNOWLEDGE frames on every connection are compared with the reference; every same-round pair runs in both service orders.",
                note="Trusted: virtual TCP model, reference hub; <=4 modules + 2 loggers."),
    "C07": dict(engine="MMX+SPEC", level="model_checking", ref="DESIGN.md 4/C07",
                technique="exhaustive crash-point / departure enumeration executed on the real MessageManager in lock step with the reference hub",
                text="Leaver position x way and moment of leaving (FIN/RST after every byte offset of outgoing frames, DISCONNECT, refusal, discovery on the read side or during a forward / ACK / logger copy / CLIENT_CLOSED / FAILED_MESSAGE delivery) x optional second leaver x every service order x both hash orders x fin_grace; every execution is compared with the reference and, independently, checked for exactly one CLIENT_CLOSED describing the leaver, immediate id+name reuse and undisturbed survivors.",
                note="Trusted: virtual TCP model, reference hub; one or two leavers."),
    "C14": dict(engine="MMX+SPEC", level="model_checking", ref="DESIGN.md 4/C14",
                technique="exhaustive enumeration of readiness schedules (non-writable subsets x dead subsets x service orders) of one delivery on the real MessageManager, lock-step reference plus independent notice counting",
                text="For each published kind every subset of recipients reported not writable, every subset dead at send time (FIN/RST, failing at the header or at the payload send), every service order and both hash orders are executed; deliveries and FAILED_MESSAGE notices are compared with the reference hub and counted independently of it; loggers must be waited for; notices about FAILED_MESSAGE / RTMA_LOG* must never appear.",
                note="Trusted: virtual TCP model, reference hub; the count for a dead subscriber removed by a nested delivery before its turn is unspecified (accepted 0 or 1, consistently)."),
    "C06": dict(engine="MMX+SPEC+CLX", level="model_checking", ref="DESIGN.md 4/C06",
                technique="explicit-state BFS over connect/disconnect histories of the real MessageManager (lock-step reference, independent verdict function, duplicate-id invariant), exhaustive dynamic-id wrap runs, exhaustive option combinations through the real Client entry points",
                text="All connect/disconnect histories of 2-3 connection slots over the full connect alphabet are explored to a fixpoint; each verdict (acknowledged id / refusal) is compared with an independent reading of the statement and the no-duplicate-id invariant is evaluated in every state; the dynamic cursor is driven through its wrap for every subset of kept-alive dynamic clients; every combination of logger/daemon/allow_multiple/id/name through Client.connect (keyword and positional) and client_context is checked on the wire and in the manager's CLIENT_INFO.",
                note="Trusted: virtual TCP model, reference hub; the verdict at id == DYN_MOD_ID_START and for a unique newcomer reusing a non-unique module's name is treated as unspecified."),
    "C18": dict(engine="MMX", level="model_checking", ref="DESIGN.md 4/C18",
                technique="exhaustive enumeration of interval sequences (content alphabet x timer steps) on the real MessageManager with a virtual clock; observer-derived oracle",
                text="Every sequence of 2-3 reporting intervals over the content alphabet (0..300 distinct types incl. 63/64/65/127/128/129, repeated types, a 65535 count) and timer steps (TIMING only / TIMING+TRAFFIC) is executed; each TIMING_MESSAGE and each MESSAGE_TRAFFIC report group is compared with what an always-served logger observed in the same interval; ModulePID entries are checked.",
                note="Trusted: virtual TCP model and clock; only valid destination ids are published (whether refused messages count is unspecified)."),
    "C02": dict(engine="CLX+MMX", level="model_checking", ref="DESIGN.md 4/C02",
                technique="explicit-state BFS over the joint client/manager subscription state driven through the real Client API against the real MessageManager, probe publish after every transition",
                text="All 28 joint subscription states are reached and from each every public subscription operation with every argument shape (lists up to length 3 with duplicates and ALL in every position, the *_all helpers, both context managers with every list) is executed by the real Client; after each a raw publisher sends every type and the arrivals on the wire are compared with the client's reported sets, read_message output, refusal behaviour while subscribed to all, and context restoration.",
                note="Trusted: virtual TCP model; one client, 3 types + ALL + a never-subscribed type."),
    "C08": dict(engine="CLX", level="exploration", ref="DESIGN.md 4/C08",
                technique="bounded-exhaustive enumeration of incoming frame sequences, read parameters, subscription changes and close offsets against the real Client on a scripted virtual connection, compared call by call with a reference reader",
                text="Every sequence of up to 3-4 frames over a 13-kind alphabet (good, unsubscribed, paused, ACK, signal, unknown type, wrong sizes, wrong/zero version) x all read_message parameter combinations, one subscription change at every position, and FIN/RST at every byte offset of the stream, both header layouts; each read_message call is compared with the reference reader (returned bytes, exception class, resynchronisation, filtering, connected flag).",
                note="Trusted: virtual TCP model, reference reader (DESIGN appendix B). timeout==0 may return None after discarding (both accepted)."),
    "C09": dict(engine="VALX", level="exploration", ref="DESIGN.md 4/C09",
                technique="bounded-exhaustive enumeration of (validator kind, assignment form, value/position) over the real descriptor classes with a snapshot/readback oracle; exhaustive well-nested disable-block sequences",
                text="Every validator kind and width of a definition file compiled from the current tree x every assignment form (attribute, element at every index, every (start,stop,step) slice, whole array from list/tuple/bound array/ctypes array, nested struct, struct-array element/slice) x every boundary value, every position of a single bad element (also next to NaN), wrong lengths; every well-nested sequence of disable blocks left normally or by exception.",
                note="Trusted: CPython/ctypes conversions as ground truth for the nearest representable value; '' for a char is treated as unspecified (explicit +-inf are out of the domain: an accepted value reads back finite)."),
    "C10": dict(engine="VALX", level="exploration", ref="DESIGN.md 4/C10",
                technique="bounded-exhaustive enumeration of (class, field path, value) x codecs over all shipped, test and generated message classes with a byte-equality oracle",
                text="Every message/struct class of core_defs, tests/test_msg_defs and the generated VALX file x value profiles and per-field alphabets (extremes, -0.0, NaN, empty/max-length strings, control characters, quotes, backslashes, 0x00/0xFF byte arrays) x {bytes, dict, JSON pretty/minified, Message JSON, copy}; byte equality, storage independence of copies, refusal of foreign header versions.",
                note="Trusted: CPython json; values are built through the validated API only."),
    "C11": dict(engine="DEFX", level="exploration", ref="DESIGN.md 4/C11",
                technique="bounded-exhaustive enumeration of definition programs (field sequences) compiled by the real compiler; layouts cross-checked between a reference computation, gcc (offsetof/sizeof/_Alignof on the generated header), ctypes (generated Python classes) and the parser; auto_pad on/off differential",
                text="Every field sequence up to the length bound over scalars of width 1/2/4/8, arrays, nested structs of alignment 1/2/4/8 (tail-padded or not), arrays of those and field-list reuse, as struct and message; natural alignment, no hidden padding, minimal char-only padding that preserves the user's fields, auto_pad-off accepts iff no padding is needed, and the 65535-byte limit at its boundary.",
                note="Trusted: gcc x86-64 layout, ctypes; batches of 300 definitions per compiled program."),
    "C12": dict(engine="DEFX", level="exploration", ref="DESIGN.md 4/C12",
                technique="bounded-exhaustive enumeration of definition programs over import-graph shapes x item placements, parsed by the real parser and compared with set semantics",
                text="Every import-graph shape on <=4 files (chains, fans, diamond, repeated imports by different relative paths, sub-directory, same file name in two directories, cycle) x every ordered pair of files x every pair of kinds sharing the name space, every pair of message-id forms (message, signal, reserved int / 'a - b' / 'a to b'), module/host id clashes, range violations, clashes against the core definitions; and every conflict-free placement of up to 4 definitions: exact error class, exact registry, each file read once, CLI exit code.",
                note="Trusted: ruamel.yaml duplicate-key detection. Every generated file defines at least one item (an empty YAML document is not treated as a definition file)."),
    "C13": dict(engine="DEFX+CLX", level="exploration", ref="DESIGN.md 4/C13",
                technique="bounded-exhaustive metamorphic enumeration (every single edit, every relocation) of message definitions hashed by the real parser; cross-language and cross-process comparison; wire observation of the real Client",
                text="Base messages with 0-3 fields x every single edit (rename, id, field rename/retype/insert/delete/transpose, signal<->message) must give pairwise distinct hashes; every relocation (imported file, sub-directory, other file name, import order, comments/blank lines/unrelated definitions, core import, alignment options) must keep the hash; separate processes with different PYTHONHASHSEED/cwd agree; Python/C/JS/MATLAB outputs carry the same 32-bit value; the real Client stamps it into header.version for every generated and core class.",
                note="Known finding (open): field-list reuse hashes the source's name, not its fields. send_signal(type_id) has no class at hand and sends version 0 (unspecified)."),
    "C15": dict(engine="DEFX", level="exploration", ref="DESIGN.md 4/C15",
                technique="bounded-exhaustive enumeration of definition programs (all reference shapes x placements), one compile per program, outputs loaded in Python / gcc / node / a MATLAB-subset interpreter",
                text="Every program of up to 3-4 definitions (alias, struct, message, signal, field-list reuse) in which each definition refers to a native type or to any earlier definition in every permitted way, for every resolvable root/imported placement, plus one program per remaining documented construct; compile() must not raise, the Python module must import and register every message with its recorded size, the C header must compile, every JavaScript factory must return fresh objects with distinct array elements, and the MATLAB script must define before use.",
                note="MATLAB is only checked by a subset interpreter (no MATLAB/Octave in the sandbox). Known findings (open): emission order of aliases of structs and of structs with message-typed fields in all four back ends."),
    "C04": dict(engine="DEFX", level="exploration", ref="DESIGN.md 4/C04",
                technique="bounded-exhaustive enumeration of definition programs compiled by the real compiler; five observers (Python import, gcc probe, node dump, MATLAB-subset interpreter, parser model) reduced to one signature and compared pairwise",
                text="Field sequences over all 26 native type names, aliases (of natives, of aliases), nested structs of alignment 1/2/4/8 and a nested message x seven length forms (none, literals, constant, constant expressions), as structs and messages, with signals, field-list reuse, auto-inserted padding, constants / string constants / module ids / host ids / reserved ids, split over import shapes: ids, hashes, constants, field names, order, element kinds and widths, array lengths, offsets and sizes agree between all outputs.",
                note="Trusted: gcc x86-64, node 20, the MATLAB-subset interpreter. Scalar == length-1 array and MATLAB int8 == C char are declared equivalent; JavaScript carries no element widths (names, order, nesting and array lengths are compared)."),
    "C16": dict(engine="DEFX", level="exploration", ref="DESIGN.md 4/C16",
                technique="bounded-exhaustive enumeration of definition closures, each compiled twice in separate processes (differential), combined-YAML round trip through the CLI, regenerated-vs-shipped core definitions",
                text="Closures of the C15 program space, the extra programs and packed C04-style programs are compiled twice in separate processes with different PYTHONHASHSEED, working directory, source and output paths, with the real black: all six outputs byte-identical; the combined YAML is recompiled through the command line and must give the same ids, hashes, sizes, layouts and constants; core_defs.yaml compiled with the current tree must reproduce the shipped core_defs.py (signature and text apart from the version stamps).",
                note="Known finding (open): combined YAML of closures with cross-file alias-of-struct / struct-uses-message references does not recompile (section order)."),
    "C17": dict(engine="THX", level="model_checking", ref="DESIGN.md 4/C17",
                technique="stateless schedule exploration of the real two-thread data logger under a controlled scheduler: all interleavings at synchronisation/method-boundary granularity (DFS with state-hash pruning) and line-level interleavings with bounded preemptions",
                text="Driver scripts (every operation sequence up to length 3-4 over updates before/after the flush and subdivision deadlines, update(None), pause, resume; data-set configurations; raw/json/quicklogger formatters) run on the real DataCollection with its writer thread; every interleaving of Event operations, thread start/exit/join and DataSet/formatter method boundaries is executed, plus all source-line-level interleavings with 1-3 preemptions on the scripts that can have a write pending; after stop() the files are read back (quicklogger through the package's QLReader) and compared with the hand-over sequence; deadlock, livelock and thread exceptions are violations.",
                note="Trusted: CPython GIL (a source line is the finest unit), the blocking model of timed waits (DESIGN 3.4), the state hash used for pruning (thread positions + shared state; over-fine is harmless)."),
}

# what was added to each check after the first build (see DESIGN.md 10.2 / 10.6); appended to the level text
EXTRA = {
    "C01": "Also: two connections sharing one module id, frames arriving in two TCP segments with another client's frame in between, close/reset of a subscriber paired with a publish in one round.",
    "C02": "Every type is in flight (forwarded, unread) at the moment of the checked operation; in half of the configurations a second connection shares the client's module id.",
    "C03": "Control requests are also sent from modules that already hold subscriptions, are subscribed to all, or are loggers.",
    "C04": "One alias changes its target from program to program of one process; rebuilds into a used output directory after only imported files were edited.",
    "C05": "Deviations include the logger being not writable (the manager's wait-then-write path); a client that publishes before CONNECT; addressed messages.",
    "C06": "The same dynamic-id Client objects reconnect after losing their connection.",
    "C07": "Also: every sequence of subscription requests (up to 2 quick / 4 thorough) before leaving, leave-return-leave chains, and the leaver dying right before every send call of a forward / acknowledgement / periodic-broadcast round (statement-level invariants, no reference).",
    "C08": "Also: the same Client object on a second connection (after reset / end of stream / disconnect) in every initial subscription state, a type redefined through @message_def between reads, a clock that advances with every reading.",
    "C09": "ctypes arrays of every other element type as carriers; thorough: every pair of bad elements, edge-valued neighbours, every bad value in every slice position.",
    "C10": "Every value is also assigned over an object filled with the maximum profile; header profiles plain / timecode stamped, unstamped, zero, maximal / edge-valued base fields.",
    "C11": "Also: message definitions as field types, the unsized native spellings, compiler options through the command line, one type name standing for structs of alignment 1/2/4/8 across the compilations of one process.",
    "C12": "Also: id sets that touch / overlap / nest (conflict exactly when they intersect), near-miss names, conflicts inside bulk definitions.",
    "C13": "Also: the struct behind a field type is edited while the message text stays, names containing the emitters' own prefixes; thorough: closure under two edits (bijection between definition texts and hashes).",
    "C14": "Also: two frames of the publisher in one round and follow-up deliveries after a failed one.",
    "C16": "The second run compiles in reverse order with relative root and output paths; closures whose root file carries compiler options; a family sharing every expression text but not the constant.",
    "C17": "Scripts include a restart (second recording on the same collection); data sets with holes in the msg_types array; mutable class-level state of the data-logger modules is restored between executions.",
    "C18": "Also: the upper half and the middle of the type table, ids outside the table, failed deliveries inside an interval, TIMING switched off, a MESSAGE_TRAFFIC listener that subscribes late, a report that never comes.",
    "C19": "Also: connected loggers reset / closed in the same round as another module's control frame (both orders, both hash orders), two connections of one module id, sender / logger not writable in the serving round, descriptor reuse.",
}

EXTRA2 = {
    "C01": "Probes also carry a source id that is not the connection's own (relayed message), 0 and a negative one.",
    "C02": "Every probe lets a report period elapse (the manager's own TIMING_MESSAGE reaches the client exactly when it claims ALL); 'the same Client object connects again' (after loss / disconnect) is an operation.",
    "C03": "A connecting module or logger dies right before the manager's k-th send of the round serving its own CONNECT.",
    "C04": "Field names with a leading underscore; float constants that need all their digits, computed, tiny and large ones.",
    "C05": "The order clause is checked over uniquely identifiable frames of any origin; one plan row runs the manager at log level WARNING (log records are messages); payloads of 65536 .. 1048576 bytes.",
    "C06": "An id listed in the module-id table, with and without an explicit name.",
    "C07": "A logger that stays is owed its acknowledgement copies; shutdown()/ENOTCONN is part of the socket model.",
    "C08": "Every frame kind is also cut into two TCP segments at every offset; every returned message is kept and compared again after all later reads.",
    "C09": "A long-lived message and array views taken after every step of a disable-block sequence.",
    "C10": "Float values that need every significant digit.",
    "C11": "File metadata (AUTOGENERATED, in root / imported file / importer) has no bearing on layout verdicts.",
    "C12": "One Parser object used again after failed and successful parses; the clashing pair among unrelated higher / lower ids in every arrangement.",
    "C13": "Hashes in all four outputs after an in-place rebuild with only an imported file edited.",
    "C14": "A reduced timecode-header environment also in the quick tier.",
    "C15": "Arrays whose length is or evaluates to one.",
    "C16": "The second run builds all closures of a group into one shared output directory.",
    "C18": "Refused connects and instances of a shared id joining / leaving between reports (process-id table).",
    "C19": "Requests whose header carries unroutable destination fields.",
}

EXTRA3 = {
    "C02": "Frames delivered before an operation and still subscribed afterwards must come out of read_message exactly once.",
    "C03": "One configuration keeps the manager's default console handler (rich markup) with names that look like markup.",
    "C04": "String constants with apostrophes / percent signs / braces; MATLAB quoting rules in the subset interpreter.",
    "C05": "A receiver that is writable but whose send buffer is nearly full (non-blocking sends would write partial frames).",
    "C06": "Newcomers (refused or accepted, with and without the logger flag) must not disturb a connected module / logger / sharer of an id / dynamic module.",
    "C07": "A sibling connection sharing the leaver's id stays and keeps being served; refusal at CONNECT after earlier requests.",
    "C08": "Frames undecodable for two reasons at once.",
    "C11": "User fields that are themselves called padding_<n>_.",
    "C13": "Reserved-looking field names (refused or hash kept in every output and on the wire); relocation paths containing core_defs / core / defs.",
    "C14": "Observers of notices that are only subscribed to everything; manager-originated CLIENT_INFO that cannot be delivered.",
    "C15": "Lengths given by float-valued constant expressions.",
    "C16": "Declared options that differ from the effective ones; outputs requested in separate invocations in one of the two runs.",
    "C17": "A data set naming a concrete type next to the wildcard; pause / resume while messages wait for their first flush.",
    "C18": "The 5-second ACTIVE_CLIENTS / CLIENT_INFO broadcast inside an interval.",
    "C19": "A second logger asking for the connected logger's id; a logger connecting with CONNECT alone.",
}

EXTRA4 = {
    "C02": "A third configuration connects the client under test as a logger module.",
    "C03": "A report subscriber dies in the middle of a multi-part report; a newcomer asks for an id that two connections share.",
    "C04": "User messages with ids below 100.",
    "C05": "A receiver resets right before one of the manager's send calls (also in the timers-only round).",
    "C08": "discard_messages() while the tail of a frame is still arriving.",
    "C09": "Explicit infinities are out of the domain; validation state after library calls that switch it off internally.",
    "C10": "Headers as they come out of the constructor.",
    "C12": "Different files named by the same relative import string.",
    "C13": "Name / id edits of reuse-form definitions; constants mentioned by field types live elsewhere or change value.",
    "C14": "A CONNECT-only logger; the manager's periodic reports and a subscriber that cannot take them.",
    "C16": "Blanks inside field specs; the model of a re-used Parser equals a fresh one's.",
    "C18": "A sender that leaves within the interval; a module announcing another process id.",
    "C19": "Requests before the handshake.",
}

EXTRA5 = {
    "C01": "Dynamically numbered modules (V2-then-V1 handshake with source id 0) addressed by the id they were told.",
    "C03": "Clients that are momentarily not writable while a message, a report or a notice is due to them; hundreds of notice subscribers resetting at the same instant.",
    "C04": "Project files that list the core definition files explicitly.",
    "C06": "Dynamic-id holders in every table order relative to their ids across turns of the cursor; a second connect() with other options on a connected Client.",
    "C07": "A report subscriber found dead while a multi-part report goes out.",
    "C08": "select.poll is part of the virtual network (conformance-checked).",
    "C09": "Array-to-array copies between differently named fields (other message, same message).",
    "C10": "Decode, overwrite the decoded object, decode the same representation again.",
    "C12": "A sixteen-file import chain.",
    "C13": "Spellings of one machine type are edits; the shipped core Python output carries the hashes of the core definition file.",
    "C14": "A logger that goes away while the manager waits for it to become writable.",
    "C15": "Very small / very large float constants referenced by other expressions.",
    "C16": "Large reserved blocks in several files of one closure.",
    "C18": "Manager logging at INFO / WARNING (its records are traffic); a second manager in one process.",
    "C19": "255-300 (thorough: up to 1024) subscription requests of one module, each acknowledged and copied.",
}

EXTRA6 = {
    "C02": "Every type is also published addressed to the client's own module id.",
    "C04": "Structs of one scalar; fields named like the generated class attributes; names as long as the emitters' columns; names containing the emitters' prefixes; one name in two tables (open finding: host id vs constant in the Python output).",
    "C05": "Requests naming ids no message can have, and core-typed frames of another layout, in the control burst.",
    "C07": "The leaver itself not writable; all dynamic ids held and one holder leaves.",
    "C08": "Socket timeouts are part of the virtual network (conformance 42 scenarios / 396 operations); reads after sends with a timeout / a destination.",
    "C09": "The same sequence object assigned again after its owner changed it.",
    "C10": "Non-zero remaining_bytes / is_dynamic; definitions whose fields are called header and data.",
    "C11": "Layout options written in imported files; structs whose size is not their alignment reached through aliases.",
    "C12": "Aliases of aliases in the collision pairs; a project that lists the core files itself.",
    "C13": "Renames with letters outside ASCII; application classes derived from generated ones on the wire.",
    "C15": "An expression over fourteen constants; files of one name in different directories.",
    "C16": "Long string constants (URL, sentence, text with colons).",
    "C17": "A data set still idle at the first flush of a second recording.",
    "C19": "Every kind of request after 1-3 dropped deliveries to the requester.",
}

EXTRA7 = {
    "C01": "Lock-step rounds go on until implementation AND reference are quiet (a wrongly dropped publisher no longer hides what the reference still delivers).",
    "C02": "One of the four types carries the largest id a definition may have (10000).",
    "C03": "Write-side fault families against a timecode manager; a manager at log level DEBUG; long lines of clients leaving without a word; by-standers' streams stay whole frames.",
    "C04": "A struct and a message of another file under one name; validation off on an aligned file; field names reserved by another target language.",
    "C05": "70000 (thorough: 140000) frames on one connection; two receivers lost at the same instant; cross-receiver differences classified (open finding: a notice published from inside a delivery).",
    "C06": "A table crowded with connections that hold no dynamic id; a dynamic allow-multiple namesake.",
    "C07": "Observers that listen through ALL only; the leaver found dead in a nested delivery.",
    "C08": "Two and three subscription changes in a row; subscription contexts over mixed lists.",
    "C09": "Empty and one-element containers assigned to a struct-array element.",
    "C10": "A type id looked up before re-registration; underscore field names; long arrays.",
    "C11": "Definitions that need padding placed in every file of a closure; a re-used Parser keeps its options.",
    "C12": "Compiler options read before parsing on one Parser.",
    "C13": "Messages embedding messages; explicit core imports; the manager's own frames as a sender.",
    "C15": "Explicit null sections; a fifteen-link alias chain.",
    "C16": "The second compilation on another day; a working directory called core_defs; imported files with options of their own.",
    "C17": "Data sets reconfigured before the recording; quicklogger files of user-defined types read back in several loads.",
    "C18": "An unregistered publisher; type id -1 at sub-message boundaries.",
    "C19": "Requests naming ids at and beyond the edges of the type table.",
}

EXTRA8 = {
    "C01": "A subscriber that misses 1-30 messages in a row is served again afterwards.",
    "C03": "SUBSCRIBE before CONNECT from a connection that connects and is gone at once.",
    "C04": "Leading-zero constants; three-digit ids; files accepted through the command line entry point.",
    "C05": "Streams of connections refused at CONNECT; close() arriving before each of the first twelve sends of a round.",
    "C06": "Connections accepted in one order and identified in another.",
    "C07": "Two loggers found dead by the copy of one acknowledgement.",
    "C08": "Legacy (@msg_def) definitions at right and wrong sizes; undecodable payloads of more than a megabyte.",
    "C09": "Buffer carriers (array.array, ctypes arrays, memoryviews) for byte arrays; array elements arriving through from_dict / from_json.",
    "C10": "A field written in place between two conversions.",
    "C12": "Copy-form messages in the id clash matrix and the range cases.",
    "C13": "%YAML directives in sibling files; fields named like the compiler's padding.",
    "C15": "Punctuation in string constants; shared definitions imported from a sibling directory.",
    "C16": "Every closure compiled right after a refused compilation, by relative paths; user metadata in two files.",
    "C17": "One formatter object handed every sequence of three small batches and single batches of sizes up to 8192 (thorough 16384).",
    "C19": "Every kind of refused connection request: no acknowledgement, no copy.",
}

ALL = [f"C{i:02d}" for i in range(1, 20)]
NOT_YET = "check not built yet in this round (planned; see DESIGN.md section 4)"


def main():
    checks = []
    for pid in ALL:
        c = CHECKS.get(pid)
        if not c:
            continue
        checks.append({
            "property_id": pid,
            "quick_cmd": f"./vcheck {pid} --tier quick",
            "thorough_cmd": f"./vcheck {pid} --tier thorough",
            "evidence_file": f"/verif/evidence/{pid}.json",
            "replay_cmd_template": "./vcheck replay {path}",
            "engine": c["engine"],
            "level_claimed": {"category": c["level"], "text": (c["text"] + " " + EXTRA.get(pid, "") + " " + EXTRA2.get(pid, "") + " " + EXTRA3.get(pid, "") + " " + EXTRA4.get(pid, "") + " " + EXTRA5.get(pid, "") + " " + EXTRA6.get(pid, "") + " " + EXTRA7.get(pid, "") + " " + EXTRA8.get(pid, "")).strip(), "design_ref": c["ref"]},
            "level_note": c["note"],
            "technique": c["technique"],
        })
    na = [{"property_id": p, "reason": NOT_YET} for p in ALL if p not in CHECKS]
    man = {
        "version": 1,
        "setup_cmd": "./vcheck setup",
        "hooks": {
            "guard": "PYRTMA_VERIF",
            "enable": "no source hooks: the harness rebinds module-level names (socket/select/time/random/threading) of the imported pyrtma modules inside the check process; PYRTMA_VERIF is reserved and unused",
            "baseline_off_cmd": BASELINE,
            "source_commits": [],
            "add_only": True,
        },
        "engines": [
            {"name": "NET", "path": "vf/net.py", "serves_properties": ["C01", "C02", "C03", "C05", "C06", "C07", "C08", "C13", "C14", "C18", "C19"], "kind_free_text": "virtual TCP sockets/select/clock, conformance-checked against real loopback"},
            {"name": "MMX", "path": "vf/mmx.py", "serves_properties": ["C01", "C03", "C05", "C06", "C07", "C14", "C18", "C19"], "kind_free_text": "real MessageManager.run() stepped round by round on a helper thread"},
            {"name": "CLX", "path": "vf/clx.py", "serves_properties": ["C02", "C06", "C08", "C13"], "kind_free_text": "the real pyrtma Client on the virtual network (against the stepped manager or a scripted stream)"},
            {"name": "THX", "path": "vf/thx.py", "serves_properties": ["C17"], "kind_free_text": "cooperative scheduler for the data-logger threads (Event/Thread seams, optional sys.settrace line points)"},
            {"name": "DEFX", "path": "vf/defx.py", "serves_properties": ["C04", "C11", "C12", "C13", "C15", "C16"], "kind_free_text": "definition-program generator and observers (Python import, gcc probe, node dump, MATLAB-subset interpreter, parser model)"},
            {"name": "VALX", "path": "vf/valx.py", "serves_properties": ["C09", "C10"], "kind_free_text": "generated definition file with every validator kind; value/assignment-form enumeration"},
            {"name": "SPEC", "path": "vf/spec.py", "serves_properties": ["C01", "C06", "C07", "C14", "C19"], "kind_free_text": "reference hub executed in lock step (vf/lock.py), BFS in vf/hub.py"},
        ],
        "checks": checks,
        "not_applicable": na,
        "notes": "All checks run /venv/bin/python against the editable install of /repo/src (asserted at start). Exit 2 = harness error (never a verdict).",
    }
    with open(os.path.join(HERE, "MANIFEST.json"), "w") as f:
        json.dump(man, f, indent=1)
    try:
        import jsonschema
        jsonschema.validate(man, json.load(open("/root/.vp/MANIFEST.schema.json")))
        print("MANIFEST.json valid;", len(checks), "checks,", len(na), "not applicable")
    except ImportError:
        print("written (jsonschema not available here)")


if __name__ == "__main__":
    main()
