#!/usr/bin/env python3
"""tools/trymut.py <file-rel-to-repo> <old> <new> -- <check> [tier]: apply a textual mutation to /repo,
run a check, revert (git checkout). For ad-hoc detection experiments; nothing is committed."""
import subprocess, sys, os
args = sys.argv[1:]
i = args.index("--")
f, old, new = args[:i]
checks = args[i + 1:]
p = os.path.join("/repo", f)
s = open(p).read()
if s.count(old) != 1:
    print("pattern count", s.count(old)); sys.exit(3)
open(p, "w").write(s.replace(old, new))
try:
    for c in checks:
        r = subprocess.run(["/verif/vcheck", c, "--tier", os.environ.get("TIER", "quick")], capture_output=True, text=True)
        lines = [l for l in r.stdout.splitlines() if l.startswith(("VIOLATION", "  what", "[C", "KNOWN"))]
        print(f"== {c}: exit {r.returncode}")
        print("\n".join(lines[:8]))
        if r.returncode == 2: print(r.stderr[-1500:])
finally:
    subprocess.run(["git", "-C", "/repo", "checkout", "--", f])
