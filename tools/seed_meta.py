#!/usr/bin/env python3
"""tools/seed_meta.py: (re)write seeded/<id>/meta.json from eval.json + notes.md + the annotations below, and print the markdown table for DESIGN.md"""
import json, os, glob, re

HERE = os.path.dirname(os.path.dirname(os.path.abspath(__file__)))
FIRST_WAVE_MISSED = {
    "C01_b": "C01 paired only 'send' operations: close/reset of a subscriber is now paired with another client's publish in one round (both service and hash orders); C07 now owns data-frame problems at survivors",
    "C03_b": "the check aborted with a harness error when the manager died in the middle of a two-fault scenario (client-side send/connect raised): raw clients now tolerate a dead manager and the death is reported",
    "C05_a": "only broadcasts were published: schedules now also carry messages addressed to one module (by-standers are passed over)",
    "C06_b": "needed three modules: a three-slot configuration with a small shared-id / allow-multiple / shared-name alphabet was added to the quick tier",
    "C07_a": "no scenario uncovered a dead subscriber during a manager-originated CLIENT_INFO delivery with another subscriber served after it: added (both hash orders)",
    "C07_b": "needed more than 100 dynamic departures: a dynamic-id churn run (104 connect/leave cycles over all ways of leaving) was added",
    "C08_b": "the client always started with individual subscriptions and one change: an initial subscribed-to-all state and pause-all / unsubscribe-ALL / *_all helper changes were added",
    "C11_b": "field-list reuse copies were never used as field types: reuse copies of 1/2/4-aligned structs are now part of the field alphabet",
    "C13_a": "definitions were always rendered id-first: a relocation with `fields:` before `id:` was added",
    "C15_a": "no two constant names overlapped: an extra program with overlapping names and independently computed constant values was added",
    "C16_a": "both runs compiled the closures of a group in the same order: the second run now uses the reverse order and a family of closures sharing every expression text but not the constant was added",
    "C16_b": "the reserved block had too few string entries for the two hash seeds to order them differently: more range strings in both files",
    "C17_a": "every script was a single start..stop: a restart operation (second recording on the same collection) was added - which also exposed the residual hand-off race repaired by the second data-logger fix",
    "C18_b": "only in-table type ids were published: intervals now also carry negative / == MAX / huge type ids",
    "C19_a": "harness error (service-order choice out of range) after fin/rst operations became pairable: impossible orders are skipped",
    "C19_b": "same harness error as C19_a",
}
rows = []
for d in sorted(glob.glob(os.path.join(HERE, "seeded", "*_[ab]"))):
    sid = os.path.basename(d)
    ev = json.load(open(os.path.join(d, "eval.json"))) if os.path.exists(os.path.join(d, "eval.json")) else {}
    notes = open(os.path.join(d, "notes.md")).read() if os.path.exists(os.path.join(d, "notes.md")) else ""
    first = " ".join(l.strip() for l in notes.splitlines() if l.strip() and not l.startswith("#"))[:500]
    prop = sid.split("_")[0]
    checks = ev.get("checks", {})
    detected = {c: (v["exit"] == 1) for c, v in checks.items()}
    meta = {
        "id": sid, "property": prop, "origin": "independent sub-agent given only the property text and its own scratch worktree",
        "what_and_needs": first,
        "confirmed": {"patch_applies": ev.get("patch_applies"), "suite_with_patch": ev.get("suite_with_patch"),
                      "demo_with_patch": ev.get("demo_with_patch"), "demo_without_patch": ev.get("demo_without_patch")},
        "ran": [f"tools/seedeval.py seeded/{sid} {prop}  (scratch worktree: suite + demo with/without the patch; then `git -C /repo apply`, ./vcheck {' '.join(checks) or prop} --tier quick, `git -C /repo checkout -- .`)"],
        "detected_by": {c: {"detected": v["exit"] == 1, "exit": v["exit"], "violations": v["violations"], "what": v.get("what", [])[:2], "wall_s": v.get("wall_s")} for c, v in checks.items()},
        "missed_in_first_run": sid in FIRST_WAVE_MISSED,
        "strengthening": FIRST_WAVE_MISSED.get(sid, ""),
    }
    json.dump(meta, open(os.path.join(d, "meta.json"), "w"), indent=1)
    rows.append((sid, prop, "yes" if all(detected.values()) and detected else "NO", "first run missed - " + FIRST_WAVE_MISSED[sid] if sid in FIRST_WAVE_MISSED else "caught by the check as first built"))
print("| seed | caught now | history |\n|---|---|---|")
for sid, prop, det, hist in rows:
    print(f"| {sid} | {det} | {hist} |")
