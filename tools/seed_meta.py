#!/usr/bin/env python3
"""tools/seed_meta.py: (re)write seeded/<id>/meta.json from eval.json + notes.md + the annotations below, and print the markdown table for DESIGN.md"""
import json, os, glob, re

HERE = os.path.dirname(os.path.dirname(os.path.abspath(__file__)))
FIRST_WAVE_MISSED = {
    "C01_b": "C01 paired only 'send' operations: close/reset of a subscriber is now paired with another client's publish in one round (both service and hash orders); C07 now owns data-frame problems at survivors",
    "C03_b": "the check aborted with a harness error when the manager died in the middle of a two-fault scenario (client-side send/connect raised): raw clients now tolerate a dead manager and the death is reported",
    "C05_a": "only broadcasts were published: schedules now also carry messages addressed to one module (by-standers are passed over)",
    "C06_b": "needed three modules: a three-slot configuration with a small shared-id / allow-multiple / shared-name alphabet was added to the quick tier",
    "C07_a": "no scenario uncovered a dead subscriber during a manager-originated CLIENT_INFO delivery with another subscriber served after it: added (both hash orders)",
    "C07_b": "needed more than 100 dynamic departures: a dynamic-id churn run (104 connect/leave cycles over all ways of leaving) was added",
    "C08_b": "the client always started with individual subscriptions and one change: an initial subscribed-to-all state and pause-all / unsubscribe-ALL / *_all helper changes were added",
    "C11_b": "field-list reuse copies were never used as field types: reuse copies of 1/2/4-aligned structs are now part of the field alphabet",
    "C13_a": "definitions were always rendered id-first: a relocation with `fields:` before `id:` was added",
    "C15_a": "no two constant names overlapped: an extra program with overlapping names and independently computed constant values was added",
    "C16_a": "both runs compiled the closures of a group in the same order: the second run now uses the reverse order and a family of closures sharing every expression text but not the constant was added",
    "C16_b": "the reserved block had too few string entries for the two hash seeds to order them differently: more range strings in both files",
    "C17_a": "every script was a single start..stop: a restart operation (second recording on the same collection) was added - which also exposed the residual hand-off race repaired by the second data-logger fix",
    "C18_b": "only in-table type ids were published: intervals now also carry negative / == MAX / huge type ids",
    "C19_a": "harness error (service-order choice out of range) after fin/rst operations became pairable: impossible orders are skipped",
    "C19_b": "same harness error as C19_a",
}
FIRST_WAVE_MISSED.update({
    "C01_c": "every module id had one connection: two connections sharing one module id (both allow multiple instances), each with its own subscriptions, were added to the population",
    "C01_d": "every frame arrived in one piece: NET now models TCP segments and recv without MSG_WAITALL; the probe also arrives as two segments (header cut, payload cut) with another client's frame in between",
    "C03_d": "control requests came only from freshly connected modules: SUBSCRIBE / UNSUBSCRIBE / PAUSE / RESUME / CONNECT / SET_NAME / READY are now also sent from modules that already hold subscriptions, are subscribed to all, or are loggers",
    "C04_c": "aliases had the same target in every program of one process: one alias now changes its target from program to program",
    "C05_d": "every module sent CONNECT first: a client that publishes before CONNECT (and connects later) was added",
    "C06_c": "reconnects used fresh Client objects: the same dynamic-id Client objects now reconnect after losing their connection",
    "C07_c": "no departure happened right after a zero-length frame of another client: added",
    "C08_d": "the virtual clock stood still inside one read_message call: a clock that advances with every reading was added (timeout budgets run out while unsubscribed frames are skipped)",
    "C02_c": "the client's socket was empty when an operation was checked: every type is now in flight (forwarded, unread) at the moment of the checked operation",
    "C11_c": "message definitions were never used as field types in the layout alphabet: added (M1/M2/M4 and arrays of them)",
    "C11_d": "compiler options in the file were only exercised through compile(): the command line entry point is now run with AUTO_PAD / VALIDATE_ALIGNMENT given in the file and on the command line",
    "C16_c": "both runs named the root file by an absolute path: the second run now uses a relative path from the directory above the sources",
    "C18_c": "the MESSAGE_TRAFFIC listener was always there from the start: a listener that subscribes late was added",
    "C18_d": "a report that never comes was not noticed: reports are now counted per timer step",
    "C19_c": "sender and logger were always writable in the serving round: non-writable sender / logger subsets were added to the pair operations",
    "C19_d": "descriptor numbers were never reused: NET now hands out the lowest free descriptor as the kernel does, and a leave-then-connect sequence reuses one",
    "C10_c": "first run: the patch no longer applied after the timecode-header repair touched the same lines; ported to the repaired tree (patch_head.diff) and caught",
})
FIRST_WAVE_MISSED.update({
    "C02_e": "the client under test was the only holder of its module id: a second connection sharing the id (allow_multiple), with fixed subscriptions of its own, now runs next to it in half of the configurations",
    "C04_e": "every program was built into a fresh directory: a second build into the same directory after only IMPORTED files were edited (root file untouched) was added",
    "C05_e": "the logger was always writable: 'logger not writable in this round' is now one of the environment deviations (the manager's wait-then-write path)",
    "C07_f": "NOT CAUGHT, and not claimed: the change publishes a CLIENT_INFO about the leaver after its CLIENT_CLOSED and lists it in ACTIVE_CLIENTS; none of the statement's clauses (recipient at once, id/name reusable, exactly one CLIENT_CLOSED, others' delivery) is contradicted. The new asynchronous-death family counts such frames as an observation in the evidence (0 on the unchanged tree, 136 with this change) without judging them",
    "C08_e": "every case used a fresh Client: the same Client object now connects a second time (after a reset, an end of stream, or disconnect()) in every initial subscription state",
    "C08_f": "definitions never changed during a run: a type is now redefined through @message_def between reads (looked up before or not)",
    "C09_f": "ctypes arrays were only offered with the field's own element type: arrays of every other element type are now carriers (values in / out of the field's domain)",
    "C10_e": "the timecode header always carried a non-zero stamp: header profiles unstamped (0, n), zero, maximal and edge-valued base fields were added",
    "C11_e": "type names never changed meaning inside one process: one name now stands for structs of alignment 1, 2, 4, 8 in every order of compilation",
    "C11_f": "the gcc-checked alphabet had only sized spellings: long / unsigned long / short / int / long long / unsigned short were added (C04 caught it from the start)",
    "C13_e": "first run: harness error (the generated Python file was not importable) - an unreadable output is now a finding; and the struct behind a field type is now edited while the message text stays",
    "C13_f": "no definition name contained an emitter's own prefix: names with hash_, MT_, MDF_, mid_, defines_ next to their shortened forms were added",
    "C16_e": "output directories were absolute in both runs: the second run now names the output directory by a relative path",
    "C17_e": "first run: harness error (state kept on a class leaked from one execution into the next and the replay diverged): mutable class attributes / module globals of the data-logger modules are now restored between executions, the leak is then found inside one execution (two quicklogger data sets, restart, sub-division)",
    "C17_f": "data sets always listed their types in adjacent slots and the oracle used the data set's own filtered list: the 32-slot array now has a hole and the oracle selects by the configured types",
    "C18_e": "all published types lay in the lower half of the table: types 4999 / 5000 / 5001 / 9998 / 9999 and runs of high types were added",
    "C18_f": "no delivery failed inside a reporting interval: a subscriber is now reported not writable while its type is published (the manager's own FAILED_MESSAGE is traffic as well)",
    "C19_e": "loggers only left by DISCONNECT: connected loggers are now reset / closed, paired with other modules' control frames in both service orders, with two loggers in both hash orders",
})
FIRST_WAVE_MISSED.update({
    "C01_g": "every published frame carried the connection's own id as its source: probes now also carry a foreign source id (a relayed / replayed message), source 0 and a negative one",
    "C02_g": "only client-published types were probed: a report period now elapses in every probe and the manager's own TIMING_MESSAGE must reach the client exactly when it claims to be subscribed to everything",
    "C02_h": "the client never lost its connection: 'the same Client object connects again' (after a loss, after disconnect()) is now an operation of the alphabet",
    "C03_g": "asynchronous deaths only hit modules that were already connected: a connecting module / logger now dies right before the manager's k-th send of the round that serves its own CONNECT",
    "C05_g": "the order clause was only checked on the two publishers' frames and the manager ran silent: uniquely identifiable frames of ANY origin are now compared across receivers, and one plan row runs the manager at log level WARNING (its log records are messages too)",
    "C05_h": "the largest payload was 65535 bytes: payloads of 65536, 200000 and 1048576 bytes (what the manager accepts) were added",
    "C06_h": "no module id of the matrix was listed in the module-id table: id 5 (QUICK_LOGGER) with and without an explicit name was added",
    "C07_g": "no logger stayed behind in the population and acknowledgement problems were left to C19: a staying logger was added and acknowledgement copies owed to clients that stay count as 'delivery among the remaining clients'",
    "C07_h": "the virtual socket had no shutdown(): its behaviour after FIN / RST was measured on loopback (ENOTCONN, a plain OSError), modelled and added to the conformance pass; a socket method the model lacks is now a harness error, never a verdict",
    "C08_g": "every scripted stream arrived as one segment: each frame kind is now also cut into two segments at every offset",
    "C08_h": "returned messages were compared and dropped at once: every returned message is kept and compared again after all later reads",
    "C09_g": "only fresh objects were probed after each step of a disable-block sequence: a long-lived message and array views of it taken after every step are now probed as well (only a missing refusal outside all blocks counts)",
    "C10_h": "the float alphabet had no value whose shortest exact decimal needs all nine digits: such values, neighbours of powers of two and the smallest normal were added",
    "C11_g": "no generated file (metadata AUTOGENERATED) was ever parsed for layout: the same definitions are now parsed with and without such metadata in the root, in an imported file and in the importer",
    "C12_g": "every case used a fresh Parser: one Parser object is now used again after failed and successful parses (items of every kind registered before the failure)",
    "C12_h": "the clashing pair was alone in its section: unrelated higher / lower ids are now declared before, between and after the pair in every arrangement (module, host and message ids)",
    "C13_h": "every closure was built into a fresh directory: after the first build only an imported file is edited and the closure is rebuilt in place; the hash in all four outputs must be the new one",
    "C14_g": "the quick tier had no manager with the timecode header (thorough had): a reduced timecode environment was added to quick",
    "C15_h": "no array had length one: arrays whose length is or evaluates to exactly one, of every native type, a struct and a message",
    "C16_h": "every closure had its own output directory: the second run now builds all closures of a group into one shared directory (all sources written first)",
    "C18_g": "the population was fixed during reporting: refused connects (id in use, id out of range) and instances of a shared id joining / leaving now happen between reports",
    "C19_h": "requests always carried destination 0: requests (changing nothing) now also carry destination module / host ids outside the routable range",
    "C04_g": "all field names started with a letter: every fifth definition now has a field name with a leading underscore",
    "C04_h": "the only float constant was 2.5: constants that need all their digits, computed ones (1 / RATE, 1.0 / 3), very small and large ones were added",
})
FIRST_WAVE_MISSED.update({
    "C01_j": "a client-side loss (the Client discards queued frames while it waits for an acknowledgement): invisible to C01's raw clients; C02 now demands that frames delivered before an operation and still subscribed afterwards come out of read_message exactly once, and catches it (seeded/C01_j/check names C02)",
    "C03_i": "the manager's console handler was switched off in every world: a configuration with the default console handler in place (rich formatting and markup, writing to a buffer) at INFO and ERROR level, and names that look like console markup, were added",
    "C04_j": "no string constant contained an apostrophe and the MATLAB-subset interpreter took any quoted text: constants with apostrophes / percent signs / braces / empty, and MATLAB's quoting rules in the interpreter",
    "C05_i": "the network model had no notion of a full send buffer: a receiver that is writable but has room for 100 bytes only is now an environment deviation (a blocking send waits; a non-blocking one writes a part)",
    "C06_j": "every newcomer of the BFS alphabet had the logger flag off and acknowledgement copies were left to C19: a family 'newcomers must not disturb the incumbent' (module / logger / sharer of an id / dynamic module x refused and accepted requests with and without the logger flag) was added",
    "C07_i": "the leaver never shared its id: a sibling connection with the same id stays and must keep being served; a connection refused at CONNECT after it had already sent requests",
    "C08_i": "each undecodable frame kind had one fault: kinds that are wrong in size AND version were added",
    "C11_j": "user fields never had a name of the form padding_<n>_: definitions with hand-written reserve fields of that name",
    "C13_i": "no definition had a field named like a class attribute: such definitions are either refused or keep their hash in every output and on the wire",
    "C13_j": "relocations only used plain file names: every output of closures relocated into files / directories whose names contain core_defs, core, defs",
    "C14_i": "a logger and a FAILED_MESSAGE subscriber by name were always present: a population whose only observer is subscribed to everything",
    "C14_j": "every published kind came from a client: a CLIENT_INFO published by the manager itself that cannot be delivered, followed by a second publication",
    "C15_i": "all array lengths evaluated to ints: lengths given by float-valued constant expressions (true division)",
    "C16_i": "declared and effective options always agreed: closures whose root file declares VALIDATE_ALIGNMENT / AUTO_PAD / IMPORT_COREDEFS values that the command line overrides or that are spelled out",
    "C16_j": "both runs asked for all outputs in one invocation: the first run now asks for them in separate invocations",
    "C17_i": "no data set named a concrete type next to the wildcard: dA does so in the two-set configurations",
    "C17_j": "scripts in which messages still wait for their first flush when the recording is paused and resumed were neither in the quick nor in the thorough plan",
    "C18_i": "clock steps never reached the 5-second broadcast: intervals with a 5.1 s step",
    "C18_j": "NOT CAUGHT, and not claimed: messages with an unroutable destination are no longer counted. The statement counts messages 'handled for forwarding' and quantifies over forwarded types; whether a refused message counts has been listed as unspecified in the check's assumptions since the first build (the observer cannot see such messages)",
    "C19_i": "no second logger ever asked for the connected logger's id: slot J does (refused), and the logger must keep getting its copies",
    "C19_j": "loggers always connected with CONNECT_V2 + CONNECT: logger K connects with CONNECT alone",
})
FIRST_WAVE_MISSED.update({
    "C01_l": "a fault inside the real Client (the wrong number of bytes is skipped after a size mismatch, so everything published afterwards is lost): invisible to C01's raw clients, caught by C08 from the start (seeded/C01_l/check names C08). While running it a hang appeared: WouldBlock derives from BaseException and killed a pool worker, the pool then waited forever - worker exceptions of any kind are now reported as harness errors",
    "C02_l": "the client under test was never a logger module: a third configuration connects it with logger_status=True",
    "C03_k": "no report subscriber died in the middle of a multi-part report: a MESSAGE_TRAFFIC / TIMING subscriber now dies before the k-th send of a report round after 70 distinct types were seen",
    "C03_l": "no request ever concerned an id that two connections share: a newcomer (exclusive or not) asks for it, and the holders must stay connected, acknowledged and served",
    "C04_k": "all user message ids were above 100: three user messages with ids the core leaves free below 100",
    "C05_k": "no receiver ever failed at write time: a receiver now resets right before one of the manager's send calls, also in the round in which only the manager's own reports are written",
    "C08_l": "discard_messages() was never called: it now runs while the tail of a frame is still arriving, cut at every offset (and a poll no longer waits for data in the model)",
    "C09_k": "explicit infinities had been classed as unspecified: an accepted value must read back finite, so they are out of the domain wherever they occur",
    "C09_l": "validation was only probed around explicit disable blocks: it is now probed after library calls that switch it off internally (Client.send_message / send_signal), whatever way they end",
    "C10_l": "headers always had their counts filled in: a header as it comes out of the constructor (num_data_bytes 0) was added",
    "C12_k": "no two different files were named by the same relative import string: graph 'samestring'",
    "C13_k": "the reuse form was only checked against edits of the borrowed struct: name / id edits of the reusing definition (borrowing from a struct or a message) must change its hash, and it never shares the lender's hash",
    "C13_l": "no field type mentioned a constant: float[NCH] is now in the type alphabet, with the constant next to the message, in an imported file, or with another value",
    "C14_k": "the logger always used CONNECT_V2: a population whose logger connected with CONNECT alone",
    "C14_l": "no clock ever moved in C14: the manager's periodic reports and a subscriber that cannot take them (each report is delivered or answered by a notice)",
    "C16_k": "no field spec was written with blanks inside: a closure with such specs (the combined file must reproduce the hashes)",
    "C16_l": "every compilation used a fresh Parser: the model of a Parser with failed / successful parses behind it must equal a fresh one's (core import on)",
    "C18_k": "every sender stayed connected until the report: a module that connects, publishes and leaves within one interval",
    "C18_l": "process ids never changed: a connected module announces another process id",
    "C19_k": "every request came after a handshake: requests before the handshake, and the handshake later on the same connection",
})
FIRST_WAVE_MISSED.update({
    "C08_k": "first run: harness error - the change reads with select.poll, which the virtual network did not model (an unmodelled socket / select API is a harness error, never a verdict): poll objects (POLLIN / POLLOUT / POLLERR / POLLHUP / POLLRDHUP) are now modelled and checked against the kernel in the conformance pass",
    "C01_n": "every module in the routing population had a static id: two dynamically numbered modules (CONNECT_V2 followed by the legacy CONNECT that still carries source id 0) are now addressed by the id they were told",
    "C03_n": "every by-stander was writable in every round: clients that are momentarily slow (not writable in one round) while a message, a report or a notice is due to them - including the notice about the message they could not take",
    "C04_n": "no project file listed the core definition files itself: every second single-file program now imports core_defs.yaml and data_logger.yaml explicitly before its own definitions",
    "C06_m": "long-lived dynamic modules always sat in the manager's table in the order of their ids: every permutation of 2-3 (thorough: 4) holders that left and came back to their old id after a full turn of the cursor, then another full turn",
    "C06_n": "connect() was only called on unconnected Client objects: a second connect() with other options on a Client that is already connected to the same manager (judged at the manager's table)",
    "C07_m": "no report subscriber was found dead while a multi-part report went out in the C07 families (C03 had it): added, with a second subscriber of the same report that must still receive all parts",
    "C09_n": "array-to-array copies were only made between fields of the same name: every array kind now has a second field of the same type under another name; copies from another message and within one message",
    "C10_m": "every decode was of a fresh text: the decoded object is now overwritten by its owner and the same representation decoded again (all codecs; header and data for Message.from_json)",
    "C12_n": "import chains had at most four files: a sixteen-file chain (alternating directories) with conflicts and conflict-free placements at depths 9-15",
    "C13_m": "the retype alphabet had one spelling per machine type: int / signed int / long / signed long / unsigned / unsigned int / long long / signed long long / short / signed short are now retype targets (each spelling is a type text of its own)",
    "C13_n": "the Python output of the core definitions that ships inside the package was never compared with the core definition file: every core message's shipped type_hash must equal the hash a compilation computes now",
    "C14_n": "'not writable' and 'fails on write' never met at one subscriber: the logger is reported not writable, the manager waits for it, and it goes away during that wait (new lock-step event `waitdeath`, world + reference)",
    "C15_m": "float constants were of ordinary magnitude: very small (5e-05, 1.25e-07) and very large (1.2e16) constants written positionally and referenced by other expressions and array lengths",
    "C16_n": "reserved blocks were small: three files of one closure reserve 60 + 60 + 90 ids (the combined file carries them in one block)",
    "C18_m": "one manager per process and execution: a second manager after a first one that was stopped with counts it had not reported",
    "C18_n": "the manager's logging was off in every statistics case: levels INFO and WARNING (its own records are published, hence traffic) over a reduced interval alphabet incl. out-of-table type ids",
    "C19_m": "first run: the patch no longer applied after the repair of the departure announcements touched the same lines; ported to the repaired tree (patch_head.diff) and caught by the same-round handshake pairs",
    "C19_n": "no module ever held more than a handful of subscriptions: one module issues 255-300 (thorough: up to 1024) distinct SUBSCRIBE requests, then pause / resume / repeat; every request acknowledged and copied, every subscription in force",
})
FIRST_WAVE_MISSED.update({
    "C01_p": "a fault inside the real Client (after resume(ALL) it filters against the literal ALL id and returns nothing): invisible to C01's raw clients; caught by C02 from the start (seeded/C01_p/check names C02)",
    "C02_p": "probe messages were broadcasts only: every type is now also published ADDRESSED to the client's own module id (the destination filter narrows, it never replaces the subscription); C01 caught it from the start",
    "C04_o": "no struct consisted of ONE scalar: NSC {char}, NSB {byte} and message NMC {char} joined the field-type alphabet (arrays of them are arrays of structs in every language)",
    "C04_p": "no field carried a name the generated classes use themselves: programs with a field called type_id / type_name / type_hash / type_source / type_def / type_size / hexdump are refused or, when accepted, compared like any other",
    "C05_o": "every published frame was of the user type: K's control burst now carries frames whose type id the core definitions know, with payload lengths other than the manager's own definition (another build's layout)",
    "C05_p": "every request named a real type: K's burst also sends SUBSCRIBE / RESUME / PAUSE / UNSUBSCRIBE for ids no message can have (negative, INT_MIN, beyond the table)",
    "C07_o": "the leaver was always writable in the round that found it gone: every single-leaver scenario (except the byte-offset sweeps) also runs with the leaver itself not writable",
    "C07_p": "the pool of dynamic ids was never full when somebody left: all 100 ids held, then the first / a middle / the last but one / the last admitted holder leaves (DISCONNECT, FIN, RST) and the next request must be served",
    "C08_p": "socket timeouts were not modelled (settimeout was a no-op) and no send option was ever used before reading: NET models timeouts (non-blocking underneath: MSG_WAITALL returns what has arrived; checked against the kernel), and the split-frame cases also run after sends with a timeout / a destination",
    "C09_p": "every assigned sequence was a fresh object: the same list object is assigned while valid, changed by its owner, and assigned again (same message, another message, slice)",
    "C10_o": "no definition had fields called header and data: VHD {header, data} (scalars), VHD2 (structs) and a control with a third field",
    "C10_p": "remaining_bytes and is_dynamic were zero in every header profile: non-zero in the standard profiles, INT_MIN / -1 in the edge profiles",
    "C11_o": "no imported file carried compiler options: the command-line family now has imported files saying AUTO_PAD true / false and VALIDATE_ALIGNMENT false against what the root file or the command line says",
    "C11_p": "structs were only used under their own names: structs whose size is not their alignment (12/4, 6/2, 3/1, 20/4, 24/8) reached through an alias and an alias of the alias, after / before a scalar, as arrays, auto padding on and off",
    "C12_o": "aliases always named native types: an alias whose target is another alias is a kind of its own in the name-collision pairs",
    "C12_p": "no project listed the core files itself while the automatic core import was on: graph 'coreimport' (root, an imported file and a sub-directory file each import one of core_defs / data_logger / quick_logger by path)",
    "C13_o": "all names were ASCII: renames that differ only in letters outside ASCII (definition names and field names) are edits like any other",
    "C13_p": "only instances of the generated classes were sent: application classes derived from generated ones (helper methods only) go out with the definition's hash too",
    "C15_o": "file names were unique within a closure: arm/defs.yaml and hand/defs.yaml next to a project file called data_logger.yaml",
    "C17_p": "in second recordings every data set received a message before the first flush: scripts early-restart-flush / -subdiv in the two-set configurations (one set idle at the first flush of the second recording)",
    "C19_p": "no request ever followed a dropped delivery: a module that could not take a message once (reported, 1-3 times, with or without traffic in between) then issues every kind of request",
})
FIRST_WAVE_MISSED.update({
    "C01_r": "an ENGINE weakness: after the implementation had (wrongly) dropped the publisher, its side was quiet and the lock-step settle loop stopped, although the reference still held unread frames - what the reference went on to deliver was never compared. Rounds now go on until both are quiet",
    "C03_r": "the quick tier ran every fault against a manager with the plain header only: the families in which the manager itself writes or reports (write-side deaths, slow clients, shared ids, mass departures) now also run with the timecode header",
    "C04_r": "a struct and a message never shared a name: one name for a struct and for a message of another file of the closure, used as a field type (refused, or laid out alike by every output); C12 caught the missing refusal from the start",
    "C05_r": "no connection ever saw more than a few dozen frames: one receiver now gets 70000 (thorough: 140000) frames with acknowledgements in between - every 16-bit boundary of the counter",
    "C06_r": "the manager's table was never crowded with connections that hold no dynamic id: 98 static modules and / or 130 sockets that never say CONNECT, then three dynamic requests",
    "C07_q": "the monitor always named CLIENT_CLOSED: every single-leaver scenario also runs with observers that listen through ALL_MESSAGE_TYPES only",
    "C08_q": "subscription contexts were not among the changes between reads: contexts over mixed lists (one type paused, one not subscribed) added; C02 caught it from the start",
    "C08_r": "only ONE subscription change happened between two reads: sequences of two and three changes (what unsubscribe / pause of ALL leaves behind meets a per-type change)",
    "C10_r": "no field name began with an underscore: VUS / VUSS with _a, __b, _c_, d_ (first run of the strengthened check: harness error in an unguarded pre-step - now a finding)",
    "C11_q": "with auto padding off every program was one file: a definition that needs padding placed in every file of two-import, chain and diamond closures (refused wherever it sits)",
    "C11_r": "every parse used a fresh Parser: one Parser with auto padding off parses a broken file first, then definitions that need padding - its options are its own",
    "C13_r": "no message of the cross-language program embedded another message: EMBED1-3 (direct, array, chain)",
    "C15_q": "empty sections were omitted, never written as `name: null`: an extra program with explicit null sections in the root and in an imported file",
    "C16_r": "both compilations happened on the same day: the second process believes it runs three days (and an odd number of seconds) later - the wall clock is an input",
    "C17_r": "data sets were only ever added: in the two-set configuration dA is replaced by name and dB removed and added again before the recording",
})
FIRST_WAVE_MISSED.update({
    "C02_s": "all four types had ordinary ids: D now carries the largest id a definition file may give (10000)",
    "C03_s": "no long line of clients left without a word: 103 dynamically numbered clients leave by end of stream / a frame cut short / an impossible declared length / a reset in mid-frame, then a newcomer asks for a dynamic id",
    "C03_t": "the oracle asked whether by-standers were served, not whether they could read what arrived: the streams written to the subscriber, the publisher and the monitor must still be whole frames",
    "C04_s": "every program was compiled with alignment validation on: a naturally aligned file compiled with VALIDATE_ALIGNMENT false",
    "C04_t": "no field carried a name another target language reserves: end / otherwise / persistent",
    "C05_s": "at most one receiver failed per round: two receivers (both listening for departures, as do two survivors) reset at the same instant; and the cross-receiver differences are classified - which also showed a defect of the unchanged tree (a notice published from inside a delivery against the message being delivered: open finding)",
    "C06_s": "first run: the patch no longer applied after the repair of the connect loop; ported. The three-slot alphabet lacked a dynamically numbered allow-multiple namesake",
    "C07_s": "the leaver was never found dead in a NESTED delivery: another subscriber of the type is not writable, and it is during the notice about that one that the leaver is found",
    "C10_s": "arrays were at most four elements long: VLONG with 32-64 element arrays of every width",
    "C12_t": "parse_compiler_options() was never called before parse() on one Parser: options first, then the file, with every conflict class and a conflict-free file",
    "C13_s": "the cross-language program never listed a core file itself (and told core items by the source the parser recorded): it now imports two core files explicitly, core items are told by name",
    "C13_t": "only clients were looked at as senders: the manager's own frames (acknowledgements, CLIENT_INFO / CLIENT_CLOSED, failure notices, reports, log records) carry version 0 or the hash of their own type",
    "C15_t": "alias chains were at most three links long: fifteen links across two files",
    "C16_s": "no working directory had a telling name: the first run works in a directory called core_defs",
    "C16_t": "no imported file carried compiler options in the closures of the round trip: three closures with a vendor file saying AUTO_PAD / VALIDATE_ALIGNMENT false between files whose definitions need padding",
    "C17_t": "quicklogger files held core types only and every load used a fresh reader: files of user-defined types, several loads by one reader and by fresh ones, in a process that knows the core definitions only",
    "C18_s": "every publisher had said CONNECT: a connection that never did publishes",
    "C18_t": "type id -1 had been left out of the alphabet because the observer could not tell it from the table's end marker: a slot (-1, n > 0) is an entry, and -1 is published at the places where a sub-message fills up",
    "C19_t": "requests named ordinary ids: 0, 9999, 10000, 12345, -1, -5, INT_MIN, INT_MAX-1 for all four request kinds",
})
FIRST_WAVE_MISSED.update({
    "C01_u": "a subscriber missed at most two messages in a row: 1, 9, 10, 11 and 30 misses in a row (not writable), then writable again - by type, by ALL, as a logger",
    "C03_v": "requests before the handshake came from connections that stayed: SUBSCRIBE before CONNECT, settled, then the handshake and the end of the stream in one segment",
    "C04_u": "integer constants never started with a zero: 010 / 0017 (what C reads as octal) and three-digit message ids",
    "C04_v": "layout options were only passed to compile(): the command line entry point is run with the options in the file / on the command line and what it records is compared with ctypes and gcc",
    "C05_u": "close() was only called between rounds: it now arrives before every one of the first twelve sends of a round, at log levels DEBUG / INFO / WARNING, with a logger / an everything-subscriber / a subscriber of the log types",
    "C05_v": "streams of connections refused at CONNECT were not numbered by the check: every kind of refusal, after 0 / 1 / 2 earlier requests",
    "C06_u": "connections identified themselves in the order they were accepted: X is accepted first, Y connects, then X asks for the same id / name (a third connection in between)",
    "C07_v": "one logger died per round: two loggers (both listening to everything) found dead by the copy of one acknowledgement, all four fin/rst pairs, all service orders",
    "C08_u": "every local definition was of the current kind: a legacy definition (plain ctypes fields, @msg_def) at right and wrong sizes among current ones",
    "C08_v": "undecodable payloads were a few bytes long: an unknown type and a wrong-size frame carrying 1 MiB + 5 bytes, alone, twice, split in two segments",
    "C09_u": "byte arrays were assigned from bytes, bytearray, lists and tuples: array.array of five codes, ctypes arrays of four widths and memoryviews as carriers, whole and as a slice, one bad value at every position",
    "C09_v": "values only arrived by assignment: the same out-of-domain array elements arriving through from_dict and from_json, at every position",
    "C10_u": "objects were converted after they were built, never between two writes: every conversion once, then one in-place write (nested field, array element, struct-array element's field), then every conversion again",
    "C11_v": "a struct name defined again by a later file: a name conflict, caught by C12's pair matrix from the start (seeded/C11_v/check names C12)",
    "C12_u": "id clashes and range checks used field-list and signal forms only: messages that take their fields from a struct / from another message are now forms of the clash matrix and of the range cases",
    "C13_u": "no file carried a YAML directive: a %YAML 1.1 file imported before / after / importing / two levels above a definition that YAML 1.1 reads differently (zero-padded id, fields y / n / on / off)",
    "C13_v": "no user field was called like the compiler's padding: insert / rename to padding_<i>_ are edits like all others",
    "C15_u": "every import pointed below the root file's directory: shared definitions in a sibling directory (../shared/...), imported twice",
    "C15_v": "string constants held letters, blanks and a few signs: apostrophes, quotes inside, percent signs, brackets, separators, a URL",
    "C16_u": "first run: harness error (the change leaves the process in a directory the check then removes) - now robust. Every closure of the second run is compiled right after a REFUSED compilation, by relative paths; the reused-parser family names its files relatively too",
    "C16_v": "closures carried no user metadata: eight entries of every value kind in the root file, four in an imported one",
    "C17_u": "the formatter was only driven through the collection: one formatter object handed every sequence of three batches of 0-3 messages (the last through finalize), and scripts with a flush that carries nothing for a data set",
    "C17_v": "batches held a handful of messages: single batches of every size up to 64 and around every power of two up to 8192 (16384 thorough) and 100 / 500 / 1000 / 5000 / 10000",
    "C19_u": "refused requests were left to C06: every kind of refusal (ids beyond both ends of 1..100, taken id / name, the manager's name) after 0 / 2 earlier requests, alone and followed by CONNECT - no acknowledgement, no copy",
})
NEUTRALIZED = {"C07_l": "the change made send_client_close() return early when called from inside another CLIENT_CLOSED delivery; the repair of the recursion defect (ac6efbb) announces departures one after the other, so the nested call no longer exists and the early return is never taken (the demonstration passes on the repaired tree)",
               "C17_b": "the change re-ordered the two Event operations of the hand-off; the second data-logger repair made the pair atomic under a lock, so the re-ordering no longer breaks the property (the demonstration passes on the repaired tree)"}
rows = []
titles = {}
for d in sorted(glob.glob(os.path.join(HERE, "seeded", "*_[abcdefghijklmnopqrstuv]"))):
    sid = os.path.basename(d)
    ev = json.load(open(os.path.join(d, "eval.json"))) if os.path.exists(os.path.join(d, "eval.json")) else {}
    notes = open(os.path.join(d, "notes.md")).read() if os.path.exists(os.path.join(d, "notes.md")) else ""
    first = " ".join(l.strip() for l in notes.splitlines() if l.strip() and not l.startswith("#"))[:500]
    prop = sid.split("_")[0]
    checks = ev.get("checks", {})
    fin = ev.get("final", {})
    detected = {fin.get("check", prop): fin.get("exit") == 1} if fin else {c: (v["exit"] == 1) for c, v in checks.items()}
    meta = {
        "id": sid, "property": prop, "origin": "independent sub-agent given only the property text and its own scratch worktree",
        "what_and_needs": first,
        "confirmed": {"patch_applies": ev.get("patch_applies"), "suite_with_patch": ev.get("suite_with_patch"),
                      "demo_with_patch": ev.get("demo_with_patch"), "demo_without_patch": ev.get("demo_without_patch")},
        "ran": [f"tools/seedeval.py seeded/{sid} {prop}  (scratch worktree: suite + demo with/without the patch; then `git -C /repo apply`, ./vcheck {' '.join(checks) or prop} --tier quick, `git -C /repo checkout -- .`)"],
        "detected_by": {c: {"detected": v["exit"] == 1, "exit": v["exit"], "violations": v["violations"], "what": v.get("what", [])[:2], "wall_s": v.get("wall_s")} for c, v in checks.items()},
        "final_run": {"check": fin.get("check", prop), "tier": "quick", "patch": fin.get("patch"), "repo_head": fin.get("repo_head"), "detected": fin.get("exit") == 1, "exit": fin.get("exit"),
                      "violations": fin.get("violations"), "what": fin.get("what", [])[:2], "wall_s": fin.get("wall_s"),
                      "ran": f"tools/seed_recheck.py {sid}  (git -C /repo apply, ./vcheck {prop} --tier quick, git -C /repo checkout -- .)"},
        "neutralized": NEUTRALIZED.get(sid, ""),
        "missed_in_first_run": sid in FIRST_WAVE_MISSED,
        "strengthening": FIRST_WAVE_MISSED.get(sid, ""),
    }
    json.dump(meta, open(os.path.join(d, "meta.json"), "w"), indent=1)
    title = (notes.strip().splitlines() or [""])[0].lstrip("# ").strip()
    title = re.sub(r"^C\d\d seed [ab]\s*[-:]\s*", "", title)[:110]
    titles[sid] = title
    rows.append((sid, prop, "n/a (neutralized)" if sid in NEUTRALIZED else "yes" if all(detected.values()) and detected else "NO", "first run missed - " + FIRST_WAVE_MISSED[sid] if sid in FIRST_WAVE_MISSED else "caught by the check as first built"))
import sys

lines = ["| seed | the change | caught now | history |", "|---|---|---|---|"] + [f"| {sid} | {titles[sid]} | {det} | {hist} |" for sid, prop, det, hist in rows]
if "--design" in sys.argv:
    # replace the table of DESIGN.md section 10.6 in place
    dp = os.path.join(HERE, "DESIGN.md")
    old = open(dp).read().split("\n")
    a = old.index("| seed | the change | caught now | history |")
    b = a
    while b < len(old) and old[b].startswith("|"):
        b += 1
    open(dp, "w").write("\n".join(old[:a] + lines + old[b:]))
    print(f"DESIGN.md: table rows {b - a - 2} -> {len(lines) - 2}")
    print("caught:", sum(1 for r in rows if r[2] == "yes"), "not caught:", [r[0] for r in rows if r[2] == "NO"], "neutralized:", [r[0] for r in rows if r[2].startswith("n/a")])
else:
    print("\n".join(lines))
