#!/bin/sh
# tools/run_all.sh <tier> [checks...]: run checks one after the other, print one line each (used with `vp run --with-repo`)
tier=$1; shift
[ -n "$VP_RUN_REPO" ] && export VF_REPO=$VP_RUN_REPO PYTHONPATH=$VP_RUN_REPO/src
for c in ${@:-C01 C02 C03 C04 C05 C06 C07 C08 C09 C10 C11 C12 C13 C14 C15 C16 C17 C18 C19}; do
  s=$(date +%s)
  out=$(./vcheck $c --tier $tier 2>&1); rc=$?
  echo "== $c tier=$tier rc=$rc wall=$(( $(date +%s) - s ))s"
  echo "$out" | grep -E "VIOLATION|KNOWN-FINDING|what:|HARNESS|^\[C|CAP" | cut -c1-400
done
