#!/usr/bin/env python3
"""tools/seed_recheck.py [seed names...]: run the property's quick check of the CURRENT /verif against every kept seed.
Applies seeded/<name>/patch_head.diff (the same change ported to the repaired tree, when the original no longer applies)
or patch.diff to /repo, runs ./vcheck <prop>, reverts /repo straight afterwards. Result -> seeded/<name>/eval.json["final"]."""
import json, os, subprocess, sys, time

V = os.path.dirname(os.path.dirname(os.path.abspath(__file__)))
# SEED_REPO: a scratch worktree of /repo at the same HEAD (a second lane next to the one working on /repo itself)
REPO = os.environ.get("SEED_REPO", "/repo")
ENV = dict(os.environ)
if REPO != "/repo":
    ENV.update(VF_REPO=REPO, PYTHONPATH=os.path.join(REPO, "src"))
names = sys.argv[1:] or sorted(os.listdir(os.path.join(V, "seeded")))
assert subprocess.run(["git", "-C", REPO, "status", "--porcelain", "--untracked-files=no"], capture_output=True, text=True).stdout.strip() == "", "/repo is dirty"
for n in names:
    d = os.path.join(V, "seeded", n)
    if not os.path.isfile(os.path.join(d, "patch.diff")):
        continue
    prop = n.split("_")[0]
    # a change made for one property may be caught by another property's check (e.g. the client-side half of delivery):
    # seeded/<name>/check names it
    alt = os.path.join(d, "check")
    check = open(alt).read().strip() if os.path.exists(alt) else prop
    ev_path = os.path.join(d, "eval.json")
    ev = json.load(open(ev_path)) if os.path.exists(ev_path) else {"property": prop}
    patch = os.path.join(d, "patch_head.diff") if os.path.exists(os.path.join(d, "patch_head.diff")) else os.path.join(d, "patch.diff")
    r = subprocess.run(["git", "-C", REPO, "apply", patch], capture_output=True, text=True)
    fin = {"patch": os.path.basename(patch), "tree": REPO, "repo_head": subprocess.run(["git", "-C", REPO, "rev-parse", "--short", "HEAD"], capture_output=True, text=True).stdout.strip()}
    if r.returncode != 0:
        fin["apply_error"] = r.stderr[-300:]
    else:
        try:
            t = time.time()
            c = subprocess.run([os.path.join(V, "vcheck"), check, "--tier", "quick"], capture_output=True, text=True, timeout=3600, env=ENV)
            fin.update(check=check, exit=c.returncode, violations=len([l for l in c.stdout.splitlines() if l.startswith("VIOLATION")]),
                       what=[l.strip()[:300] for l in c.stdout.splitlines() if l.strip().startswith("what:")][:3], wall_s=round(time.time() - t, 1))
            if c.returncode == 2:
                fin["stderr"] = c.stderr[-500:]
        finally:
            subprocess.run(["git", "-C", REPO, "checkout", "--", "."])
    ev["final"] = fin
    json.dump(ev, open(ev_path, "w"), indent=1)
    print(f"== {n}: {fin.get('patch')} exit={fin.get('exit')} violations={fin.get('violations')} {fin.get('apply_error', '')[:80]}", flush=True)
