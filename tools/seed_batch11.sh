#!/bin/sh
# wave 11: seeds under /tmp/seed11/<prop>/_seed/{a,b} are stored as seeded/<prop>_u and <prop>_v
for p in "$@"; do
  for n in a b; do
    src=/tmp/seed11/$p/_seed/$n
    [ -f $src/patch.diff ] || continue
    m=u; [ $n = b ] && m=v
    dst=/verif/seeded/${p}_$m
    mkdir -p $dst
    cp $src/patch.diff $src/demo.py $dst/ 2>/dev/null
    cp $src/notes.md $dst/notes.md 2>/dev/null
    SEED_WT=/tmp/seed11/$p /verif/tools/seedeval.py $dst $p > $dst/eval.json 2>$dst/eval.err
    echo "== $p/$m: $(/venv/bin/python -c "
import json,sys
d=json.load(open('$dst/eval.json'))
print('applies',d.get('patch_applies'),'| suite:',d.get('suite_with_patch'),'| demo w/o:',d.get('demo_without_patch','')[:12],'| demo with:',d.get('demo_with_patch','')[:8],'| checks:',{k:(v['exit'],v['violations']) for k,v in d['checks'].items()})")"
  done
done
