#!/usr/bin/env python3
"""tools/seedeval.py <seed_dir> <property> [checks...]
seed_dir contains patch.diff and demo.py (as delivered by a sub-agent).
1. confirms the seed in a fresh scratch worktree: patch applies, repo suite passes with it, demo fails with it and passes without it;
2. applies the patch to /repo, runs the given checks (default: the property's quick check), reverts /repo;
3. prints a JSON summary (caller stores it as meta.json)."""
import json, os, subprocess, sys, tempfile, shutil, time

seed, prop = sys.argv[1], sys.argv[2]
checks = sys.argv[3:] or [prop]
patch = os.path.abspath(os.path.join(seed, "patch.diff"))
demo = os.path.abspath(os.path.join(seed, "demo.py"))
out = {"property": prop, "seed": seed, "checks": {}}
own_wt = os.environ.get("SEED_WT")  # reuse the sub-agent's (clean) scratch worktree: some demos hard-code its path
wt = own_wt or tempfile.mkdtemp(prefix="sv_", dir="/tmp")
if not own_wt:
    os.rmdir(wt)
def sh(cmd, cwd=None, env=None, timeout=1800):
    r = subprocess.run(cmd, cwd=cwd, env=env, capture_output=True, text=True, timeout=timeout, shell=isinstance(cmd, str))
    return r.returncode, (r.stdout + r.stderr)[-1500:]
try:
    if own_wt:
        sh(["git", "checkout", "--", "."], cwd=wt)
        out["worktree_clean"] = sh(["git", "status", "--porcelain", "--untracked-files=no"], cwd=wt)[1].strip() == ""
    else:
        sh(["git", "-C", "/repo", "worktree", "add", "--detach", wt, "HEAD", "-q"])
    env = dict(os.environ, PYTHONPATH=os.path.join(wt, "src"), PYTHONHASHSEED="0")
    os.makedirs(os.path.join(wt, "_seed", "x"), exist_ok=True)
    shutil.copy(demo, os.path.join(wt, "_seed", "x", "demo.py"))
    rc, o = sh(["/venv/bin/python", "_seed/x/demo.py"], cwd=wt, env=env, timeout=600)
    out["demo_without_patch"] = "pass" if rc == 0 else f"FAIL rc={rc}: {o[-300:]}"
    rc, o = sh(["git", "apply", patch], cwd=wt)
    out["patch_applies"] = rc == 0
    if rc != 0:
        out["apply_error"] = o
    else:
        rc, o = sh(["/venv/bin/python", "_seed/x/demo.py"], cwd=wt, env=env, timeout=600)
        out["demo_with_patch"] = "fails (as intended)" if rc != 0 else "PASSES (seed not demonstrated)"
        for attempt in range(3):
            rc, o = sh("/venv/bin/python -m pytest -q -p no:cacheprovider --timeout=900 2>&1 | tail -15", cwd=wt, env=env)
            last = o.strip().splitlines()[-1] if o.strip() else ""
            out.setdefault("suite_runs", []).append(last)
            out["suite_with_patch"] = last
            if " failed" not in last:
                break
            out["suite_failures"] = [l for l in o.splitlines() if l.startswith("FAILED")][:5]
finally:
    if own_wt:
        sh(["git", "checkout", "--", "."], cwd=wt)
        shutil.rmtree(os.path.join(wt, "_seed", "x"), ignore_errors=True)
    else:
        sh(["git", "-C", "/repo", "worktree", "remove", "--force", wt])
        shutil.rmtree(wt, ignore_errors=True)
# run the checks against /repo with the patch applied
rc, o = sh(["git", "-C", "/repo", "apply", patch])
if rc == 0:
    try:
        for c in checks:
            t = time.time()
            r = subprocess.run(["/verif/vcheck", c, "--tier", os.environ.get("TIER", "quick")], capture_output=True, text=True, timeout=3600)
            viol = [l for l in r.stdout.splitlines() if l.startswith("VIOLATION")]
            what = [l.strip() for l in r.stdout.splitlines() if l.strip().startswith("what:")][:3]
            out["checks"][c] = {"exit": r.returncode, "violations": len(viol), "what": [w[:300] for w in what], "wall_s": round(time.time() - t, 1)}
            if r.returncode == 2:
                out["checks"][c]["stderr"] = r.stderr[-600:]
    finally:
        subprocess.run(["git", "-C", "/repo", "checkout", "--", "."])
else:
    out["repo_apply_error"] = o
print(json.dumps(out, indent=1))
